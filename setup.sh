#!/bin/sh
# Offline setup: verify the tool chain and pre-parse every spec with SANY.
set -e
cd "$(dirname "$0")"
command -v java >/dev/null
test -f /opt/veriftools/tla/tla2tools.jar
test -x /venv/bin/python
PYTHONPATH=harness/boot PYTHONWARNINGS=ignore /venv/bin/python -c "import zope.testrunner, zope.interface"
cd spec
fail=0
for f in *.tla; do
  if ! java -cp /opt/veriftools/tla/tla2tools.jar:/opt/veriftools/tla/CommunityModules-deps.jar tla2sany.SANY "$f" >/tmp/sany.$$ 2>&1 || grep -q "Fatal\|\*\*\* Errors\|failed" /tmp/sany.$$; then
    echo "SANY failed on $f"; cat /tmp/sany.$$; fail=1
  fi
done
rm -f /tmp/sany.$$
test $fail = 0
echo "setup ok"
