"""C18: interpreter-global state changed for a run is restored afterwards."""
import itertools
import json
import os
import random
import tempfile
from concurrent.futures import ThreadPoolExecutor

import runlib
import tlc

# 'A' = --gc-after-test (with -vvvv: stopTest analyses the cycles under
# DEBUG_SAVEALL and puts the flags back)
OPTS = ['gc', 'G', 'A', 'coverage', 'profile', 'buffer', 'warnings', 'D']
ENDINGS = ['normal', 'failing', 'hookUp', 'hookDown', 'kbint', 'stop', 'postmortem',
           'layerKbint', 'skipThenHookDown', 'kbintThenHookDown', 'redirKbint',
           'gcWinKbint', 'profDirGone']
# inner options of a nested run (a test of the outer run calls run_internal)
INNER_POOL = ['gc', 'G', 'coverage', 'profile', 'buffer', 'warnings']
HOOKS = ['setUp', 'tearDown', 'testSetUp', 'testTearDown']

# the caller's state of the collector before the run (inputs, by name)
U, S, T = 'DEBUG_UNCOLLECTABLE', 'DEBUG_SAVEALL', 'DEBUG_STATS'
PRE_DEBUG = [[], [U], [S], [T], [U, T], [S, T]]
G_VARIANTS = [[U], [S], [U, S]]
PRE_THRESHOLD = [[701, 11, 9], [701, 11, 9], [0, 11, 9], [5000, 20, 20], [700, 10, 10]]
GC_ARGS = [[500], [500, 8], [500, 8, 7], [0]]

DEVS = ('CoverageResetsTrace', 'CoverageStopAllThreads', 'ProfileResetsHook', 'PostMortemResetsTrace',
        'TeardownOutsideFinally', 'NoCatchWarnings', 'CatchWarningsOnlyIfSet', 'HooksDownBeforeRestore',
        'TracebackKeepsPrint', 'RestoreOnlyOwnBuffer',
        'DebugOrAndMask', 'AfterTestClearsDebug', 'AnalysisInterrupted',
        'SharedSaveSlot', 'ProfilerOffAtDump')


def inner_args(inner, rng):
    """the command line of the nested run (GlobalState!NestPush)"""
    args = []
    if 'gc' in inner:
        args += ['--gc', str(rng.choice([300, 900]))]
    if 'G' in inner:
        args += ['-G', rng.choice([U, T])]
    if 'coverage' in inner:
        args += ['--coverage', '@NESTDIR@/cov']
    if 'profile' in inner:
        args += ['--profile', 'cProfile', '--profile-directory', '@NESTDIR@']
    if 'buffer' in inner:
        args += ['--buffer']
    return args


def make_world(wid, ending, rng, nested=None):
    """L1 (runs first): t1 snapshots the globals from inside a test and
    fiddles with the warnings machinery; L2: where the test phase ends (t3
    takes another snapshot if it is reached).  Tests leave cyclic garbage
    behind (what --gc-after-test looks at); printing it may raise."""
    layers = {'L1': {'kind': 'class', 'bases': [], 'hooks': HOOKS},
              'L2': {'kind': 'class', 'bases': [], 'hooks': HOOKS}}
    tests = {
        't1': {'body': [{'a': 'write', 'tok': 'QZ1Q'}, 'snap',
                        {'a': 'fiddle', 'what': rng.choice(['filters', 'showwarning'])}]},
        't2': {'body': [{'a': 'write', 'tok': 'QZ2Q', 'stream': 'stderr'}]},
        't3': {'body': ['snap']},
    }
    if rng.random() < 0.7:
        tests['t1']['body'].insert(0, {'a': 'cycle'})
    if nested is not None:
        # the first test performs a run of its own before anything else (its
        # snapshot then shows what the inner run left behind)
        tests['t1']['body'].insert(0, {
            'a': 'nested', 'args': inner_args(nested, rng), 'fail': rng.random() < 0.5,
            'warnings': rng.choice(['always', 'error']) if 'warnings' in nested else None})
    if ending == 'profDirGone':
        # the profile directory disappears while the tests run
        tests['t2']['body'].append({'a': 'rmtree', 'path': 'profdir'})
    if ending == 'gcWinKbint':
        # Ctrl-C while stopTest prints the garbage this test left behind
        tests['t2']['body'].append({'a': 'cycle', 'repr': 'kbint'})
    elif rng.random() < 0.7:
        tests['t2']['body'].append({'a': 'cycle', 'repr': rng.choice(['ok', 'ok', 'error'])})
    if ending in ('failing', 'stop', 'postmortem'):
        tests['t2']['body'].append(rng.choice(['fail', {'a': 'error'}]))
    elif ending == 'hookUp':
        layers['L2']['testSetUp'] = 'raise'
    elif ending == 'hookDown':
        layers['L2']['testTearDown'] = 'raise'
    elif ending == 'kbint':
        tests['t2']['body'].append('kbint')
    elif ending == 'layerKbint':
        layers['L2']['setUp'] = {'exc': 'KeyboardInterrupt'}
    elif ending == 'skipThenHookDown':
        # the capture is still armed at stopTest when the test was skipped
        tests['t2']['body'].append('skip')
        layers['L2']['testTearDown'] = 'raise'
    elif ending == 'redirKbint':
        # the test replaces sys.stdout for itself in setUp, is interrupted, and
        # its tearDown (which would put it back) never runs
        tests['t2']['setUp'] = [{'a': 'redirect', 'stream': 'stdout'}]
        tests['t2']['body'].append('kbint')
        tests['t2']['tearDown'] = [{'a': 'unredirect', 'stream': 'stdout'}]
    elif ending == 'kbintThenHookDown':
        tests['t2']['body'].append('kbint')
        layers['L2']['testTearDown'] = 'raise'
    return {'id': wid, 'layers': layers, 'layer_order': ['L1', 'L2'],
            'classes': {'TA': {'tests': ['t1'], 'layer': 'L1'},
                        'TB': {'tests': ['t2', 't3'], 'layer': 'L2'}},
            'tests': tests}


def make_job(cid, opts, ending, pre, rng, pre_debug=None, gflags=None, v4=None, nested=None):
    args = []
    opts = set(opts)
    if ending == 'profDirGone':
        opts.add('profile')
    if nested is not None:
        # not nested: a profiler inside a profiled run, --coverage inside --coverage
        nested = sorted(set(nested) - (opts & {'profile', 'coverage'}))
    if ending == 'gcWinKbint':
        opts.add('A')
        v4 = True
    if pre_debug is None:
        pre_debug = rng.choice(PRE_DEBUG)
    if gflags is None:
        gflags = rng.choice(G_VARIANTS)
    if v4 is None:
        v4 = rng.random() < 0.75
    job = {'id': cid, 'world': make_world(cid, ending, rng, nested), 'stdout_kind': 'file',
           'chdir': True,
           'pre': {'gc_threshold': rng.choice(PRE_THRESHOLD), 'gc_debug': 0,
                   'gc_debug_flags': list(pre_debug), 'warn_filter': True,
                   'tb_patch': rng.random() < 0.5, 'hooks': pre}}
    if 'gc' in opts:
        gc_args = rng.choice(GC_ARGS)
        if gc_args == [0] and job['pre']['gc_threshold'][0] == 0:
            gc_args = [0, 5]      # keep the run's thresholds different from the caller's
        for v in gc_args:
            args += ['--gc', str(v)]
    if 'G' in opts:
        for f in gflags:
            args += ['-G', f]
    if 'A' in opts:
        args += ['--gc-after-test']
    if 'coverage' in opts:
        args += ['--coverage', 'covdir']
    if 'profile' in opts:
        args += ['--profile', 'cProfile']
        if ending == 'profDirGone':
            args += ['--profile-directory', 'profdir']
            job['mkdirs'] = ['profdir']
    if 'buffer' in opts:
        args += ['--buffer']
    if 'warnings' in opts:
        job['warnings'] = rng.choice(['error', 'always', 'default', 'ignore'])
    if 'D' in opts or ending == 'postmortem':
        args += ['-D']
        job['stdin'] = 'c\nc\nc\n'
    if ending == 'stop':
        args += ['-x']
    if 'A' in opts and v4:
        args += ['-vvvv']
    elif rng.random() < 0.5:
        args += [rng.choice(['-v', '-v', '-vvv'])]
    job['args'] = args
    job['meta'] = {'opts': sorted(set(opts) | ({'D'} if ending == 'postmortem' else set())
                                  | ({'x'} if ending == 'stop' else set())),
                   'ending': ending, 'pre': pre,
                   'gbits': list(gflags) if 'G' in opts else [],
                   'v4': bool('A' in opts and v4), 'pre_debug': list(pre_debug),
                   'nested': nested}
    return job


def record(job, res):
    evs = res.get('events', [])
    mids = [e['g'] for e in evs if e['e'] == 'Snap']
    before = res.get('before') or {}
    nb = [e['g'] for e in evs if e['e'] == 'NestBegin']
    ne = [e['g'] for e in evs if e['e'] == 'NestEnd']
    return {'hasNest': bool(nb and ne), 'nestBefore': nb[0] if nb and ne else {'_': ''},
            'nestAfter': ne[0] if nb and ne else {'_': ''},
            'id': job['id'], 'opts': job['meta']['opts'], 'pre': job['meta']['pre'],
            'ending': job['meta']['ending'], 'raised': res.get('crashed', '') or '',
            'began': any(e['e'] in ('LsetUpBegin', 'T', 'LtestSetUp') for e in evs) and bool(before),
            'before': before or {'_': ''}, 'after': res.get('after') or {'_': ''},
            'hasMid': bool(mids), 'mid': mids[0] if mids else (before or {'_': ''}),
            'mid2': mids[-1] if mids else (before or {'_': ''}),
            'gbits': job['meta'].get('gbits', []), 'v4': bool(job['meta'].get('v4')),
            'win': [e['bits'] for e in evs if e['e'] == 'GcRepr' and e.get('inwin')]}


def validate(chk, recs, label):
    fd, path = tempfile.mkstemp(prefix='verif-glob-', suffix='.json')
    with os.fdopen(fd, 'w') as f:
        json.dump(recs, f)
    try:
        res = tlc.run('Trace_Global', 'Trace_Global', env={'TRACE_FILE': path}, timeout=1800)
    finally:
        os.unlink(path)
    chk.add_tlc('Trace_Global ' + label, res)
    return {m[1]: (m[2], m[3]) for m in tlc.printed_tuples(res.out, 'GLOB')}


def run_jobs(chk, jobs, label):
    results = runlib.run_inproc_many(jobs, chunk=1)
    recs = [record(j, r) for j, r in zip(jobs, results)]
    verdicts = validate(chk, recs, label)
    drift = notbegun = 0
    raised = {}
    for j, r, rec in zip(jobs, results, recs):
        v = verdicts.get(j['id'])
        if v is None:
            chk.machinery('no GLOB line for %s' % j['id'])
            continue
        chk.traces += 1
        chk.nontrivial.add(json.dumps([rec['opts'], rec['pre'], rec['ending'],
                                       j['meta'].get('pre_debug'), rec['gbits'], rec['v4'],
                                       j['meta'].get('nested')]))
        if rec['hasNest']:
            chk.extra['runs_with_nested_run'] = chk.extra.get('runs_with_nested_run', 0) + 1
        if rec['win']:
            chk.extra['runs_with_analysis_window_observed'] = \
                chk.extra.get('runs_with_analysis_window_observed', 0) + 1
        raised.setdefault(rec['ending'], set()).add(rec['raised'])
        clause, arg = v
        if clause == 'DRIFT':
            drift += 1
            chk.notes.append('DRIFT %s: mid-run changed set %s for options %s' % (j['id'], arg, rec['opts']))
        elif clause == 'NOT-BEGUN':
            notbegun += 1
            chk.notes.append('run %s never reached the test phase: %s' % (j['id'], r.get('crash_tb', '')[-300:]))
        elif clause:
            sig = '%s|%s' % (clause, arg)
            if clause == 'C18:caller-hook-not-restored':
                sig += '|' + ('coverage' if 'coverage' in rec['opts'] and arg in ('sysTrace', 'thrTrace')
                              else 'post-mortem' if 'D' in rec['opts'] and arg == 'sysTrace'
                              else 'profile' if 'profile' in rec['opts'] else 'other')
            elif arg == 'gcDebug' and rec['ending'] == 'gcWinKbint':
                sig += '|interrupt-in-gc-after-test-analysis'
            if j['meta'].get('nested') is not None:
                sig += '|nested-run'
            chk.violation(sig, '%s: %s differs after the run (options %s, ending %s, raised %r): %r -> %r'
                          % (clause, arg, rec['opts'], rec['ending'], rec['raised'],
                             rec['before'].get(arg), rec['after'].get(arg)),
                          {'job': j, 'record': rec, 'stdout_tail': r.get('stdout', '')[-1500:],
                           'crash_tb': r.get('crash_tb', '')})
    chk.extra['drift'] = chk.extra.get('drift', 0) + drift
    chk.extra['not_begun'] = chk.extra.get('not_begun', 0) + notbegun
    chk.extra['how_each_ending_left_run'] = {k: sorted(v) for k, v in raised.items()}
    # bookkeeping only: how often each caller flag state / -G variant was run
    cnt = chk.extra.setdefault('caller_gc_debug_states_run', {})
    for j in jobs:
        key = '%s | -G %s' % ('+'.join(j['meta'].get('pre_debug') or ['0']),
                              '+'.join(j['meta'].get('gbits') or ['-']))
        cnt[key] = cnt.get(key, 0) + 1
    if notbegun > len(jobs) // 10:
        chk.machinery('%d of %d runs never reached the test phase' % (notbegun, len(jobs)))


def model_check(chk):
    """design configurations must pass, every deviation must give a
    counterexample; the runs are independent, a few at a time"""
    cfgs = [('GlobalState_design', True), ('GlobalState_gc', True), ('GlobalState_nest', True)] + \
           [('GlobalState_dev_' + d, False) for d in DEVS]
    with ThreadPoolExecutor(max_workers=4) as ex:
        futs = [ex.submit(tlc.run, 'GlobalState', c, workers=6 if ok else 4,
                          timeout=900 if ok else 600) for c, ok in cfgs]
        for (c, ok), fut in zip(cfgs, futs):
            res = fut.result()
            if ok:
                chk.add_tlc(c, res)
            else:
                chk.add_tlc(c[len('GlobalState_'):], res, expect_ok=False)
                if not res.violation:
                    chk.machinery('deviation config %s did not produce a counterexample'
                                  % c[len('GlobalState_dev_'):])


def run(chk, tier, seed, replay=None):
    chk.rule = ('(1) TLC: GlobalState.tla - Runner.run as a pipeline (catch_warnings, '
                'global_setup / late_setup of Coverage, Profiling, gc Threshold, gc Debug, '
                'Traceback; per-test startTest / body / stopTest incl. the DEBUG_SAVEALL window of '
                '--gc-after-test at verbosity >= 4; early_teardown / global_teardown in finally); gc debug '
                'flags are sets of bits. GlobalState_design: all 2^8 option subsets (-x tied to its ending) x 9 endings of the '
                'test phase x caller without own hooks / with sys and threading trace hooks (two functions) and a profile hook / with a sys trace hook only; '
                'GlobalState_gc: subsets of {--gc, -G, --gc-after-test, -D, --buffer} x -G naming {UNCOLLECTABLE} / {SAVEALL} / both x '
                'verbosity >= 4 or not x 7 caller debug-flag states (none, overlapping with -G, disjoint, SAVEALL) x 9 endings (incl. KeyboardInterrupt '
                'inside the analysis window): Restored, HooksRestored, '
                'Terminates, mid-run state and flags as predicted; GlobalState_nest: NESTED runs - the first test of a run calls run_internal itself, '
                'the pipeline recursively (depth 2; inner options from {-G, --coverage, --profile, --buffer, warnings}, inner run returning or interrupted), '
                'every run restores what IT found (g = g0 per level), the outer mid-run state is as predicted again once the inner run is over; '
                'ending profDirGone: the --profile-directory disappears during the run, Profiling.global_teardown raises OSError from the finally clause; '
                '15 deviation configs (incl. SharedSaveSlot: one module-level slot for the replaced traceback functions; ProfilerOffAtDump: no early '
                'profiler.disable) must each give a counterexample. (2) real '
                'runs in a fresh interpreter each, with a non-default caller state (gc thresholds '
                '(701,11,9) / (0,11,9) / (5000,20,20) / default, gc debug flags from 6 states, an extra warnings filter, wrapped traceback functions, optionally own '
                'trace / profile hooks): option subsets (quick: pairwise + all singles, thorough: '
                'all 2^8) x 13 endings (normal, failing, exception from testSetUp / testTearDown, '
                'KeyboardInterrupt in a test / in a layer setUp / while stopTest prints the cyclic garbage of a test, -x, -D post-mortem, skip or '
                'KeyboardInterrupt followed by a raising testTearDown, KeyboardInterrupt in a test that had replaced sys.stdout for itself, '
                'a test removing the --profile-directory so that the run is aborted by OSError from global_teardown); '
                'a family of nested runs (a test calls zope.testrunner.run_internal on a project of its own in a scratch directory; 8 outer option sets x '
                '3 inner option sets x 5 endings; snapshots right before / after the inner run are judged by the same clause); '
                'a family crossing every caller flag state with every -G variant and --gc-after-test; tests leave cyclic garbage whose printing may raise; snapshots before / inside a '
                'test / after (and the flags seen inside the analysis window) are compared by TLC; distinct = distinct (options, caller hooks, ending, caller flags, -G flags, verbosity)')
    chk.assumptions += ['doctest report flags, pdb.set_trace and the root logging handler are named non-goals (DESIGN 5/C18)',
                        'exceptions raised before the test phase begins are outside the statement',
                        'nested runs: --profile inside a --profile run (refused by the interpreter before the inner test phase) and --coverage inside a --coverage run are not enumerated',
                        'gc.garbage (emptied by the --gc-after-test analysis) and gc.isenabled() (never touched by the runner) are not part of the statement']
    if replay:
        with open(replay) as f:
            r = json.load(f)
        run_jobs(chk, [r['job']], 'replay')
        return
    rng = random.Random(seed * 7919 + 18)
    n = len(ENDINGS)
    if tier == 'quick':
        subsets = [()] + [(o,) for o in OPTS] + list(itertools.combinations(OPTS, 2)) + [tuple(OPTS)]
        combos = []
        for k, s in enumerate(subsets):
            ends = [ENDINGS[k % n], ENDINGS[(k * 5 + 1) % n]]
            if k % 2:
                ends.append(rng.choice(ENDINGS))
            for e in ends:
                combos.append((s, e))
        combos += [(('buffer',), e) for e in ENDINGS] + [(tuple(OPTS), e) for e in ENDINGS]
    else:
        subsets = [s for r in range(len(OPTS) + 1) for s in itertools.combinations(OPTS, r)]
        combos = [(s, e) for s in subsets for e in ENDINGS]
    jobs = []
    for k, (s, e) in enumerate(combos):
        jobs.append(make_job('g%d' % k, s, e, 'none', rng))
    # caller with its own trace / profile hooks (separate family: see known findings)
    for k, (s, e) in enumerate(combos[::7 if tier == 'quick' else 6]):
        jobs.append(make_job('h%d' % k, s, e, rng.choice(['both', 'sys']), rng))
    k = 0
    for s in (('coverage',), ('profile',), ('D',), ('coverage', 'profile', 'D'), tuple(OPTS)):
        for e in ('normal', 'failing', 'postmortem', 'kbint', 'hookDown', 'stop'):
            for pre in ('both', 'sys'):
                k += 1
                jobs.append(make_job('p%d' % k, s, e, pre, rng))
    # the caller's collector state against what the options name: every caller
    # flag state x every -G variant (with and without --gc-after-test), and
    # --gc-after-test alone; the same cases for every seed
    gc_endings = ['normal', 'failing', 'kbint', 'hookDown', 'gcWinKbint', 'stop', 'hookUp', 'postmortem']
    k = 0
    for pd in PRE_DEBUG:
        for gv in G_VARIANTS:
            a = k % 3       # 0: no --gc-after-test, 1: with -vvvv, 2: below -vvvv
            e = gc_endings[k % len(gc_endings)]
            if e == 'gcWinKbint' and a != 1:
                e = 'kbint'
            jobs.append(make_job('d%d' % k, ('G', 'A') if a else ('G',), e, 'none', rng,
                                 pre_debug=pd, gflags=gv, v4=(a == 1)))
            k += 1
        for e in (('normal', 'gcWinKbint') if tier == 'quick' else gc_endings):
            jobs.append(make_job('d%d' % k, ('A',), e, 'none', rng, pre_debug=pd, v4=True))
            k += 1
    # nested runs: a test of the outer run calls run_internal itself; outer
    # options x inner options x how the outer test phase ends
    nest_endings = ['normal', 'failing', 'kbint', 'hookDown', 'stop', 'normal']
    outer = [(), ('buffer',), ('gc', 'G'), ('coverage',), ('profile',), ('warnings', 'buffer'),
             ('gc', 'G', 'coverage', 'profile', 'buffer', 'warnings'), ('A', 'G')]
    k = 0
    for s in outer if tier == 'quick' else outer + subsets[::5]:
        for inner in ((), tuple(INNER_POOL), tuple(o for o in INNER_POOL if rng.random() < 0.5)):
            jobs.append(make_job('n%d' % k, s, nest_endings[k % len(nest_endings)],
                                 'both' if k % 4 == 3 else 'none', rng, nested=inner))
            k += 1
    chk.sample({'args': jobs[5]['args'], 'meta': jobs[5]['meta'], 'pre': jobs[5]['pre'],
                'world': jobs[5]['world']})
    chk.sample({'args': jobs[-1]['args'], 'meta': jobs[-1]['meta'], 'pre': jobs[-1]['pre'],
                'world': jobs[-1]['world']})
    model_check(chk)
    run_jobs(chk, jobs, 'runs')
