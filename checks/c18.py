"""C18: interpreter-global state changed for a run is restored afterwards."""
import itertools
import json
import os
import random
import tempfile

import runlib
import tlc

OPTS = ['gc', 'G', 'coverage', 'profile', 'buffer', 'warnings', 'D']
ENDINGS = ['normal', 'failing', 'hookUp', 'hookDown', 'kbint', 'stop', 'postmortem',
           'layerKbint', 'skipThenHookDown', 'kbintThenHookDown', 'redirKbint']
HOOKS = ['setUp', 'tearDown', 'testSetUp', 'testTearDown']


def make_world(wid, ending, rng):
    """L1 (runs first): t1 snapshots the globals from inside a test and
    fiddles with the warnings machinery; L2: where the test phase ends."""
    layers = {'L1': {'kind': 'class', 'bases': [], 'hooks': HOOKS},
              'L2': {'kind': 'class', 'bases': [], 'hooks': HOOKS}}
    tests = {
        't1': {'body': [{'a': 'write', 'tok': 'QZ1Q'}, 'snap',
                        {'a': 'fiddle', 'what': rng.choice(['filters', 'showwarning'])}]},
        't2': {'body': [{'a': 'write', 'tok': 'QZ2Q', 'stream': 'stderr'}]},
        't3': {},
    }
    if ending in ('failing', 'stop', 'postmortem'):
        tests['t2']['body'].append(rng.choice(['fail', {'a': 'error'}]))
    elif ending == 'hookUp':
        layers['L2']['testSetUp'] = 'raise'
    elif ending == 'hookDown':
        layers['L2']['testTearDown'] = 'raise'
    elif ending == 'kbint':
        tests['t2']['body'].append('kbint')
    elif ending == 'layerKbint':
        layers['L2']['setUp'] = {'exc': 'KeyboardInterrupt'}
    elif ending == 'skipThenHookDown':
        # the capture is still armed at stopTest when the test was skipped
        tests['t2']['body'].append('skip')
        layers['L2']['testTearDown'] = 'raise'
    elif ending == 'redirKbint':
        # the test replaces sys.stdout for itself in setUp, is interrupted, and
        # its tearDown (which would put it back) never runs
        tests['t2']['setUp'] = [{'a': 'redirect', 'stream': 'stdout'}]
        tests['t2']['body'].append('kbint')
        tests['t2']['tearDown'] = [{'a': 'unredirect', 'stream': 'stdout'}]
    elif ending == 'kbintThenHookDown':
        tests['t2']['body'].append('kbint')
        layers['L2']['testTearDown'] = 'raise'
    return {'id': wid, 'layers': layers, 'layer_order': ['L1', 'L2'],
            'classes': {'TA': {'tests': ['t1'], 'layer': 'L1'},
                        'TB': {'tests': ['t2', 't3'], 'layer': 'L2'}},
            'tests': tests}


def make_job(cid, opts, ending, pre, rng):
    args = []
    job = {'id': cid, 'world': make_world(cid, ending, rng), 'stdout_kind': 'file',
           'chdir': True,
           'pre': {'gc_threshold': [701, 11, 9], 'gc_debug': 0, 'warn_filter': True,
                   'tb_patch': rng.random() < 0.5, 'hooks': pre}}
    if 'gc' in opts:
        for v in [[500], [500, 8], [500, 8, 7]][rng.randrange(3)]:
            args += ['--gc', str(v)]
    if 'G' in opts:
        args += ['-G', 'DEBUG_UNCOLLECTABLE']
    if 'coverage' in opts:
        args += ['--coverage', 'covdir']
    if 'profile' in opts:
        args += ['--profile', 'cProfile']
    if 'buffer' in opts:
        args += ['--buffer']
    if 'warnings' in opts:
        job['warnings'] = rng.choice(['error', 'always', 'default', 'ignore'])
    if 'D' in opts or ending == 'postmortem':
        args += ['-D']
        job['stdin'] = 'c\nc\nc\n'
    if ending == 'stop':
        args += ['-x']
    if rng.random() < 0.5:
        args += ['-v']
    job['args'] = args
    job['meta'] = {'opts': sorted(set(opts) | ({'D'} if ending == 'postmortem' else set())
                                  | ({'x'} if ending == 'stop' else set())),
                   'ending': ending, 'pre': pre}
    return job


def record(job, res):
    evs = res.get('events', [])
    mids = [e['g'] for e in evs if e['e'] == 'Snap']
    before = res.get('before') or {}
    return {'id': job['id'], 'opts': job['meta']['opts'], 'pre': job['meta']['pre'],
            'ending': job['meta']['ending'], 'raised': res.get('crashed', '') or '',
            'began': any(e['e'] in ('LsetUpBegin', 'T', 'LtestSetUp') for e in evs) and bool(before),
            'before': before or {'_': ''}, 'after': res.get('after') or {'_': ''},
            'hasMid': bool(mids), 'mid': mids[0] if mids else (before or {'_': ''})}


def validate(chk, recs, label):
    fd, path = tempfile.mkstemp(prefix='verif-glob-', suffix='.json')
    with os.fdopen(fd, 'w') as f:
        json.dump(recs, f)
    try:
        res = tlc.run('Trace_Global', 'Trace_Global', env={'TRACE_FILE': path}, timeout=1800)
    finally:
        os.unlink(path)
    chk.add_tlc('Trace_Global ' + label, res)
    return {m[1]: (m[2], m[3]) for m in tlc.printed_tuples(res.out, 'GLOB')}


def run_jobs(chk, jobs, label):
    results = runlib.run_inproc_many(jobs, chunk=1)
    recs = [record(j, r) for j, r in zip(jobs, results)]
    verdicts = validate(chk, recs, label)
    drift = notbegun = 0
    raised = {}
    for j, r, rec in zip(jobs, results, recs):
        v = verdicts.get(j['id'])
        if v is None:
            chk.machinery('no GLOB line for %s' % j['id'])
            continue
        chk.traces += 1
        chk.nontrivial.add(json.dumps([rec['opts'], rec['pre'], rec['ending']]))
        raised.setdefault(rec['ending'], set()).add(rec['raised'])
        clause, arg = v
        if clause == 'DRIFT':
            drift += 1
            chk.notes.append('DRIFT %s: mid-run changed set %s for options %s' % (j['id'], arg, rec['opts']))
        elif clause == 'NOT-BEGUN':
            notbegun += 1
            chk.notes.append('run %s never reached the test phase: %s' % (j['id'], r.get('crash_tb', '')[-300:]))
        elif clause:
            sig = '%s|%s' % (clause, arg)
            if clause == 'C18:caller-hook-not-restored':
                sig += '|' + ('coverage' if 'coverage' in rec['opts'] and arg in ('sysTrace', 'thrTrace')
                              else 'post-mortem' if 'D' in rec['opts'] and arg == 'sysTrace'
                              else 'profile' if 'profile' in rec['opts'] else 'other')
            chk.violation(sig, '%s: %s differs after the run (options %s, ending %s, raised %r): %r -> %r'
                          % (clause, arg, rec['opts'], rec['ending'], rec['raised'],
                             rec['before'].get(arg), rec['after'].get(arg)),
                          {'job': j, 'record': rec, 'stdout_tail': r.get('stdout', '')[-1500:],
                           'crash_tb': r.get('crash_tb', '')})
    chk.extra['drift'] = chk.extra.get('drift', 0) + drift
    chk.extra['not_begun'] = chk.extra.get('not_begun', 0) + notbegun
    chk.extra['how_each_ending_left_run'] = {k: sorted(v) for k, v in raised.items()}
    if notbegun > len(jobs) // 10:
        chk.machinery('%d of %d runs never reached the test phase' % (notbegun, len(jobs)))


def run(chk, tier, seed, replay=None):
    chk.rule = ('(1) TLC: GlobalState.tla - Runner.run as a pipeline (catch_warnings, '
                'global_setup / late_setup of Coverage, Profiling, gc Threshold, gc Debug, '
                'Traceback; per-test startTest / body / stopTest; early_teardown / '
                'global_teardown in finally) for all 2^8 option subsets x 8 endings of the '
                'test phase x caller without own hooks / with sys and threading trace hooks (two functions) and a profile hook / with a sys trace hook only: Restored, HooksRestored, '
                'Terminates, mid-run state as predicted; ten deviation configs must each give a counterexample. (2) real '
                'runs in a fresh interpreter each, with a non-default caller state (gc threshold '
                '(701,11,9), an extra warnings filter, wrapped traceback functions, optionally own '
                'trace / profile hooks): option subsets (quick: pairwise + all singles, thorough: '
                'all 2^7) x 11 endings (normal, failing, exception from testSetUp / testTearDown, '
                'KeyboardInterrupt in a test / in a layer setUp, -x, -D post-mortem, skip or '
                'KeyboardInterrupt followed by a raising testTearDown, KeyboardInterrupt in a test that had replaced sys.stdout for itself); snapshots before / inside a '
                'test / after are compared by TLC; distinct = distinct (options, caller hooks, ending)')
    chk.assumptions += ['doctest report flags, pdb.set_trace and the root logging handler are named non-goals (DESIGN 5/C18)',
                        'exceptions raised before the test phase begins are outside the statement']
    if replay:
        with open(replay) as f:
            r = json.load(f)
        run_jobs(chk, [r['job']], 'replay')
        return
    rng = random.Random(seed * 7919 + 18)
    chk.add_tlc('GlobalState_design', tlc.run('GlobalState', 'GlobalState_design', timeout=900))
    for dev in ('CoverageResetsTrace', 'CoverageStopAllThreads', 'ProfileResetsHook', 'PostMortemResetsTrace', 'TeardownOutsideFinally', 'NoCatchWarnings', 'CatchWarningsOnlyIfSet',
                'HooksDownBeforeRestore', 'TracebackKeepsPrint', 'RestoreOnlyOwnBuffer'):
        res = tlc.run('GlobalState', 'GlobalState_dev_' + dev, timeout=600)
        chk.add_tlc('dev_' + dev, res, expect_ok=False)
        if not res.violation:
            chk.machinery('deviation config %s did not produce a counterexample' % dev)
    if tier == 'quick':
        subsets = [()] + [(o,) for o in OPTS] + list(itertools.combinations(OPTS, 2)) + [tuple(OPTS)]
        combos = []
        for k, s in enumerate(subsets):
            for e in (ENDINGS[k % len(ENDINGS)], ENDINGS[(k * 3 + 1) % len(ENDINGS)], rng.choice(ENDINGS)):
                combos.append((s, e))
        combos += [(('buffer',), e) for e in ENDINGS] + [(tuple(OPTS), e) for e in ENDINGS]
    else:
        subsets = [s for r in range(len(OPTS) + 1) for s in itertools.combinations(OPTS, r)]
        combos = [(s, e) for s in subsets for e in ENDINGS]
    jobs = []
    for k, (s, e) in enumerate(combos):
        jobs.append(make_job('g%d' % k, s, e, 'none', rng))
    # caller with its own trace / profile hooks (separate family: see known findings)
    for k, (s, e) in enumerate(combos[::7 if tier == 'quick' else 3]):
        jobs.append(make_job('h%d' % k, s, e, rng.choice(['both', 'sys']), rng))
    k = 0
    for s in (('coverage',), ('profile',), ('D',), ('coverage', 'profile', 'D'), tuple(OPTS)):
        for e in ('normal', 'failing', 'postmortem', 'kbint', 'hookDown', 'stop'):
            for pre in ('both', 'sys'):
                k += 1
                jobs.append(make_job('p%d' % k, s, e, pre, rng))
    chk.sample({'args': jobs[5]['args'], 'meta': jobs[5]['meta'], 'pre': jobs[5]['pre'],
                'world': jobs[5]['world']})
    run_jobs(chk, jobs, 'runs')
