"""C04: exceptions raised by tests and layers are contained, never abort the run."""
import random

import corecheck
import worlds

# 'the remaining layers are still torn down' is C01's end-of-process clause
FAM = {'C04', 'C01:left-set-up', 'C01:tearDown-count'}
EXCS = ['ValueError', 'KeyError', 'TypeError', 'RuntimeError', 'OSError',
        'ZeroDivisionError', 'WorldError', 'OddError', 'AttributeError',
        'StopIteration', 'Exception', 'AssertionError', 'UnicodeError',
        'NotImplementedError', 'SystemExit', 'UnhashableError', 'SyntaxError',
        'IndentationError', 'ImportError', 'RecursionError', 'BlockingIOError',
        'EOFError', 'LookupError', 'ArithmeticError', 'CompiledSyntaxError',
        'CompiledSyntaxError']
# messages a formatter might trip over: empty, format characters, a line that
# looks like a traceback location without its ', in name' part, escape sequences
MSGS = ['', '%s %d %(x)s', '  File "x.py", line 3', 'two\nlines', 'tab\there', '\x1b[31mred',
        'File "y.py", line 1, in f', '{0} {}', 'caf\u00e9 \u2603',
        'first line\n  File "z.py", line 7\n    indented', 'x\n  File']


CHAINS = ['cause', 'context', 'cause_group', 'cause_self', 'cause_cycle']


def vary_exceptions(rng, world):
    """replace the exception class of scripted errors by a random one"""
    def walk(actions):
        for a in actions:
            if isinstance(a, dict):
                if a.get('a') == 'error':
                    a['exc'] = rng.choice(EXCS)
                    if rng.random() < 0.25 and a['exc'] != 'OddError':
                        a['msg'] = rng.choice(MSGS)
                    if rng.random() < 0.3:
                        a['chain'] = rng.choice(CHAINS)
                if 'do' in a:
                    walk(a['do'])
    for t in world['tests'].values():
        for ph in ('setUp', 'body', 'tearDown'):
            walk(t.get(ph, ()))
        for cl in t.get('cleanups', ()):
            walk(cl)
    for l in world['layers'].values():
        for h in ('setUp', 'tearDown'):
            if l.get(h) == 'raise':
                exc = rng.choice([e for e in EXCS if e not in
                                  ('NotImplementedError', 'SystemExit')])
                if rng.random() < 0.5:
                    l[h] = {'exc': exc, 'chain': rng.choice(CHAINS)}
                else:
                    l[h] = exc


def run(chk, tier, seed, replay=None):
    chk.rule = ('worlds = TLC-exported layer DAGs x tests of every outcome kind '
                '(1..3 result events per test) x exception classes x layer '
                'setUp/tearDown faults x --buffer on/off x -v 0..3 x in-process / '
                'resumed children / -j; distinct = distinct (graph, outcome '
                'facts, options, trace length)')
    chk.assumptions += ['MemoryError / KeyboardInterrupt are outside the statement']
    if replay:
        corecheck.replay(chk, FAM, replay)
        return
    rng = random.Random(seed * 7919 + 4)
    graphs = [g for g in corecheck.export_graphs(chk, 4) if g['n'] >= 1]
    if tier == 'quick':
        corecheck.run_mc(chk, ['Runner_design', 'Runner_live_q'])
        n1, n2 = 170, 130
    else:
        corecheck.run_mc(chk, ['Runner_design', 'Runner_deep2', 'Runner_live'],
                         timeout=3000)
        n1, n2 = 2500, 1500

    def opts(r):
        o = {'verbose': r.choice([0, 1, 2, 3])}
        if r.random() < 0.5:
            o['buffer'] = True
        if r.random() < 0.2:
            o['repeat'] = 2
        if r.random() < 0.12:
            o['j'] = r.choice([2, 3])
        if r.random() < 0.3:
            o['color'] = True        # the colourising formatter has code paths of its own
        if r.random() < 0.15:
            o['progress'] = True
        if r.random() < 0.08:
            o['verbose'] = 4
        return o
    allk = list(worlds.OUTCOMES)
    prof_a = {'sweep': True, 'kinds': 'mixed', 'hooks': 'random',
              'outcomes': allk, 'tests_per_layer': (1, 3), 'unit_tests': (0, 2),
              'opts': opts, 'faults': (0.15, 0.15, 0.12)}
    prof_b = {'kinds': 'mixed', 'hooks': 'all',
              'outcomes': worlds.MULTI_EVENT + worlds.SINGLE_EVENT_BAD + ['pass'],
              'tests_per_layer': (2, 3), 'unit_tests': (1, 2), 'opts': opts,
              'faults': (0.2, 0.2, 0.1)}
    cases = corecheck.gen_cases(rng, graphs, n1, prof_a, 'a')
    cases += corecheck.gen_cases(rng, graphs, n2, prof_b, 'b')
    for c in cases:
        vary_exceptions(rng, c['world'])
        # tests that stand in for sys.stdout / patch the clock from setUp to their
        # cleanups and then fail: the failure is reported while the stand-in is in place
        # (a bare mock as the clock cannot be formatted as a duration at -vvv: not used there)
        for t in c['world']['tests'].values():
            if t.get('kind') in ('fail', 'error', 'subfail', 'two_events') and rng.random() < 0.12:
                if c['o'].get('buffer') or c['o'].get('verbose', 0) >= 3 or rng.random() < 0.5:
                    if not c['o'].get('buffer'):
                        t['setUp'] = [{'a': 'standin_stdout'}] + list(t.get('setUp', ()))
                else:
                    t['setUp'] = [{'a': 'mock_time'}] + list(t.get('setUp', ()))
    for c in cases[:3]:
        chk.sample({'world': c['world'], 'options': c['o'], 'mode': c['mode']})
    corecheck.run_cases(chk, FAM, cases)
