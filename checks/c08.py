"""C08: filter patterns select by any positive match and no negated match."""
import copy
import itertools
import json
import os
import random
import re
import shutil
import subprocess
import tempfile
import time

import abstract
import core
import corecheck
import optionscheck
import runlib
import tlc
import worlds

# real regexes: search != match, anchors, alternation, empty, '.', '!' alone,
# a pattern whose text after the '!' starts with '!'
POOL = ['alpha', '^alpha', 'a$', 'pha|eta', '', '.', 'lph', r'\.', 'zzz',
        '!alpha', '!^b', '!eta$', '!', '!!x', '!.', '!zzz', '!a|b',
        # capturing groups, a backreference, an inline flag, a named group: a
        # pattern must keep its meaning whatever other patterns are in the list
        r'(a|b)l', r'(.)\1', '(?i)ALPHA', r'(?P<n>p)h', r'!(e)t\1?a']
# (the empty string is not a candidate: no test id, module or layer name is
# empty; with only '!'-patterns the code selects "everything that matches '.'")
NAMES = ['alpha', 'beta', 'xalphax', 'a.b', 'b', 'alpha beta', '!x', 'ALPHA',
         'test_alpha (tests.TL1.test_alpha)', 'tests.L1', 'x!xeta', 'aab', 'test_zz']
VERIF = os.path.dirname(os.path.dirname(os.path.abspath(__file__)))


def facts(patterns, name):
    ps = [{'neg': p.startswith('!')} for p in patterns]
    mv = [bool(re.search(abstract.strip_neg(p), name)) for p in patterns]
    return ps, mv


def run_tlaps(chk):
    """re-prove the unbounded lemmas (fresh directory => no cached results)"""
    d = tempfile.mkdtemp(prefix='verif-tlaps-')
    try:
        shutil.copy(os.path.join(VERIF, 'spec', 'proofs', 'FilterLemmas.tla'), d)
        t0 = time.monotonic()
        p = subprocess.run(['tlapm', 'FilterLemmas.tla'], cwd=d, stdout=subprocess.PIPE,
                           stderr=subprocess.STDOUT, timeout=600)
        out = p.stdout.decode('utf-8', 'replace')
        m = re.search(r'All (\d+) obligations? proved', out)
        chk.extra['tlaps'] = {'cmd': 'tlapm FilterLemmas.tla', 'wall_s': round(time.monotonic() - t0, 1),
                              'obligations_proved': int(m.group(1)) if m else 0,
                              'ok': bool(m) and p.returncode == 0}
        if not m or p.returncode != 0:
            chk.machinery('tlapm did not prove FilterLemmas.tla:\n' + out[-1500:])
    finally:
        shutil.rmtree(d, ignore_errors=True)


def validate_records(chk, recs, label):
    fd, path = tempfile.mkstemp(prefix='verif-filter-', suffix='.json')
    with os.fdopen(fd, 'w') as f:
        json.dump(recs, f)
    try:
        res = tlc.run('Trace_Filter', 'Trace_Filter', env={'TRACE_FILE': path}, timeout=900)
    finally:
        os.unlink(path)
    chk.add_tlc('Trace_Filter ' + label, res)
    return {m[1]: m[2] for m in tlc.printed_tuples(res.out, 'MISMATCH')}


def e2e_world():
    g = {'n': 2, 'bases': [[], []]}
    rng = random.Random(1)
    w = worlds.make_world('e2e', g, rng, kinds='class', hooks='all',
                          tests_per_layer=(2, 2), unit_tests=(2, 2),
                          owners=['L1', 'L2'])
    names = ['alpha', 'beta', 'alpha_beta', 'eta', 'x', 'b']
    for (tid, t), n in zip(w['tests'].items(), names):
        t['name'] = 'test_' + n
    return w


def run(chk, tier, seed, replay=None):
    chk.rule = ('(1) TLC: all pattern lists <= 3 over 3 abstract patterns x all match '
                'relations (FilterMC.tla); TLAPS: the corollaries for lists of any '
                'length. (2) real build_filtering_func on every list <= 2 (thorough: '
                '<= 3) from a pool of %d signed regexes x %d names + random longer '
                'lists with duplicates; (3) the same through get_options for -t / -m / '
                '--layer; (4) end to end: --list-tests of a fixed world for every list '
                '<= 2 of -t and --layer patterns; TLC evaluates Accept / Selected for '
                'every record; distinct = distinct (signs, match bits)' % (len(POOL), len(NAMES)))
    chk.assumptions += ['re.search is the environment relation "pattern matches name"',
                        'TLAPS (tlapm 1.6) for the unbounded lemmas']
    rng = random.Random(seed * 7919 + 8)
    if replay and optionscheck.is_replay(replay):
        optionscheck.replay(chk, replay, ['C08:'])
        return
    if replay:
        with open(replay) as f:
            r = json.load(f)
        if 'case' in r:
            corecheck.replay(chk, {'C03'}, replay)
            return
        jobs = [dict(r['job'], id='replay')]
        out = runlib.run_worker('funcs_worker.py', jobs)
        check_func_results(chk, jobs, out, 'replay')
        return
    res = tlc.run('FilterMC', 'FilterMC', timeout=900)
    chk.add_tlc('FilterMC', res)
    res = tlc.run('FilterMC', 'FilterMC_probe', timeout=300)
    chk.add_tlc('FilterMC_probe', res, expect_ok=False)
    if not res.violation:
        chk.machinery('FilterMC_probe: the only-negatives corner was not reached')
    run_tlaps(chk)
    # what reaches build_filtering_func: pattern lists from defaults + command line + the
    # legacy positional filters (Options.tla, Trace_Options)
    optionscheck.run(chk, tier, seed, ['C08:'], mc=False)
    maxlen = 2 if tier == 'quick' else 3
    lists = [list(c) for k in range(1, maxlen + 1)
             for c in itertools.product(POOL, repeat=k)]
    for _ in range(200 if tier == 'quick' else 3000):
        lists.append([rng.choice(POOL) for _ in range(rng.randint(3, 6))])
    jobs = [{'op': 'filter', 'id': 'f%d' % i, 'patterns': ps, 'names': NAMES}
            for i, ps in enumerate(lists)]
    ojobs = []
    small = [list(c) for k in range(1, 3) for c in itertools.product(POOL, repeat=k)]
    for flag in ('-t', '-m', '--layer'):
        for i, ps in enumerate(small):
            ojobs.append({'op': 'options_filter', 'id': 'o%s%d' % (flag, i), 'flag': flag,
                          'patterns': ps, 'names': NAMES})
    out = runlib.run_worker('funcs_worker.py', jobs + ojobs)
    check_func_results(chk, jobs + ojobs, out, 'function+options')
    chk.sample({'patterns': lists[40], 'names': NAMES[:4], 'observed': out[40].get('obs', [])[:4]})
    # end to end
    w = e2e_world()
    # (the last two match the module's dotted name but no test id: a negated
    # --test pattern must not decide which modules are looked at)
    tpool = ['alpha', '^test_a', 'eta', '', '.', '!beta', '!alpha', '!', 'TL1', '!TL2', 'zzz',
             '!^tests', '!tests$',
             # the spelling of a test id: "method (module.Class.method)"
             r'!_alpha\)$', r'TL1\)$', r'!TL1\.test_alpha', r'TU\.test_\w+\)$']
    lpool = ['L1', 'L', 'Unit', '!L1', '!Unit', '', '.', 'zzz',
             # a pattern that is a layer's full dotted name (still a pattern like any other)
             'tests.L1', 'tests.L2', '!tests.L2']
    cases = []
    k = 0
    for key, pool in (('t', tpool), ('layer', lpool)):
        for n in (1, 2):
            for c in itertools.product(pool, repeat=n):
                k += 1
                cases.append({'id': 'e%d' % k, 'world': dict(w, id='e%d' % k),
                              'o': {key: list(c), 'list': True}, 'mode': 'inproc'})
    # --layer over nested declarations: a suite that declares layer L1 holds classes that
    # declare L2 / nothing (a pattern that rejects the outer declaration says nothing about the inner ones)
    w2 = e2e_world()
    inner = [c for c in w2['classes'] if c != 'TL1']
    w2['suite'] = {'children': [{'layer': 'L1', 'children': [{'cls': c} for c in inner]}, {'cls': 'TL1'}]}
    for n in (1, 2):
        for c in itertools.product(lpool, repeat=n):
            k += 1
            cases.append({'id': 'e%d' % k, 'world': dict(copy.deepcopy(w2), id='e%d' % k),
                          'o': {'layer': list(c), 'list': True}, 'mode': 'inproc'})
    if tier != 'quick':
        for c in itertools.product(tpool, repeat=3):
            k += 1
            cases.append({'id': 'e%d' % k, 'world': dict(w, id='e%d' % k),
                          'o': {'t': list(c), 'list': True}, 'mode': 'inproc'})
    # in-process runs are handed the suite; real discovery (where the module
    # predicate is applied) needs the command line
    for i, c in enumerate(cases):
        if i % 9 == 0 or any(p in ('!^tests', '!tests$') for p in c['o'].get('t', ())):
            c['mode'] = 'cli'
    chk.sample({'end_to_end': cases[30]['o']})
    corecheck.run_cases(chk, {'C03'}, cases, label='end-to-end')


def check_func_results(chk, jobs, out, label):
    recs = []
    meta = {}
    for job, r in zip(jobs, out):
        if 'raised' in r or r.get('none'):
            chk.violation('C08:raised|%s' % job['op'],
                          'filter construction raised for %r: %s' % (job['patterns'], r.get('raised')),
                          {'job': job, 'result': r})
            continue
        for j, n in enumerate(job['names']):
            ps, mv = facts(job['patterns'], n)
            rid = '%s/%d' % (job['id'], j)
            recs.append({'id': rid, 'ps': ps, 'mv': mv, 'obs': r['obs'][j]})
            meta[rid] = (job, n, r['obs'][j])
            chk.nontrivial.add(json.dumps([ps, mv]))
    chk.evaluations += len(recs)
    chk.traces += len(recs)
    mism = validate_records(chk, recs, label)
    for rid, exp in mism.items():
        job, n, obs = meta[rid]
        kind = 'accepts-but-spec-rejects' if obs else 'rejects-but-spec-accepts'
        chk.violation('C08:accept|%s|%s' % (job['op'], kind),
                      'patterns %r name %r: code says %s, Filter!Accept says %s'
                      % (job['patterns'], n, obs, exp),
                      {'job': {k: job[k] for k in job if k != 'id'}, 'name': n,
                       'observed': obs, 'expected': exp})
