"""Shared driver of the core-run-machine checks (C01 C02 C03 C04 C05 C12 C16):
TLC model-checks spec/Runner.tla (I-spec, refinement to the P-spec guards),
the real runner is driven over TLC-exported world families, and TLC validates
every recorded trace against the P-spec (spec/Trace_Run.tla)."""
import json
import os
import random
import re
import tempfile

import abstract
import core
import runlib
import tlc
import worlds

VERIF = os.path.dirname(os.path.dirname(os.path.abspath(__file__)))


def export_graphs(chk, max_n=4):
    """TLC itself exports the layer-graph family it model-checks over."""
    fd, path = tempfile.mkstemp(prefix='verif-fam-', suffix='.json')
    os.close(fd)
    cfgdir = tempfile.mkdtemp(prefix='verif-famcfg-')
    try:
        cfg = os.path.join(cfgdir, 'Families_n.cfg')
        with open(cfg, 'w') as f:
            f.write('CONSTANT MaxN = %d\n' % max_n)
        res = tlc.run('Families', cfg, env={'OUT': path}, workers=1,
                      timeout=300)
        chk.add_tlc('Families(MaxN=%d) export' % max_n, res)
        with open(path) as f:
            graphs = json.load(f)
    finally:
        os.unlink(path)
        os.unlink(cfg)
        os.rmdir(cfgdir)
    graphs.sort(key=lambda g: (g['n'], json.dumps(g['bases'])))
    return graphs


def run_mc(chk, configs, expect_violation=(), timeout=1500, module='Runner'):
    for cfg in configs:
        res = tlc.run(module, cfg, coverage=False, timeout=timeout)
        if cfg in expect_violation:
            chk.add_tlc(cfg, res, expect_ok=False)
            if not res.violation:
                chk.machinery('config %s was expected to reproduce a known '
                              'deviation as a counterexample but did not' % cfg)
            else:
                chk.notes.append('%s: deviation counterexample reproduced by TLC'
                                 % cfg)
        else:
            chk.add_tlc(cfg, res)


def crash_site(res, cli):
    """exception type and innermost zope.testrunner frame of an aborted run"""
    tb = res.get('stderr', '') if cli else res.get('crash_tb', '')
    if not tb:
        return res.get('crashed', '') or ''
    frames = re.findall(r'File ".*?/zope/testrunner/(\w+)\.py", line \d+, in (\w+)', tb)
    exc = ''
    for line in reversed(tb.strip().splitlines()):
        m = re.match(r'^([A-Za-z_][\w.]*)(:|$)', line)
        if m:
            exc = m.group(1)
            break
    site = '%s.%s' % frames[-1] if frames else '?'
    return '%s@%s' % (exc, site)


def signature(case, res, rec, fam, clause, at):
    cli = case['mode'] == 'cli'
    crashed = rec['rep']['crashed']
    ev = rec['ev']
    # clauses evaluated at process exit / end of trace are consequences of an
    # aborted run when there was one: name the abort site
    if crashed and (at > len(ev) or (1 <= at <= len(ev) and ev[at - 1]['e'] == 'PX')):
        return '%s|run-aborted:%s' % (clause, crash_site(res, cli))
    if clause == 'C02:verdict' and case['o'].get('pm') and not crashed:
        return 'C02:verdict|post-mortem-run'
    if 1 <= at <= len(ev):
        e = ev[at - 1]
        ctx = e['e']
        if clause == 'C05:unbalanced' and e['e'] == 'TTD':
            ctx = 'TTD-without-TSU' + decoskip_context(case, rec, at)
        return '%s|at:%s' % (clause, ctx)
    return '%s|at:end' % clause


def decoskip_context(case, rec, at):
    """Is the unbalanced testTearDown the stopTest of a decorator-skipped test
    for which this interpreter's unittest never called startTest?"""
    w = rec['w']
    skips = [t for t in w['tests'] if w['decoSkip'].get(t)
             and not w['startCalled'].get(t)]
    return ':decorator-skipped-test-never-started' if skips else ''


def run_cases(chk, fam, cases, label='', peers=None, python=None):
    """execute + validate; every clause of family `fam` that TLC reports
    becomes a violation (or a known finding).  peers: {case id: [ids of the
    runs of the same world in other execution modes]} -- their reports are
    attached so that TLC compares the modes."""
    res = core.execute(cases, python=python)
    recs = [core.trace_record(c, res[c['id']]) for c in cases]
    if peers:
        by_id = {r['id']: r for r in recs}
        for r in recs:
            r['rep']['peers'] = [
                {k: by_id[p]['rep'][k] for k in
                 ('hasTotal', 'total', 'failed', 'crashed')}
                | {'failBag': sorted(by_id[p]['rep']['failIds']),
                   'errBag': sorted(by_id[p]['rep']['errIds']),
                   'hasLists': by_id[p]['o']['verbose'] > 0,
                   'isList': by_id[p]['o']['list'],
                   'listing': by_id[p]['rep']['listing'],
                   'execPairs': exec_pairs(by_id[p]['ev']),
                   'lookalikes': len([e for e in by_id[p]['ev'] if e['e'] == 'LOOK']),
                   'layerFaults': len([e for e in by_id[p]['ev']
                                       if (e['e'] == 'SUE' and e['s'] != 'ok')
                                       or (e['e'] == 'TDE' and e['s'] == 'raise')]),
                   'id': p}
                for p in peers.get(r['id'], ()) if p != r['id'] and p in by_id]
    verdicts, tres = core.validate(recs)
    if tres is None:
        return res, recs, verdicts
    chk.add_tlc('Trace_Run' + (' ' + label if label else ''), tres)
    if python is None:
        validate_ispec(chk, cases, recs, label)
    for c, rec in zip(cases, recs):
        v = verdicts.get(c['id'])
        if v is None:
            chk.machinery('no VERDICT line for trace %s' % c['id'])
            continue
        chk.traces += 1
        chk.nontrivial.add(json.dumps([rec['w']['bases'], rec['w']['ref'],
                                       rec['o'], len(rec['ev'])], sort_keys=True))
        for ent in v:
            f, clause, at = ent[0], ent[1], ent[2]
            if f not in fam and clause not in fam:
                continue
            sig = signature(c, res[c['id']], rec, f, clause, at)
            chk.violation(sig, '%s in world %s (%s)' % (clause, c['id'], c['mode']),
                          {'case': {k: c[k] for k in ('id', 'world', 'o', 'mode')},
                           'clause': clause, 'event_index': at,
                           'events': rec['ev'], 'report': rec['rep'],
                           'stdout_tail': res[c['id']].get('stdout', '')[-2000:],
                           'stderr_tail': res[c['id']].get('stderr', '')[-2000:]})
    return res, recs, verdicts


BADK = {'F', 'E', 'U', 'SF', 'SE'}


def ispec_record(case, rec):
    """the world / options / per-process event logs in the vocabulary of
    Runner.tla, or None when the case uses something Runner.tla does not model
    (filters, levels, nested suites, scripted crashes, import trouble)"""
    world, o = case['world'], case['o']
    if world.get('suite') or world.get('import', 'ok') != 'ok' or world.get('env') or o.get('pm'):
        return None
    if any(k in o for k in ('t', 'm', 'layer', 'unit', 'non_unit', 'only_level', 'all', 'at_level',
                            'shuffle', 'list', 'extra')):
        return None
    for cs in world['classes'].values():
        if 'level' in cs or cs.get('cls_skip'):
            return None
    for t in world['tests'].values():
        if 'layer' in t or 'level' in t:
            return None

    def simple(b):
        return isinstance(b, str) or (isinstance(b, dict) and set(b) <= {'exc', 'chain'})
    for l in world['layers'].values():
        if not simple(l.get('setUp', 'ok')) or not simple(l.get('tearDown', 'ok')):
            return None
        if l.get('testSetUp', 'ok') != 'ok' or l.get('testTearDown', 'ok') != 'ok':
            return None
    w = rec['w']
    names = list(world['layers'])
    tests = {l: [] for l in names}
    unit = ''
    for cs in world['classes'].values():
        l = cs.get('layer') or 'U'
        if l == 'U':
            unit = 'U'
            tests.setdefault('U', [])
        for t in cs['tests']:
            kinds = w['ref'].get(t, [])
            kind = 'skipdeco' if w['decoSkip'].get(t) else ('bad' if BADK & set(kinds) else 'good')
            tests[l].append(kind)
    layers = sorted(tests, key=lambda l: abstract.layer_real_name('' if l == 'U' else l))

    def beh(b):
        if b == 'ok':
            return 'ok'
        if b == 'notimpl' or b == 'NotImplementedError' or (isinstance(b, dict) and b.get('exc') == 'NotImplementedError'):
            return 'notimpl'
        return 'raise'
    # which scripted behaviour a layer's setUp / tearDown really has: a class
    # layer without its own hook inherits the hook (and its behaviour) of the
    # first class in its MRO that defines it; instance layers inherit nothing
    order = world.get('layer_order') or list(world['layers'])
    dummies = {}
    for l in order:
        ls = world['layers'][l]
        if ls.get('kind', 'class') == 'class':
            dummies[l] = type(l, tuple(dummies[b] for b in ls.get('bases', ()) if b in dummies) or (object,), {})

    def eff_beh(l, hook):
        if l == 'U':
            return 'ok'
        ls = world['layers'][l]
        allh = ['setUp', 'tearDown', 'testSetUp', 'testTearDown']
        if hook in ls.get('hooks', allh):
            return beh(ls.get(hook, 'ok'))
        if ls.get('kind', 'class') != 'class':
            return 'ok'
        for c in dummies[l].__mro__[1:]:
            cs = world['layers'].get(c.__name__)
            if cs is not None and cs.get('kind', 'class') == 'class' and hook in cs.get('hooks', allh):
                return beh(cs.get(hook, 'ok'))
        return 'ok'
    flag = lambda d, l: bool(d.get(l, False)) if l != 'U' else False        # noqa: E731
    rw = {'layers': layers, 'unit': unit,
          'bases': {l: (w['bases'].get(l, []) if l != 'U' else []) for l in layers},
          'life': {l: flag(w['life'], l) for l in layers},
          'perUp': {l: flag(w['perUp'], l) for l in layers},
          'perDown': {l: flag(w['perDown'], l) for l in layers},
          'tests': tests,
          'suF': [l for l in names if eff_beh(l, 'setUp') != 'ok'],
          'td': {l: eff_beh(l, 'tearDown') for l in layers}}
    # a setUp that raises NotImplementedError is an ordinary failure of that hook
    layer_of = {t: (cs.get('layer') or 'U') for cs in world['classes'].values() for t in cs['tests']}
    procs, cur, seen = [], None, set()
    for e in rec['ev']:
        k = e['e']
        if k == 'PS':
            cur = ['parent' if e['s'] == 'parent' else (e['l'] or 'U'), []]
            procs.append(cur)
            seen = set()
        elif cur is None:
            continue
        elif k in ('SUB', 'TDB') and not e['x']:
            cur[1].append([k, e['l'], ''])
        elif k in ('SUE', 'TDE') and not e['x']:
            cur[1].append([k, e['l'], e['s']])
        elif k in ('TSU', 'TTD'):
            cur[1].append([k, e['l'], ''])
        elif k == 'T' and (e['t'], e['it']) not in seen:
            seen.add((e['t'], e['it']))
            cur[1].append(['T', layer_of.get(e['t'], '?'), ''])
        elif k in ('CRASH', 'CUT'):
            return None
    return {'id': case['id'], 'w': rw,
            'opt': {'repeat': o.get('repeat', 1), 'stop': bool(o.get('stop')), 'par': o.get('j', 1) > 1},
            'procs': procs,
            # statistics output: number of "Ran ..." lines, presence of the "Total:" line
            # (output written without a line end glues itself to the next line:
            # then the parsed line counts say nothing)
            'stat': {'known': rec['rep']['crashed'] == '' and '"nl": false' not in json.dumps(world),
                     'sums': len(rec['rep']['summaries']),
                     'hasTotal': bool(rec['rep']['hasTotal'])}}


def validate_ispec(chk, cases, recs, label=''):
    """trace validation against Runner.tla itself (DRIFT only, never an alarm)"""
    irecs = [r for r in (ispec_record(c, rec) for c, rec in zip(cases, recs)) if r is not None]
    if not irecs:
        return
    # binding self-test: one trace with two events swapped and one with an
    # event dropped must NOT be explained by the spec
    import copy as _copy
    muts = []
    for r in irecs:
        logs = [p for p in r['procs'] if len(p[1]) >= 4]
        if logs and len(muts) < 2:
            m = _copy.deepcopy(r)
            lg = [p for p in m['procs'] if len(p[1]) >= 4][0][1]
            if not muts:
                k = next((i for i in range(len(lg) - 1) if lg[i] != lg[i + 1]), 0)
                lg[k], lg[k + 1] = lg[k + 1], lg[k]
                m['id'] = 'MUT-swap-' + r['id']
            else:
                del lg[len(lg) // 2]
                m['id'] = 'MUT-drop-' + r['id']
            muts.append(m)
    fd, path = tempfile.mkstemp(prefix='verif-runI-', suffix='.json')
    with os.fdopen(fd, 'w') as f:
        json.dump(irecs + muts, f)
    try:
        res = tlc.run('Trace_RunnerI', 'Trace_RunnerI', env={'TRACE_FILE': path}, timeout=1800)
    finally:
        os.unlink(path)
    chk.add_tlc('Trace_RunnerI' + (' ' + label if label else ''), res)
    out = {v[1]: (v[2], v[3]) for v in tlc.printed_tuples(res.out, 'RUNI')}
    for m in muts:
        if out.get(m['id'], ('', ''))[0] != 'DRIFT':
            chk.machinery('binding self-test: the corrupted trace %s was explained by Runner.tla' % m['id'])
        out.pop(m['id'], None)
    chk.extra['ispec_corrupted_traces_rejected'] = chk.extra.get('ispec_corrupted_traces_rejected', 0) + len(muts)
    ok = len([1 for v in out.values() if v[0] == 'OK'])
    drift = [(i, v[1]) for i, v in out.items() if v[0] != 'OK']
    missing = [r['id'] for r in irecs if r['id'] not in out]
    chk.extra['ispec_traces'] = chk.extra.get('ispec_traces', 0) + len(irecs)
    chk.extra['ispec_traces_explained'] = chk.extra.get('ispec_traces_explained', 0) + ok
    chk.extra['ispec_drift'] = chk.extra.get('ispec_drift', 0) + len(drift) + len(missing)
    if drift or missing:
        chk.notes.append('DRIFT: Runner.tla predicts other events than recorded for %s (no verdict: %s)'
                         % (drift[:6], missing[:4]))


def exec_pairs(ev):
    """projection of a trace: the (test, iteration) pairs in start order"""
    seen = []
    for e in ev:
        if e['e'] == 'T' and [e['t'], e['it']] not in seen:
            seen.append([e['t'], e['it']])
    return seen


def needs_cli(world, o):
    if o.get('j', 1) > 1:
        return True
    def special(b):
        return isinstance(b, dict) and 'exc' not in b
    return any(l.get('tearDown') == 'notimpl' or special(l.get('setUp'))
               or special(l.get('tearDown'))
               for l in world['layers'].values())


def gen_cases(rng, graphs, n, profile, prefix='w'):
    """profile keys: outcomes, hooks, kinds, faults(p_su,p_td,p_ni), opts()"""
    cases = []
    for k in range(n):
        g = graphs[k % len(graphs)] if profile.get('sweep') else rng.choice(graphs)
        if rng.random() < profile.get('big', 0.12):
            # beyond the TLC-exported family (<= 4 layers): a random DAG with
            # ordered bases on 5 or 6 layers (diamonds with extra bases)
            nn = rng.choice([5, 5, 6])
            bases = []
            for i in range(nn):
                cand = list(range(1, i + 1))
                rng.shuffle(cand)
                bases.append(cand[:rng.choice([0, 1, 1, 2, 2, 3])])
            g = {'n': nn, 'bases': bases}
        f = profile.get('faults')
        w = worlds.make_world(
            '%s%d' % (prefix, k), g, rng,
            kinds=profile.get('kinds', 'mixed'),
            hooks=profile.get('hooks', 'random'),
            faults=worlds.fault_vector(rng, *f) if f else None,
            outcomes=profile.get('outcomes', ('pass',)),
            tests_per_layer=profile.get('tests_per_layer', (1, 2)),
            unit_tests=profile.get('unit_tests', (0, 1)),
            names=(worlds.dotted_names(rng, g['n']) if rng.random() < profile.get('dotted', 0.0)
                   else worlds.permuted_names(rng, g['n']) if profile.get('permute_names') else None))
        o = profile['opts'](rng) if 'opts' in profile else {}
        mode = 'cli' if needs_cli(w, o) else profile.get('mode', 'inproc')
        cases.append({'id': w['id'], 'world': w, 'o': o, 'mode': mode})
    return cases


def replay(chk, fam, path):
    with open(path) as f:
        r = json.load(f)
    case = r['case']
    run_cases(chk, fam, [case], label='replay')
