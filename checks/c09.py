"""C09: nearest layer/level declaration wins; level and unit switches."""
import copy
import itertools
import random

import corecheck
import optionscheck
import tlc

LEVELS = [-1, 0, 1, 2, 3]
HOOKS = []          # the layers need no hooks: only grouping and selection are observed


def chain_world(wid, rng, pattern):
    """pattern: 10 booleans = (layer?, level?) at outer suite, middle suite,
    inner suite, TestCase class, test instance of the focal test t1."""
    # (UnitTestsX: a layer whose dotted name the unit layer's name, read as a
    # regular expression, matches)
    pool = ['L1', 'L2', 'L3'] + (['UnitTestsX'] if rng.random() < 0.25 else [])
    layers = {l: {'kind': rng.choice(['class', 'instance']), 'bases': [], 'hooks': HOOKS}
              for l in pool}
    lay = lambda: rng.choice(pool)      # noqa: E731
    lev = lambda: rng.choice(LEVELS)                    # noqa: E731

    def decl(node, i):
        if pattern[2 * i]:
            node['layer'] = lay()
        if pattern[2 * i + 1]:
            node['level'] = lev()
        return node
    classes = {'TC': decl({'tests': ['t1', 't2']}, 3),
               'TS': {'tests': ['t3']}, 'TO': {'tests': ['t4', 't5']}}
    tests = {t: {} for t in ('t1', 't2', 't3', 't4', 't5')}
    decl(tests['t1'], 4)
    # siblings get random declarations of their own
    for c in ('TS', 'TO'):
        if rng.random() < 0.4:
            classes[c]['layer'] = lay()
        if rng.random() < 0.4:
            classes[c]['level'] = lev()
    for t in ('t2', 't3', 't4', 't5'):
        if rng.random() < 0.2:
            tests[t]['layer'] = lay()
        if rng.random() < 0.3:
            tests[t]['level'] = lev()
    inner = decl({'children': [{'test': 't1'}, {'test': 't2'}]}, 2)
    mid = decl({'children': [inner, {'cls': 'TS'}]}, 1)
    outer = decl({'children': [mid, {'cls': 'TO'}]}, 0)
    return {'id': wid, 'layers': layers, 'layer_order': pool,
            'classes': classes, 'tests': tests, 'suite': outer}


def level_opts(rng):
    o = {'list': True}
    r = rng.random()
    if r < 0.3:
        o['at_level'] = rng.choice([-1, 0, 1, 2, 3, 4])
    elif r < 0.45:
        o['all'] = True
    elif r < 0.7:
        o['only_level'] = rng.choice([0, 1, 2, 3])
    elif r < 0.8:
        o['all'] = True
        o['only_level'] = rng.choice([1, 2])
    elif r < 0.92:
        # --only-level wins over whatever --at-level says (0 and negative
        # values of --at-level mean "all levels")
        o['at_level'] = rng.choice([-1, 0, 0, 1, 3])
        o['only_level'] = rng.choice([0, 1, 2, 3])
    r = rng.random()
    if r < 0.15:
        o['unit'] = True
    elif r < 0.3:
        o['non_unit'] = True
    elif r < 0.4:
        o['unit'] = o['non_unit'] = True
    if rng.random() < 0.2:
        o['layer'] = [rng.choice(['L1', 'L[12]', 'Unit', '!L1', '!Unit', 'L3'])]
    return o


def run(chk, tier, seed, replay=None):
    chk.rule = ('(1) TLC: SelectionMC.tla - every declaration path of depth <= 3 '
                '(thorough 4) x levels x --at-level / --all / --only-level x -u / -f: '
                'the hand-down recursion of find.tests_from_suite equals the nearest '
                'declaration, boundary rules of the level and unit switches; (2) real '
                'runner: all 2^10 presence patterns of layer / level on (outer suite, '
                'middle suite, inner suite, TestCase class, test instance) with random '
                'values and random sibling declarations x option vectors, observed '
                'through --list-tests (grouping by layer and selection) and real runs; '
                'TLC computes EffLayer / EffLevel / Eligible / KeepLayer; (3) Options.tla: the '
                'normalisation pipeline of get_options model-checked (documented meaning of the raw '
                '-u / -f / --layer / --all / --at-level / --only-level switches = the code\'s reading of '
                'the normalised options, every layer kind, match relation and level) and ~900 real '
                'get_options(argv, defaults) calls judged by Trace_Options; distinct = '
                'distinct (declarations, options)')
    chk.assumptions += ['--all combined with --only-level: --only-level wins (as the code and the statement\'s "or equals --only-level when that is given" say)']
    if replay:
        if optionscheck.is_replay(replay):
            optionscheck.replay(chk, replay, ['C09:'])
            return
        corecheck.replay(chk, {'C03', 'C01'}, replay)
        return
    rng = random.Random(seed * 7919 + 9)
    # the switches on their way through get_options (Options.tla): model checking of the
    # normalisation pipeline and one record per real get_options call
    optionscheck.run(chk, tier, seed, ['C09:'])
    res = tlc.run('SelectionMC', 'SelectionMC_q' if tier == 'quick' else 'SelectionMC',
                  timeout=1800)
    chk.add_tlc('SelectionMC', res)
    patterns = list(itertools.product([False, True], repeat=10))
    nopt = 1 if tier == 'quick' else 6
    cases = []
    k = 0
    for pat in patterns:
        for _ in range(nopt):
            k += 1
            w = chain_world('c%d' % k, rng, pat)
            o = level_opts(rng)
            if 'UnitTestsX' in w['layers'] and o.get('unit') and not o.get('non_unit'):
                # --unit is implemented as a --layer pattern (the unit layer's name as an
                # unanchored regex): with a look-alike layer name that is a don't-care zone
                del o['unit']
            cases.append({'id': w['id'], 'world': w, 'o': o, 'mode': 'inproc'})
    # the same selection observed by really running (grouping under the right layer)
    for c in rng.sample(cases, 150 if tier == 'quick' else 1500):
        o = dict(c['o'])
        o.pop('list')
        cid = c['id'] + 'run'
        w = copy.deepcopy(c['world'])
        w['id'] = cid
        for l in w['layers'].values():     # observable layers: the stack is checked too
            l['hooks'] = ['setUp', 'tearDown', 'testSetUp', 'testTearDown']
        cases.append({'id': cid, 'world': w, 'o': o, 'mode': 'inproc'})
    for c in cases[700:702]:
        chk.sample({'suite': c['world']['suite'], 'classes': c['world']['classes'],
                    'tests': c['world']['tests'], 'options': c['o']})
    corecheck.run_cases(chk, {'C03', 'C01'}, cases)
