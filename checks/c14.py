"""C14: discovery loads exactly the matching test modules, once, in sorted order."""
import json
import os
import random
import tempfile

import fstree
import tlc

# candidate entries; groups of mutually exclusive alternatives avoid module-name
# collisions (tests.py vs tests/ in one directory would both be module "tests")
TOP_ALT = [[], ['tests.py'], ['tests/__init__.py', 'tests/test_a.py', 'tests/helper.py',
                             'tests/notes.txt', 'tests/tests.py', 'tests/ftests.py', 'tests/test_z.py',
                             'tests/test-api.py']]
# the same with compiled files (legacy layout: x.pyc beside / instead of x.py,
# what `compileall -b` leaves behind); tests.py + tests.pyc is ONE module
TOP_ALT_C = [['tests.pyc'], ['tests.py', 'tests.pyc'], ['tests.py', 'tests.pyc', 'tests.pyo'],
             ['tests/__init__.pyc', 'tests/test_a.py', 'tests/test_a.pyc', 'tests/test_z.pyc',
              'tests/helper.pyc', 'tests/tests.pyc', 'tests/notes.txt'],
             ['tests/__init__.py', 'tests/__init__.pyc', 'tests/test_a.pyc', 'tests/tests.py',
              'tests/tests.pyc', 'tests/ftests.pyc']]
OPTIONAL = [
    'test_x.py', 'other.py', 'ftests.py',
    'sub/tests.py', 'sub/inner/tests.py', 'sub/inner/__init__.py', 'sub/ftests.py',
    'pkg/__init__.py', 'pkg/tests/__init__.py', 'pkg/tests/test_b.py', 'pkg/tests/atest.py',
    'pkg/ftests.py',
    '1bad/tests.py', 'my-dir/tests.py', '.git/tests.py', 'node_modules/tests.py',
    '__pycache__/tests.py', 'CVS/tests.py', 'skipme/tests.py',
    'tests2/test_c.py', 'tests2/__init__.py', 'deep/tests/test_d.py', 'deep/tests/tests.py',
    'Zed/tests.py', '_under/tests.py', 'a1/tests.py', 'fix[v1]/tests.py',
    # file names that are no identifiers: inside a tests package (with / without
    # __init__.py) and as plain files the tests pattern may match
    'pkg/tests/test-b2.py', 'pkg/tests/test b.py', 'pkg/tests/atest-x.py', 'tests2/test-c.py',
    'deep/tests/test-d.py', 'sub/my-tests.py',
]
# symlinked directories (the target lives outside the tree): link path -> what
# the target holds; names that are identifiers, that are not, names of
# IGNORE_FOLDERS and names given (in some runs) to --ignore_dir
LINKS = {
    'linked': ['tests.py', 'lib/tests.py', 'my-dir/tests.py'],
    'sub/lnk': ['tests/__init__.py', 'tests/test_l.py', 'tests/test-l2.py', 'tests/helper.py'],
    'pkg/vend': ['tests.py', 'ftests.py'],
    'aaa_first': ['tests.py'],
    'vendor-libs': ['tests.py', 'lib/tests.py'],
    'sub/my.link': ['tests.py', 'pk/tests/__init__.py', 'pk/tests/test_m.py'],
    'pkg/node_modules': ['tests.py', 'tool/tests.py'],
    'sub/__pycache__': ['tests.py'],
    'deep/skipme': ['tests/__init__.py', 'tests/test_s.py', 'inner/tests.py'],
    'pkg/fix[v1]': ['tests.py'],
    'Zed/CVS': ['tests.py'],
}
OPTIONAL_C = [
    'ftests.pyc', 'other.pyc', 'sub/tests.pyc', 'sub/tests.pyo', 'sub/ftests.pyc', 'sub/inner/tests.pyc',
    'pkg/__init__.pyc', 'pkg/tests/__init__.pyc', 'pkg/tests/test_b.pyc', 'pkg/tests/atest.pyc',
    'pkg/tests/helper.pyc', 'deep/tests/__init__.pyc', 'deep/tests/test_d.pyc', 'deep/tests/tests.pyc',
    'Zed/tests.pyc', 'CVS/tests.pyc', '1bad/tests.pyc', '__pycache__/tests.pyc', 'a1/tests.pyc',
]
NESTED_EXCLUDES = ('tests.py', 'tests/', 'ftests.py')   # would collide with sub/* named from root "sub"
MPOOL = [[], [], ['sub'], ['!tests$'], ['^tests'], ['pkg', 'sub'], ['!sub', '!pkg'], ['test_'], ['zzz']]
# --tests-pattern / --test-file-pattern, together and alone; all of them match
# only "tests" / "ftests" among the top-level file stems
PATS = [{'tests_pat': '^f?tests$', 'file_pat': '^(test_|atest)'}, {'tests_pat': '^f?tests$', 'file_pat': '^(test_|atest)'},
        {'tests_pat': 'tests', 'file_pat': '_[a-d]$'}, {'tests_pat': '^(f|)tests2?$'}, {'file_pat': '^(a|helper)'}]
# --ignore_dir values are directory names, not patterns: fix[v1] is a directory
# of the universe, the others are not (read as shell patterns they would match
# skipme, sub, Zed, a1, pkg, deep, everything)
IGN_LITERAL = ['fix[v1]', 'sk[i]pme', 'su?', 'Z*', '[a-z]1', 'p?g', 'de*', '*']


def spell_package(d, rng):
    """-s / --package: a dotted name or a path (normalize_package): with
    slashes, a trailing slash, backslashes, below the search path as seen from
    the working directory (the tree is ./w) or absolute"""
    return rng.choice([d.replace('/', '.'), d.replace('/', '.'), d, d + '/', 'w/' + d,
                       '{top}/' + d, d.replace('/', '\\'), './w/' + d + '/'])


def gen_case(cid, rng):
    paths = {}
    # a third of the trees contain compiled files: beside their source, without
    # it, as __init__.pyc; most of these runs use --usecompiled
    withc = rng.random() < 0.35
    for p in rng.choice(TOP_ALT_C if withc and rng.random() < 0.7 else TOP_ALT):
        paths[p] = 'file'
    dens = rng.choice([0.3, 0.5, 0.8])
    for p in OPTIONAL:
        if rng.random() < dens:
            paths[p] = 'file'
    if withc:
        for p in OPTIONAL_C:
            if rng.random() < dens:
                paths[p] = 'file'
    links = {}
    if rng.random() < 0.3:
        for lp in rng.sample(sorted(LINKS), rng.randint(1, 4)):
            links[lp] = {'paths': {q: 'file' for q in LINKS[lp] if rng.random() < 0.8 or q == LINKS[lp][0]}}
    rootsel = rng.choice(['top', 'top', 'dup', 'nested', 'nested-rev'])
    # the nested root may itself sit where the outer walk never goes (ignored
    # or non-identifier directory): it is still a search path of its own
    inner = rng.choice(['sub', 'sub', 'skipme', 'CVS', '1bad'])
    if rootsel.startswith('nested'):
        paths = {p: k for p, k in paths.items() if not p.startswith(NESTED_EXCLUDES)}
        if not (withc and inner + '/tests.pyc' in paths):
            paths.setdefault(inner + '/tests.py', 'file')
    roots = {'top': [''], 'dup': ['', ''], 'nested': ['', inner], 'nested-rev': [inner, '']}[rootsel]
    alt = rng.random() < 0.45
    pat = dict(rng.choice(PATS)) if alt else {}
    ignore = ['skipme'] if (rng.random() < 0.5 or (rootsel.startswith('nested') and inner == 'skipme')) else []
    if rng.random() < 0.3:
        ignore = ignore + rng.sample(IGN_LITERAL, rng.randint(1, 2))
        rng.shuffle(ignore)
    if alt and rootsel.startswith('nested'):
        paths = {p: k for p, k in paths.items() if p not in ('ftests.py', 'ftests.pyc')}
    if ('tests/ftests.py' in paths or 'tests/ftests.pyc' in paths) and alt:
        paths.pop('ftests.py', None)
        paths.pop('ftests.pyc', None)
    usec = rng.random() < (0.75 if withc else 0.04)
    mp = rng.choice(MPOOL)
    args = ['--list-tests']
    if usec:
        args += ['--usecompiled']
    elif withc and rng.random() < 0.5:
        args += ['-k']
    if 'tests_pat' in pat:
        args += ['--tests-pattern', pat['tests_pat']]
    if 'file_pat' in pat:
        args += ['--test-file-pattern', pat['file_pat']]
    if rng.random() < 0.1:
        args += ['--suite-name', 'alt_suite']
    for i in ignore:
        args += ['--ignore_dir', i]
    for m in mp:
        args += ['-m', m]
    # --package restricts the walk to the package's directory
    walk = None
    if rootsel in ('top', 'dup') and rng.random() < 0.3:
        cands = [d for d in ('pkg', 'sub', 'deep', 'pkg/tests', 'deep/tests', 'sub/inner')
                 if any(p.startswith(d + '/') for p in paths)]
        if cands:
            pk = rng.sample(cands, rng.randint(1, min(3, len(cands))))
            walk = pk
            for d in pk:
                args += [rng.choice(['-s', '-s', '--package', '--dir']), spell_package(d, rng)]
    # --package-path: a directory below the plain search path is also given as a
    # package of its own (the overlap must not load its files twice); such
    # entries are walked after the plain ones
    root_pkgs = {}
    if rootsel in ('top', 'dup') and walk is None and rng.random() < 0.25:
        cands = [d for d in ('pkg', 'sub', 'deep', 'Zed') if any(p.startswith(d + '/') for p in paths)]
        if cands:
            d = rng.choice(cands)
            roots = list(roots) + [d]
            root_pkgs = {d: 'stitchpkg'}
    return {'id': cid, 'paths': paths, 'roots': roots, 'args': args, 'pat': pat,
            'ignore': ignore, 'mpats': mp, 'walk': walk, 'root_pkgs': root_pkgs, 'links': links,
            'usecompiled': usec, 'compiled': sorted(p for p in paths if p.endswith('.pyc'))}


def run(chk, tier, seed, replay=None):
    chk.rule = ('(1) TLC: DiscoveryMC.tla - sanity of the definitions (Found without duplicates under '
                'repeated / nested roots, pruning of non-identifier / ignored directories, package rule '
                'needs __init__.py; --usecompiled: a compiled file counts only where its source is absent, '
                '__init__.pyc makes a package, one file per module) over every parent-closed subset of a '
                '17-entry universe x 4 root lists x {none, --usecompiled}. '
                '(2) real runs: trees drawn from a 69-entry universe (tests.py / tests package / f?tests, '
                'helper and non-.py files, namespace and regular packages, directories named 1bad, my-dir, '
                '.git, node_modules, __pycache__, CVS, fix[v1], --ignore_dir, mixed-case and underscore names; files whose stem is no '
                'identifier (test-api.py, "test b.py", my-tests.py) inside tests packages and beside them; 30% of the trees with 1-4 symlinked '
                'directories (targets outside the tree, holding tests.py / a tests package / sub-directories) named as identifiers, '
                'vendor-libs, my.link, node_modules, __pycache__, CVS, fix[v1] and skipme with and without --ignore_dir skipme; a third '
                'of the trees with real byte-code made by py_compile beside its source, without it, as '
                '__init__.pyc, plus .pyo look-alikes, run with --usecompiled / -k / neither) x '
                'default / four alternative --tests-pattern and --test-file-pattern settings x roots {top}, {top, top}, '
                '{top, sub}, {sub, top} x -m lists incl. negations x -s / --package / --dir lists spelled as dotted '
                'names or as paths (slashes, trailing slash, backslashes, relative to the working directory, absolute) x '
                '--ignore_dir values incl. literal names with [ ] * ? x --suite-name; every tree is materialised on tmpfs in '
                'two creation orders; each .py / .pyc file logs its own import and --list-tests prints the collected '
                'tests; TLC compares the import sequence and the modules of the listed tests '
                'with Discovery!Imported; distinct = distinct (tree, options)')
    chk.assumptions += ['imports of parent packages\' __init__.py are a side effect and not compared',
                        'a symlinked directory counts as a directory with the target\'s content; within one directory the walk visits '
                        'the symlinked sub-directories (sorted) before the others (sorted); symlinked files, links into the tree and '
                        'non-UTF-8 names are outside the universe',
                        'universes are kept free of module-name collisions (tests.py next to tests/)']
    rng = random.Random(seed * 7919 + 14)
    if replay:
        with open(replay) as f:
            r = json.load(f)
        cases = [r['case']]
    else:
        chk.add_tlc('DiscoveryMC', tlc.run('DiscoveryMC', 'DiscoveryMC', timeout=1800))
        n = 220 if tier == 'quick' else 4000
        cases = []
        for i in range(n):
            c = gen_case('d%d' % i, rng)
            for order in rng.sample(['sorted', 'reverse', 'hash'], 2):
                cases.append(dict(c, id='%s%s' % (c['id'], order[0]), order=order))
    results = fstree.run_cases(cases)
    recs = []
    for c, r in zip(cases, results):
        T = fstree.tree_record(r['paths'], c['roots'], mpats=c['mpats'], ignore_dir=c['ignore'],
                               walk=c.get('walk'), root_pkgs=c.get('root_pkgs'),
                               usecompiled=c.get('usecompiled', False), linkdirs=r['linkdirs'], **c['pat'])
        crashed = ''
        if r['rc'] != 0:
            crashed = 'rc=%s %s' % (r['rc'], r['stderr'].strip().splitlines()[-1:] or '')
        imported = [p for _m, p in r['imported']
                    if p in r['paths'] and not p.endswith(('__init__.py', '__init__.pyc'))]
        recs.append({'id': c['id'], 'what': 'find', 'T': T, 'imported': imported, 'listed': r['listed'],
                     'deleted': [], 'changed': [], 'crashed': crashed})
    chk.sample({'paths': sorted(cases[0]['paths']), 'roots': cases[0]['roots'], 'args': cases[0]['args'],
                'creation_order': cases[0]['order'], 'imported': recs[0]['imported'],
                'listed': recs[0]['listed']})
    fd, path = tempfile.mkstemp(prefix='verif-disc-', suffix='.json')
    with os.fdopen(fd, 'w') as f:
        json.dump(recs, f)
    try:
        tres = tlc.run('Trace_Discovery', 'Trace_Discovery', env={'TRACE_FILE': path}, timeout=3000)
    finally:
        os.unlink(path)
    chk.add_tlc('Trace_Discovery', tres)
    verdicts = {m[1]: (m[2], m[3]) for m in tlc.printed_tuples(tres.out, 'DISC')}
    nonempty = 0
    chk.extra['runs_with_usecompiled'] = sum(bool(c.get('usecompiled')) for c in cases)
    chk.extra['runs_that_loaded_a_compiled_module'] = sum(any(p.endswith('.pyc') for p in rec['imported']) for rec in recs)
    chk.extra['runs_with_source_beside_compiled_candidate'] = sum(
        bool(c.get('usecompiled')) and any(p.endswith('.pyc') and p[:-1] in rec['imported'] for p in c['paths'])
        for c, rec in zip(cases, recs))
    chk.extra['runs_with_symlinked_directories'] = sum(bool(c.get('links')) for c in cases)
    chk.extra['runs_that_loaded_a_module_below_a_symlinked_directory'] = sum(
        any(p.startswith(tuple(l + '/' for l in c.get('links') or ())) for p in rec['imported'])
        for c, rec in zip(cases, recs) if c.get('links'))
    chk.extra['runs_that_loaded_a_file_with_a_non_identifier_stem'] = sum(
        any(not fstree.IDENT.match(os.path.basename(p)[:-3]) for p in rec['imported'] if p.endswith('.py')) for rec in recs)
    chk.extra['runs_with_package_given_as_path'] = sum(
        any(a in ('-s', '--package', '--dir') and ('/' in b or '\\' in b) for a, b in zip(c['args'], c['args'][1:]))
        for c in cases)
    for c, r, rec in zip(cases, results, recs):
        v = verdicts.get(c['id'])
        if v is None:
            chk.machinery('no DISC line for %s' % c['id'])
            continue
        chk.traces += 1
        nonempty += bool(rec['imported'])
        chk.nontrivial.add(json.dumps([sorted(c['paths']), c['roots'], c['args']]))
        clause, arg = v
        if clause == 'DRIFT':
            chk.extra['drift'] = chk.extra.get('drift', 0) + 1
        elif clause:
            chk.violation(clause, '%s (%s): roots %s args %s imported %s' % (clause, arg, c['roots'], c['args'], rec['imported'])
                          + ('' if rec['listed'] == rec['imported'] else ' listed %s' % rec['listed']),
                          {'case': c, 'record': rec, 'stdout_tail': r['stdout'][-1500:], 'stderr_tail': r['stderr'][-1500:]})
    chk.extra['runs_that_imported_something'] = nonempty
