"""C14: discovery loads exactly the matching test modules, once, in sorted order."""
import json
import os
import random
import tempfile

import fstree
import tlc

# candidate entries; groups of mutually exclusive alternatives avoid module-name
# collisions (tests.py vs tests/ in one directory would both be module "tests")
TOP_ALT = [[], ['tests.py'], ['tests/__init__.py', 'tests/test_a.py', 'tests/helper.py',
                             'tests/notes.txt', 'tests/tests.py', 'tests/ftests.py', 'tests/test_z.py']]
OPTIONAL = [
    'test_x.py', 'other.py', 'ftests.py',
    'sub/tests.py', 'sub/inner/tests.py', 'sub/inner/__init__.py', 'sub/ftests.py',
    'pkg/__init__.py', 'pkg/tests/__init__.py', 'pkg/tests/test_b.py', 'pkg/tests/atest.py',
    'pkg/ftests.py',
    '1bad/tests.py', 'my-dir/tests.py', '.git/tests.py', 'node_modules/tests.py',
    '__pycache__/tests.py', 'CVS/tests.py', 'skipme/tests.py',
    'tests2/test_c.py', 'deep/tests/test_d.py', 'deep/tests/tests.py',
    'Zed/tests.py', '_under/tests.py', 'a1/tests.py',
]
NESTED_EXCLUDES = ('tests.py', 'tests/', 'ftests.py')   # would collide with sub/* named from root "sub"
MPOOL = [[], [], ['sub'], ['!tests$'], ['^tests'], ['pkg', 'sub'], ['!sub', '!pkg'], ['test_'], ['zzz']]


def gen_case(cid, rng):
    paths = {}
    for p in rng.choice(TOP_ALT):
        paths[p] = 'file'
    dens = rng.choice([0.3, 0.5, 0.8])
    for p in OPTIONAL:
        if rng.random() < dens:
            paths[p] = 'file'
    rootsel = rng.choice(['top', 'top', 'dup', 'nested', 'nested-rev'])
    # the nested root may itself sit where the outer walk never goes (ignored
    # or non-identifier directory): it is still a search path of its own
    inner = rng.choice(['sub', 'sub', 'skipme', 'CVS', '1bad'])
    if rootsel.startswith('nested'):
        paths = {p: k for p, k in paths.items() if not p.startswith(NESTED_EXCLUDES)}
        paths.setdefault(inner + '/tests.py', 'file')
    roots = {'top': [''], 'dup': ['', ''], 'nested': ['', inner], 'nested-rev': [inner, '']}[rootsel]
    alt = rng.random() < 0.4
    pat = {'tests_pat': '^f?tests$', 'file_pat': '^(test_|atest)'} if alt else {}
    ignore = ['skipme'] if (rng.random() < 0.5 or (rootsel.startswith('nested') and inner == 'skipme')) else []
    if alt and rootsel.startswith('nested'):
        paths = {p: k for p, k in paths.items() if p != 'ftests.py'}
    if 'tests/ftests.py' in paths and alt and 'ftests.py' in paths:
        del paths['ftests.py']
    mp = rng.choice(MPOOL)
    args = ['--list-tests']
    if alt:
        args += ['--tests-pattern', pat['tests_pat'], '--test-file-pattern', pat['file_pat']]
    for i in ignore:
        args += ['--ignore_dir', i]
    for m in mp:
        args += ['-m', m]
    # --package restricts the walk to the package's directory
    walk = None
    if rootsel in ('top', 'dup') and rng.random() < 0.25:
        cands = [d for d in ('pkg', 'sub', 'deep') if any(p.startswith(d + '/') for p in paths)]
        if cands:
            pk = rng.sample(cands, rng.randint(1, len(cands)))
            walk = pk
            for d in pk:
                args += ['-s', d]
    # --package-path: a directory below the plain search path is also given as a
    # package of its own (the overlap must not load its files twice); such
    # entries are walked after the plain ones
    root_pkgs = {}
    if rootsel in ('top', 'dup') and walk is None and rng.random() < 0.25:
        cands = [d for d in ('pkg', 'sub', 'deep', 'Zed') if any(p.startswith(d + '/') for p in paths)]
        if cands:
            d = rng.choice(cands)
            roots = list(roots) + [d]
            root_pkgs = {d: 'stitchpkg'}
    return {'id': cid, 'paths': paths, 'roots': roots, 'args': args, 'pat': pat,
            'ignore': ignore, 'mpats': mp, 'walk': walk, 'root_pkgs': root_pkgs}


def run(chk, tier, seed, replay=None):
    chk.rule = ('(1) TLC: DiscoveryMC.tla - sanity of the definitions (Found without duplicates under '
                'repeated / nested roots, pruning of non-identifier / ignored directories, package rule '
                'needs __init__.py) over every parent-closed subset of a 16-entry universe x 4 root lists. '
                '(2) real runs: trees drawn from a 32-entry universe (tests.py / tests package / f?tests, '
                'helper and non-.py files, namespace and regular packages, directories named 1bad, my-dir, '
                '.git, node_modules, __pycache__, CVS, --ignore_dir, mixed-case and underscore names) x '
                'default / alternative --tests-pattern and --test-file-pattern x roots {top}, {top, top}, '
                '{top, sub}, {sub, top} x -m lists incl. negations x -s package lists; every tree is materialised on tmpfs in '
                'two creation orders; each .py file logs its own import; TLC compares the import sequence '
                'with Discovery!Imported; distinct = distinct (tree, options)')
    chk.assumptions += ['imports of parent packages\' __init__.py are a side effect and not compared',
                        'symlinks and non-UTF-8 names are outside the universe',
                        'universes are kept free of module-name collisions (tests.py next to tests/)']
    rng = random.Random(seed * 7919 + 14)
    if replay:
        with open(replay) as f:
            r = json.load(f)
        cases = [r['case']]
    else:
        chk.add_tlc('DiscoveryMC', tlc.run('DiscoveryMC', 'DiscoveryMC', timeout=1800))
        n = 220 if tier == 'quick' else 4000
        cases = []
        for i in range(n):
            c = gen_case('d%d' % i, rng)
            for order in rng.sample(['sorted', 'reverse', 'hash'], 2):
                cases.append(dict(c, id='%s%s' % (c['id'], order[0]), order=order))
    results = fstree.run_cases(cases)
    recs = []
    for c, r in zip(cases, results):
        T = fstree.tree_record(r['paths'], c['roots'], mpats=c['mpats'], ignore_dir=c['ignore'],
                               walk=c.get('walk'), root_pkgs=c.get('root_pkgs'), **c['pat'])
        crashed = ''
        if r['rc'] != 0:
            crashed = 'rc=%s %s' % (r['rc'], r['stderr'].strip().splitlines()[-1:] or '')
        imported = [p for _m, p in r['imported'] if p in r['paths'] and not p.endswith('__init__.py')]
        recs.append({'id': c['id'], 'what': 'find', 'T': T, 'imported': imported,
                     'deleted': [], 'changed': [], 'crashed': crashed})
    chk.sample({'paths': sorted(cases[0]['paths']), 'roots': cases[0]['roots'], 'args': cases[0]['args'],
                'creation_order': cases[0]['order'], 'imported': recs[0]['imported']})
    fd, path = tempfile.mkstemp(prefix='verif-disc-', suffix='.json')
    with os.fdopen(fd, 'w') as f:
        json.dump(recs, f)
    try:
        tres = tlc.run('Trace_Discovery', 'Trace_Discovery', env={'TRACE_FILE': path}, timeout=3000)
    finally:
        os.unlink(path)
    chk.add_tlc('Trace_Discovery', tres)
    verdicts = {m[1]: (m[2], m[3]) for m in tlc.printed_tuples(tres.out, 'DISC')}
    nonempty = 0
    for c, r, rec in zip(cases, results, recs):
        v = verdicts.get(c['id'])
        if v is None:
            chk.machinery('no DISC line for %s' % c['id'])
            continue
        chk.traces += 1
        nonempty += bool(rec['imported'])
        chk.nontrivial.add(json.dumps([sorted(c['paths']), c['roots'], c['args']]))
        clause, arg = v
        if clause == 'DRIFT':
            chk.extra['drift'] = chk.extra.get('drift', 0) + 1
        elif clause:
            chk.violation(clause, '%s (%s): roots %s args %s imported %s' % (clause, arg, c['roots'], c['args'], rec['imported']),
                          {'case': c, 'record': rec, 'stdout_tail': r['stdout'][-1500:], 'stderr_tail': r['stderr'][-1500:]})
    chk.extra['runs_that_imported_something'] = nonempty
