"""C12: reported counts and failure lists equal what actually happened."""
import copy
import random

import corecheck
import worlds

FAM = {'C12'}


def opts(r):
    o = {'verbose': r.choice([0, 1, 1, 2, 3])}
    if r.random() < 0.3:
        o['repeat'] = r.choice([2, 3])
    if r.random() < 0.25:
        o['buffer'] = True
    if r.random() < 0.3:
        o['color'] = True
    if r.random() < 0.2:
        o['progress'] = True
    if r.random() < 0.1:
        o['verbose'] = 4
    return o


def run(chk, tier, seed, replay=None):
    chk.rule = ('worlds = TLC-exported layer DAGs x tests of every outcome kind '
                '(several result events per test, failing subtests, unexpected '
                'successes, skips) x layer setUp/tearDown failures x -v 0..3 x '
                '--repeat 1..3; every world is run in-process and a sample again '
                'with -j 2 / -j 3 and with a forced resume (first layer cannot be '
                'torn down), the totals of the modes are compared by TLC; '
                'distinct = distinct (graph, outcome facts, options, trace length)')
    if replay:
        corecheck.replay(chk, FAM, replay)
        return
    rng = random.Random(seed * 7919 + 12)
    graphs = [g for g in corecheck.export_graphs(chk, 4) if g['n'] >= 1]
    if tier == 'quick':
        corecheck.run_mc(chk, ['Runner_design'])
        corecheck.run_mc(chk, ['System_q', 'System_asbuilt_q', 'System_dev_skipped_q'], module='System',
                         expect_violation=['System_dev_skipped_q'])
        n1, n2, nmodes = 150, 90, 40
    else:
        corecheck.run_mc(chk, ['Runner_design', 'Runner_deep2'], timeout=3000)
        corecheck.run_mc(chk, ['System_design', 'System_asbuilt', 'System_dev_skipped'], module='System',
                         expect_violation=['System_dev_skipped'], timeout=3000)
        n1, n2, nmodes = 2000, 1200, 500
    allk = list(worlds.OUTCOMES)
    prof_a = {'sweep': True, 'kinds': 'mixed', 'hooks': 'random',
              'outcomes': allk, 'tests_per_layer': (1, 3), 'unit_tests': (0, 3),
              'opts': opts, 'faults': (0.1, 0.1, 0.0)}
    prof_b = {'kinds': 'mixed', 'hooks': 'all',
              'outcomes': worlds.MULTI_EVENT + worlds.SINGLE_EVENT_BAD + worlds.GOOD,
              'tests_per_layer': (2, 4), 'unit_tests': (1, 3), 'opts': opts,
              'faults': (0.12, 0.12, 0.0)}
    cases = corecheck.gen_cases(rng, graphs, n1, prof_a, 'a')
    cases += corecheck.gen_cases(rng, graphs, n2, prof_b, 'b')
    # the same worlds in the other execution modes
    peers = {}
    multi = [c for c in cases if len([k for k in c['world']['classes']]) >= 2]
    rng.shuffle(multi)
    for c in multi[:nmodes]:
        group = [c['id']]
        for mode in ('j', 'resume'):
            w = copy.deepcopy(c['world'])
            o = dict(c['o'])
            if mode == 'j':
                o['j'] = rng.choice([2, 3])
            else:
                # the first layer to run that has tearDown cannot be torn down
                owners = [cs.get('layer') for cs in w['classes'].values()
                          if cs.get('layer')]
                if not owners:
                    continue
                for l in w['layers'].values():
                    if 'tearDown' in l.get('hooks', ()) and 'tearDown' not in l:
                        l['tearDown'] = 'notimpl'
                        break
                else:
                    continue
            if rng.random() < 0.5:
                # test ids with characters at which text (but not the report
                # protocol) would break a line
                for k, (tid, t) in enumerate(w['tests'].items()):
                    if 'name' not in t and rng.random() < 0.3:
                        t['name'] = 'test_%s%s%d' % (tid, rng.choice(['\x0c', '\x0b', '\x85', '\u2028', '\x1c']), k)
            if rng.random() < 0.3:
                # shutdown noise on the child's fd 2 after its report
                w.setdefault('env', {})['fd2_at_exit'] = ['bye', 'Exception ignored in: <x>']
            w['id'] = c['id'] + mode
            cid = w['id']
            cases.append({'id': cid, 'world': w, 'o': o, 'mode': 'cli'})
            group.append(cid)
        if len(group) > 1:
            for g in group:
                peers[g] = group
    for c in cases[:3]:
        chk.sample({'world': c['world'], 'options': c['o'], 'mode': c['mode']})
    corecheck.run_cases(chk, FAM, cases, peers=peers)
    chk.extra['mode_bundles'] = len({tuple(v) for v in peers.values()})
