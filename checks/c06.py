"""C06: -j N runs equal sequential runs; output ordered per layer; at most N alive."""
import copy
import json
import os
import random
import re
import tempfile
from concurrent.futures import ThreadPoolExecutor

import abstract
import runlib
import tlc

HOOKS = ['setUp', 'tearDown', 'testSetUp', 'testTearDown']
TOKEN = re.compile(r'QZ\d+Q')
HEADER = re.compile(r'^Running (.+) tests:$')
# what the worker threads of resume_tests print themselves
BANNER = re.compile(r'^(Could not communicate with subprocess|Incomplete report from subprocess|'
                    r'Could not start subprocess|Error reading subprocess output)')
BLOCKLINE = re.compile(r'^  (Ran \d+ tests|Tear down |Set up |Running in a subprocess)|QZ\d+Q')


def finish_orders(chk, k, n):
    """the finish orders TLC finds feasible for k children and N slots"""
    d = tempfile.mkdtemp(prefix='verif-parcfg-')
    cfg = os.path.join(d, 'Parallel_fin.cfg')
    with open(cfg, 'w') as f:
        f.write('CONSTANTS K = %d N = %d L = 1 Deviations = {} DepC = 0 DepD = 0 FailSpawn = {}\n'
                'SPECIFICATION Spec\nINVARIANT Finish\nINVARIANT AliveBound\nCHECK_DEADLOCK FALSE\n' % (k, n))
    try:
        res = tlc.run('Parallel', cfg, timeout=1200)
    finally:
        os.unlink(cfg)
        os.rmdir(d)
    chk.add_tlc('Parallel finish orders k=%d N=%d' % (k, n), res)
    return sorted({tuple(v[1]) for v in tlc.printed_tuples(res.out, 'FINISH')})


def make_world(wid, k, rng, gates=True, rendezvous=None, bad=True, ntests=2):
    layers, classes, tests = {}, {}, {}
    tok = [0]

    def w():
        tok[0] += 1
        return {'a': 'write', 'tok': 'QZ%dQ' % tok[0]}
    for i in range(1, k + 1):
        l = 'L%d' % i
        layers[l] = {'kind': 'class', 'bases': [], 'hooks': HOOKS}
        ids = []
        # (later layers are bigger: which layers get the first N slots must not
        # depend on their sizes)
        for j in range(1, ntests + (i - 1 if gates else 0) + 1):
            tid = 't%d_%d' % (i, j)
            ids.append(tid)
            tests[tid] = {'body': [w(), w()]}
        if gates:
            # the layer's last test parks until the schedule lets it finish
            tests[ids[-1]]['body'].append({'a': 'wait', 'name': 'go_' + l, 'only_child': True})
        if bad and i == 2:
            tests[ids[0]]['body'].append('fail')
        if bad and i == k:
            tests[ids[0]]['body'].append({'a': 'error'})
        classes['T' + l] = {'tests': ids, 'layer': l}
    if rendezvous:
        a, b = rendezvous          # layer a cannot finish before layer b has begun its tests
        tests['t%d_1' % b]['body'].insert(0, {'a': 'signal', 'name': 'begun_L%d' % b, 'only_child': True})
        tests['t%d_2' % a]['body'].append({'a': 'wait', 'name': 'begun_L%d' % b, 'only_child': True,
                                          'timeout': 45.0})
    return {'id': wid, 'layers': layers, 'layer_order': list(layers), 'classes': classes, 'tests': tests,
            'env': {'barriers': ['go_L%d' % i for i in range(1, k + 1)]}}


def make_names_world(wid, rng):
    """mode comparison only: layers whose names differ just where one has a dot
    (a name used as a regular expression confuses them), test ids with
    characters at which str.splitlines splits, layers of different sizes"""
    names = ['La.b', 'La_b', 'LaXb', 'La.b.c']
    rng.shuffle(names)
    names = names[:3]
    layers, classes, tests = {}, {}, {}
    n = 0
    for i, l in enumerate(names):
        layers[l] = {'kind': 'class', 'bases': [], 'hooks': HOOKS}
        ids = []
        for j in range(2 + i):
            n += 1
            tid = 't%d' % n
            ids.append(tid)
            tests[tid] = {'body': [{'a': 'write', 'tok': 'QZ%dQ' % n}],
                          'name': 'test_%s%s%d' % (tid, rng.choice(['\x0c', '\x0b', '\x85', '\u2028', '\x1c', '_']), j)}
        tests[ids[0]]['body'].append('fail')
        tests[ids[-1]]['body'].append({'a': 'error'})
        classes['T%d' % i] = {'tests': ids, 'layer': l}
    return {'id': wid, 'layers': layers, 'layer_order': list(layers), 'classes': classes, 'tests': tests,
            'env': {'barriers': []}}


def controller_for(order, n, k):
    """release the children in the given finish order: first wait until
    min(N, k) children are parked (they run at the same time), then let each
    one go once the previous one has been reaped by the parent"""
    state = {'released': 0}

    def ctl(events, bdir):
        parked = {e['name'] for e in events if e['e'] == 'Wait' and e['name'].startswith('go_')}
        reaped = [abstract.layer_abstract_name(e['l']) for e in events if e['e'] == 'Reaped']
        if state['released'] == 0 and len(parked) < min(n, k):
            return
        while state['released'] < len(order):
            i = state['released']
            if i > 0 and 'L%d' % order[i - 1] not in reaped:
                return
            open(os.path.join(bdir, 'go_L%d' % order[i]), 'w').close()
            state['released'] += 1
    return ctl


def crash_beside_controller():
    """layer 1 (head of the order) parks inside its last test; then the child
    of layer 2 dies without a report; once the parent has reaped it (and had
    time to say so) layer 1 goes on"""
    import time
    state = {}

    def ctl(events, bdir):
        if 'crashed' not in state:
            if any(e['e'] == 'Wait' and e['name'] == 'go_L1' for e in events):
                open(os.path.join(bdir, 'crash_L2'), 'w').close()
                state['crashed'] = True
        elif 'reaped' not in state:
            if any(e['e'] == 'Reaped' and abstract.layer_abstract_name(e['l']) == 'L2' for e in events):
                state['reaped'] = time.monotonic()
        elif 'go' not in state and time.monotonic() - state['reaped'] > 0.6:
            open(os.path.join(bdir, 'go_L1'), 'w').close()
            state['go'] = True
    return ctl


def observe_seq(world, res):
    rep = res['report']
    toks = {}
    cur = None
    for ln in res['stdout'].split('\n'):
        m = HEADER.match(ln)
        if m:
            cur = abstract.layer_abstract_name(m.group(1))
            toks.setdefault(cur, [])
        elif cur is not None:
            toks[cur] += TOKEN.findall(ln)
    return {'layers': [abstract.layer_abstract_name(x) for x in rep['layers']], 'tokens': toks or {'_': []},
            'failed': bool(res.get('failed')), 'ran': (rep['total'] or [0])[0] if rep['total'] else
            sum(s[1] for s in rep['summaries']),
            'failures': (rep['total'] or [0, 0])[1] if rep['total'] else sum(s[2] for s in rep['summaries']),
            'errors': (rep['total'] or [0, 0, 0])[2] if rep['total'] else sum(s[3] for s in rep['summaries']),
            'failBag': sorted(rep['failures']), 'errBag': sorted(rep['errors'])}


def observe_par(world, res):
    rep = res['report']
    blocks, stray, cur = [], 0, None
    inside, pending = 0, False
    for ln in res['stdout'].split('\n'):
        m = HEADER.match(ln)
        if BANNER.match(ln) and cur is not None:
            pending = True
        elif pending and BLOCKLINE.search(ln) and not m:
            # a worker thread's message is followed by more of the same block
            inside += 1
            pending = False
        if m:
            pending = False
            cur = {'l': abstract.layer_abstract_name(m.group(1)), 'toks': []}
            if cur['l'] in world['layers']:      # not the parent's own empty first layer
                blocks.append(cur)
        elif ln.startswith('[Parallel tests running in') or ln.startswith('Tearing down left over'):
            cur = None
        else:
            found = TOKEN.findall(ln)
            if cur is None:
                stray += len(found)
            else:
                cur['toks'] += found
    ev = sorted([e for e in res['events'] if e['e'] == 'Reaped' or (e['e'] == 'Spawn' and e.get('s') != 'fail')],
                key=lambda e: e['seq'])
    crashed = ''
    if not res['timed_out'] and (res['rc'] not in (0, 1) or 'Traceback (most recent call last)' in res['stderr']):
        crashed = 'rc=%s' % res['rc']
    tot = rep['total'] or [0, 0, 0, 0]
    return {'timedOut': bool(res['timed_out']), 'crashed': crashed, 'blocks': blocks, 'stray': stray, 'inside': inside,
            'ev': [{'e': 'SP' if e['e'] == 'Spawn' else 'RP', 'l': abstract.layer_abstract_name(e['l'])} for e in ev],
            'failed': res['rc'] != 0, 'ran': tot[0], 'failures': tot[1], 'errors': tot[2],
            'failBag': sorted(rep['failures']), 'errBag': sorted(rep['errors']), 'wall': round(res['wall'], 2)}


def run(chk, tier, seed, replay=None):
    chk.rule = ('(1) TLC: Parallel.tla - the poll loop of resume_tests and the worker threads, every interleaving '
                'for k = 3 children, N = 2 and 3 (thorough: k = 4), with a rendezvous (child 1 cannot finish before '
                'child 3 has started) and with a failing Popen: AliveBound, Ordered, Complete, Term under per-process '
                'fairness; five deviation configs give counterexamples. (2) spec -> code: for k = 3 (thorough also 4) '
                'and every N in 2..k+1 TLC enumerates the feasible finish orders; each is forced on the real runner '
                '(children park at file barriers until min(N,k) of them run at the same time, then each is released '
                'once the parent has reaped the previous one), with -v 0 / 1 (deferred collector) and -vv (keep-alive '
                'collector); plus the rendezvous schedule, a spawn failure, shuffled runs (--shuffle-seed, 5 tests per layer) and a child that dies while the layer at the head of the order is parked half way (no worker-thread message may land inside a block); TLC compares block order, block content, '
                'live children at every Spawn, totals and lists with the sequential run, and validates the recorded Spawn / '
                'Reaped sequence of every run as a behaviour of Parallel.tla itself (unlogged steps chosen by TLC); distinct = distinct '
                '(k, N, finish order, verbosity)')
    chk.assumptions += ['"alive" is counted between the parent\'s Popen returning and its wait() returning (interposed)',
                        'progress at the same time is observed as min(N,k) children parked simultaneously; 60 s bound',
                        'the skipped count of the totals is not compared (known finding of C12)']
    rng = random.Random(seed * 7919 + 6)
    for cfg in ['Parallel_q32', 'Parallel_q33', 'Parallel_rdv', 'Parallel_fail'] + (
            ['Parallel_t43', 'Parallel_t42'] if tier != 'quick' else []):
        chk.add_tlc(cfg, tlc.run('Parallel', cfg, timeout=3000))
    for dev in ('StartLE', 'PrintAsFinished', 'ReapFrontOnly', 'DoneOnlyWithChild', 'DoneEarly'):
        res = tlc.run('Parallel', 'Parallel_dev_' + dev, timeout=900)
        chk.add_tlc('dev_' + dev, res, expect_ok=False)
        if not res.violation:
            chk.machinery('Parallel_dev_%s did not produce a counterexample' % dev)
    cases = []
    if replay:
        with open(replay) as f:
            cases = [json.load(f)['case']]
    else:
        n_id = 0
        for k in ([3] if tier == 'quick' else [3, 4]):
            for n in range(2, k + 2):
                orders = finish_orders(chk, k, n)
                chk.extra.setdefault('feasible_finish_orders', {})['k=%d,N=%d' % (k, n)] = len(orders)
                for order in orders:
                    verbs = [[], ['-v'], ['-vv']]
                    for vb in verbs:
                        n_id += 1
                        cases.append({'id': 'p%d' % n_id, 'k': k, 'N': n, 'order': list(order), 'verb': vb,
                                      'kind': 'finish-order'})
        for n, vb in [(2, []), (2, ['-vv']), (3, ['-v'])]:
            n_id += 1
            cases.append({'id': 'p%d' % n_id, 'k': 3, 'N': n, 'order': [], 'verb': vb, 'kind': 'rendezvous'})
        for n in (2, 3):
            n_id += 1
            cases.append({'id': 'p%d' % n_id, 'k': 3, 'N': n, 'order': [], 'verb': ['-v'], 'kind': 'spawn-failure'})
        # children whose interpreters write to fd 2 when they shut down (after their report)
        for n, vb in [(2, ['-v']), (3, ['-vv'])]:
            n_id += 1
            cases.append({'id': 'p%d' % n_id, 'k': 3, 'N': n, 'order': [], 'verb': vb, 'kind': 'shutdown-noise'})
        # shuffled runs: every child has to shuffle as the sequential run does
        for n, vb in [(2, ['-v']), (3, []), (2, ['-vv'])]:
            n_id += 1
            cases.append({'id': 'p%d' % n_id, 'k': 3, 'N': n, 'order': [], 'kind': 'shuffle',
                          'verb': vb + ['--shuffle', '--shuffle-seed', str(rng.randrange(1, 10 ** 6))]})
        # names and ids that a regular expression / str.splitlines would get wrong
        for n, vb in [(2, ['-v']), (3, ['-vv']), (2, [])]:
            n_id += 1
            cases.append({'id': 'p%d' % n_id, 'k': 3, 'N': n, 'order': [], 'verb': vb, 'kind': 'names'})
        # a child dies while the layer at the head of the order is parked half way
        for n, vb in [(2, ['-v']), (3, []), (2, [])]:
            n_id += 1
            cases.append({'id': 'p%d' % n_id, 'k': 3, 'N': n, 'order': [], 'verb': vb, 'kind': 'crash-beside'})
        for c in cases:
            wrng = random.Random(seed * 31 + c['k'])
            if c['kind'] == 'names':
                c['world'] = make_names_world(c['id'], random.Random(seed * 131 + n_id + len(c['verb'])))
            elif c['kind'] == 'finish-order':
                c['world'] = make_world(c['id'], c['k'], wrng)
            elif c['kind'] == 'rendezvous':
                c['world'] = make_world(c['id'], c['k'], wrng, gates=False, rendezvous=(1, 3))
            elif c['kind'] == 'shuffle':
                c['world'] = make_world(c['id'], c['k'], wrng, gates=False, ntests=5)
            elif c['kind'] == 'crash-beside':
                w = c['world'] = make_world(c['id'], c['k'], wrng, gates=False, bad=False)
                w['tests']['t1_2']['body'].append({'a': 'wait', 'name': 'go_L1', 'only_child': True, 'timeout': 45.0})
                w['tests']['t1_2']['body'].append({'a': 'write', 'tok': 'QZ999Q'})
                w['tests']['t2_1']['body'][:0] = [{'a': 'wait', 'name': 'crash_L2', 'only_child': True, 'timeout': 45.0},
                                                  {'a': 'crash', 'how': 'exit3', 'only_child': True}]
                w['env']['barriers'] = ['go_L1', 'crash_L2']
            elif c['kind'] == 'shutdown-noise':
                c['world'] = make_world(c['id'], c['k'], wrng, gates=False)
                c['world']['env']['fd2_at_exit'] = ['pool: 2 connections closed', 'bye']
            else:
                c['world'] = make_world(c['id'], c['k'], wrng, gates=False)
                c['world']['env']['spawn_fail'] = ['tests.L2']
                c['world']['env']['spawn_errno'] = wrng.choice(['ENOMEM', 'EAGAIN', 'ENOENT'])

    def one(c):
        w = c['world']
        seqw = copy.deepcopy(w)
        seq = runlib.run_inproc_many([{'id': c['id'], 'world': seqw, 'args': list(c['verb']),
                                       'stdout_kind': 'file'}], workers=1)[0]
        args = ['-j', str(c['N'])] + list(c['verb'])
        env = {}
        if w.get('env', {}).get('spawn_fail'):
            env['VERIF_SPAWN_FAIL'] = json.dumps(w['env']['spawn_fail'])
            env['VERIF_SPAWN_ERRNO'] = w['env'].get('spawn_errno', 'ENOMEM')
        if c['kind'] == 'finish-order':
            ctl = controller_for(c['order'], c['N'], c['k'])
        elif c['kind'] == 'crash-beside':
            ctl = crash_beside_controller()
        else:
            ctl = lambda events, bdir: None     # noqa: E731
        par = runlib.run_cli_controlled(w, args, ctl, timeout=60, env_extra=env)
        return seq, par
    with ThreadPoolExecutor(max_workers=8) as ex:
        results = list(ex.map(one, cases))
    recs = []
    for c, (seq, par) in zip(cases, results):
        s = observe_seq(c['world'], seq)
        p = observe_par(c['world'], par)
        if c['kind'] == 'spawn-failure':
            # the layer that could not be started has no block and its tests
            # did not run: compare what the statement still promises
            s['layers'] = [l for l in s['layers'] if l != 'L2']
            for key in ('failed', 'ran', 'failures', 'errors', 'failBag', 'errBag'):
                p[key] = s[key]
        if c['kind'] == 'crash-beside':
            # the sequential reference run has no child to die: what remains
            # comparable is the order and the contiguity of the blocks and the
            # content of the blocks of the layers that were not killed
            for b in p['blocks']:
                if b['l'] == 'L2':
                    s['tokens']['L2'] = b['toks']
            for key in ('ran', 'failures', 'errors', 'failBag', 'errBag'):
                p[key] = s[key]
            s['failed'] = True
        recs.append({'id': c['id'], 'N': c['N'], 'schedule': '%s %s' % (c['kind'], c['order']),
                     'seq': s, 'par': p})
    chk.sample({'case': {k2: cases[0][k2] for k2 in ('k', 'N', 'order', 'verb', 'kind')}, 'record': recs[0]})
    fd, path = tempfile.mkstemp(prefix='verif-par-', suffix='.json')
    with os.fdopen(fd, 'w') as f:
        json.dump(recs, f)
    try:
        tres = tlc.run('Trace_Parallel', 'Trace_Parallel', env={'TRACE_FILE': path}, timeout=1800)
    finally:
        os.unlink(path)
    chk.add_tlc('Trace_Parallel', tres)
    verdicts = {m[1]: (m[2], m[3]) for m in tlc.printed_tuples(tres.out, 'PAR')}
    for c, (seq, par), rec in zip(cases, results, recs):
        v = verdicts.get(c['id'])
        if v is None:
            chk.machinery('no PAR line for %s' % c['id'])
            continue
        chk.traces += 1
        chk.nontrivial.add(json.dumps([c['k'], c['N'], c['order'], c['verb'], c['kind']]))
        clause, arg = v
        if clause:
            chk.violation('%s|%s' % (clause, c['kind']), '%s (%s): k=%d N=%d order %s %s'
                          % (clause, arg, c['k'], c['N'], c['order'], c['verb']),
                          {'case': c, 'record': rec, 'stdout_tail': par['stdout'][-2500:],
                           'stderr_tail': par['stderr'][-1000:]})
    chk.extra['max_wall_s'] = max(p['wall'] for _s, p in results)
    # I-spec trace validation: the parent's Spawn / Reaped events of every run
    # must be a behaviour of Parallel.tla (unlogged steps chosen by TLC)
    groups = {}
    for c, (seq, par) in zip(cases, results):
        if par['timed_out'] or c['kind'] == 'names':
            continue
        evs = sorted([e for e in par['events'] if e['e'] in ('Spawn', 'Reaped')], key=lambda e: e['seq'])
        tr = []
        for e in evs:
            ci = int(abstract.layer_abstract_name(e['l'])[1:])
            tr.append({'e': 'RP' if e['e'] == 'Reaped' else ('SF' if e.get('s') == 'fail' else 'SP'), 'c': ci})
        fail = tuple(sorted({x['c'] for x in tr if x['e'] == 'SF'}))
        groups.setdefault((c['k'], c['N'], fail), []).append({'id': c['id'], 'ev': tr})
    # binding self-test: a corrupted trace (k + ... children spawned before any
    # is reaped although N < k; a reap before its spawn) must be rejected
    for (k, n, fail), trs in groups.items():
        if not fail:
            if n < k:
                trs.append({'id': 'MUT-too-many-%d-%d' % (k, n),
                            'ev': [{'e': 'SP', 'c': i} for i in range(1, k + 1)] +
                                  [{'e': 'RP', 'c': i} for i in range(1, k + 1)]})
            trs.append({'id': 'MUT-reap-first-%d-%d' % (k, n),
                        'ev': [{'e': 'RP', 'c': 1}, {'e': 'SP', 'c': 1}] +
                              [x for i in range(2, k + 1) for x in ({'e': 'SP', 'c': i}, {'e': 'RP', 'c': i})]})
    accepted = set()
    ntr = 0
    for (k, n, fail), trs in sorted(groups.items()):
        d = tempfile.mkdtemp(prefix='verif-parI-')
        cfg = os.path.join(d, 'Trace_ParallelI.cfg')
        with open(cfg, 'w') as f:
            f.write('CONSTANTS K = %d N = %d L = 1 Deviations = {} DepC = 0 DepD = 0 FailSpawn = {%s}\n'
                    'SPECIFICATION TSpec\nINVARIANT Accepted\nCHECK_DEADLOCK FALSE\n'
                    % (k, n, ', '.join(map(str, fail))))
        fd, path = tempfile.mkstemp(prefix='verif-parI-', suffix='.json')
        with os.fdopen(fd, 'w') as f:
            json.dump(trs, f)
        try:
            res = tlc.run('Trace_ParallelI', cfg, env={'TRACE_FILE': path}, timeout=1800)
        finally:
            os.unlink(path)
            os.unlink(cfg)
            os.rmdir(d)
        chk.add_tlc('Trace_ParallelI k=%d N=%d fail=%s (%d traces)' % (k, n, list(fail), len(trs)), res)
        accepted |= {v[1] for v in tlc.printed_tuples(res.out, 'ACCEPT')}
        ntr += len(trs)
    muts = [t['id'] for trs in groups.values() for t in trs if t['id'].startswith('MUT-')]
    for m in muts:
        if m in accepted:
            chk.machinery('binding self-test: the corrupted trace %s was accepted by Parallel.tla' % m)
    chk.extra['corrupted_traces_rejected'] = len([m for m in muts if m not in accepted])
    ntr -= len(muts)
    rejected = [t['id'] for trs in groups.values() for t in trs
                if t['id'] not in accepted and not t['id'].startswith('MUT-')]
    chk.extra['ispec_traces'] = ntr
    chk.extra['ispec_traces_rejected'] = len(rejected)
    if rejected:
        # the I-spec does not explain the run although every clause of the
        # property held: the spec has to be re-bound (DRIFT, not an alarm)
        chk.notes.append('DRIFT: Parallel.tla admits no behaviour with the recorded Spawn / Reaped order of %s' % rejected[:8])
