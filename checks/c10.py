"""C10: layer run order: deterministic, unit tests first, bases first, once each."""
import itertools
import json
import os
import random
import tempfile

import corecheck
import runlib
import tlc

NAMEPOOLS = [['La', 'Lb', 'Lc', 'Ld', 'Le', 'Lf'], ['Zeta', 'alpha', 'Beta', '_x', 'm10', 'Aux'],
             ['m9', 'm10', 'M', 'a_', 'a0', 'Z9'],
             # names that differ only in zero padding / that a 'natural' order would tie or swap
             ['S1', 'S01', 'S2', 'S10', 'S001', 'S02']]
UNIT = 'zope.testrunner.layer.UnitTests'


def make_spec(g, names, kind, with_unit):
    n = g['n']
    order = [names[i] for i in range(n)]
    bases = {names[i]: [names[b - 1] for b in g['bases'][i]] for i in range(n)}
    spec = {'order': order, 'bases': bases, 'kind': kind, 'unit': ''}
    if with_unit:
        spec['order'] = ['U'] + order
        spec['bases']['U'] = []
        spec['unit'] = 'U'
    return spec


def validate(chk, recs, label):
    fd, path = tempfile.mkstemp(prefix='verif-order-', suffix='.json')
    with os.fdopen(fd, 'w') as f:
        json.dump(recs, f)
    try:
        res = tlc.run('Trace_Order', 'Trace_Order', env={'TRACE_FILE': path}, timeout=1800)
    finally:
        os.unlink(path)
    chk.add_tlc('Trace_Order ' + label, res)
    return {m[1]: (m[2], m[3]) for m in tlc.printed_tuples(res.out, 'ORDER')}


def run(chk, tier, seed, replay=None):
    chk.rule = ('(1) TLC: LayerOrderMC.tla - all ordered-base DAGs on <= 3 layers '
                '(thorough: 4) x all namings x all requested subsets (with / without '
                'the unit layer) x ALL presentation orders: the transcription of '
                'order_by_bases is valid and presentation-independent. (2) real '
                'order_by_bases: the TLC-exported graphs x namings x subsets, every '
                'permutation of the input (<= 4 layers), class and instance layers, '
                'PYTHONHASHSEED in {0, 1, 4242}; (3) header order of real runs with '
                'permuted discovery order; TLC decides validity and equality of all '
                'observations; distinct = distinct (graph, naming, subset)')
    chk.assumptions += ['string order of layer names enters as the rank fact (sorted())']
    rng = random.Random(seed * 7919 + 10)
    if replay:
        with open(replay) as f:
            r = json.load(f)
        if 'case' in r:
            corecheck.replay(chk, {'C10'}, replay)
            return
        out = runlib.run_worker('funcs_worker.py', [r['job']], env_extra={'PYTHONHASHSEED': str(r.get('hashseed', 0))})
        chk.notes.append('replayed: %r' % (out,))
        recs = [dict(r['record'], obs=out[0]['obs'])]
        for rid, (cl, j) in validate(chk, recs, 'replay').items():
            if cl != 'DRIFT':
                chk.violation(cl + '|function', 'replayed', r)
        return
    res = tlc.run('LayerOrderMC', 'LayerOrderMC_q' if tier == 'quick' else 'LayerOrderMC',
                  timeout=3000)
    chk.add_tlc('LayerOrderMC', res)
    if tier != 'quick':
        chk.add_tlc('LayerOrderMC_q', tlc.run('LayerOrderMC', 'LayerOrderMC_q', timeout=900))
    graphs = [g for g in corecheck.export_graphs(chk, 4) if g['n'] >= 1]
    if tier == 'quick':
        graphs = [g for g in graphs if g['n'] <= 3] + rng.sample([g for g in graphs if g['n'] == 4], 25)
    # beyond the exhaustive family: random DAGs with ordered bases on 5 and 6
    # layers (diamonds with extra bases need 5)
    def random_dag(n):
        bases = []
        for i in range(n):
            cand = list(range(1, i + 1))
            rng.shuffle(cand)
            bases.append(cand[:rng.choice([0, 1, 1, 2, 2, 3])] if cand else [])
        return {'n': n, 'bases': bases}
    big = [random_dag(rng.choice([5, 5, 6])) for _ in range(120 if tier == 'quick' else 4000)]
    graphs = graphs + big
    jobs, recs = [], {}
    k = 0
    for g in graphs:
        n = g['n']
        nnamings = 2 if tier == 'quick' else 5
        for _ in range(nnamings):
            pool = rng.choice(NAMEPOOLS)
            names = rng.sample(pool, n)
            with_unit = rng.random() < 0.5
            keys = list(names) + (['U'] if with_unit else [])
            subsets = [s for r in range(1, len(keys) + 1) for s in itertools.combinations(keys, r)]
            if tier == 'quick':
                subsets = rng.sample(subsets, min(4, len(subsets)))
            for sub in subsets:
                perms = list(itertools.permutations(sub))
                if len(perms) > 24:
                    perms = rng.sample(perms, 24)
                k += 1
                rid = 'o%d' % k
                # rank = position in Python's sort order of the dotted names
                dotted = {x: (UNIT if x == 'U' else 'm.' + x) for x in keys}
                ranked = sorted(keys, key=lambda x: dotted[x])
                rec = {'id': rid,
                       'bases': {x: ([names[b - 1] for b in g['bases'][names.index(x)]] if x != 'U' else [])
                                 for x in keys},
                       'rank': {x: ranked.index(x) + 1 for x in keys},
                       'unit': 'U' if with_unit else '', 'req': list(sub), 'obs': []}
                recs[rid] = rec
                for kind in ('class', 'instance'):
                    for hs in (0, 1, 4242):
                        jobs.append(({'op': 'order', 'id': rid,
                                      'graph': make_spec(g, names, kind, with_unit),
                                      'requests': [list(p) for p in perms]}, hs))
    by_hs = {}
    for job, hs in jobs:
        by_hs.setdefault(hs, []).append(job)
    nobs = 0
    for hs, js in by_hs.items():
        out = runlib.run_worker('funcs_worker.py', js, env_extra={'PYTHONHASHSEED': str(hs)})
        for job, r in zip(js, out):
            if 'unbuildable' in r:
                continue       # Python refuses this class graph (no consistent MRO)
            recs[job['id']]['obs'] += r['obs']
            recs[job['id']].setdefault('jobs', []).append([job, hs])
            nobs += len(r['obs'])
    reclist = [r for r in recs.values() if r['obs']]
    jobmap = {r['id']: r.pop('jobs') for r in reclist}
    chk.evaluations += nobs
    chk.traces += len(reclist)
    for r in reclist:
        chk.nontrivial.add(json.dumps([r['bases'], r['rank'], sorted(r['req'])], sort_keys=True))
    chk.sample({'bases': reclist[len(reclist) // 2]['bases'], 'requested': reclist[len(reclist) // 2]['req'],
                'observed_orders': reclist[len(reclist) // 2]['obs'][:3]})
    drift = 0
    for rid, (clause, j) in validate(chk, reclist, 'function').items():
        if clause == 'DRIFT':
            drift += 1
            continue
        rec = recs[rid]
        chk.violation(clause + '|function', '%s for bases %r requested %r: %r'
                      % (clause, rec['bases'], rec['req'], rec['obs'][:4]),
                      {'record': {k2: rec[k2] for k2 in rec if k2 != 'obs'},
                       'job': jobmap[rid][0][0], 'hashseed': jobmap[rid][0][1],
                       'observed': rec['obs'][:8]})
    chk.extra['drift'] = drift
    if drift:
        chk.notes.append('DRIFT: %d records where the code returned a valid order that differs '
                         'from the transcription (spec must be re-bound; not an alarm)' % drift)
    # end to end: header order of real runs, discovery order permuted
    prof = {'sweep': True, 'kinds': 'mixed', 'hooks': 'random', 'outcomes': ['pass'],
            'tests_per_layer': (1, 1), 'unit_tests': (0, 1), 'permute_names': True, 'dotted': 0.15,
            'opts': lambda r: dict({'verbose': r.choice([0, 1])}, **({'j': 2} if r.random() < 0.2 else {}))}
    cases = corecheck.gen_cases(rng, graphs, 120 if tier == 'quick' else 1200, prof, 'h')
    # layers in subprocesses, with names that differ only where one has a dot
    prof_d = dict(prof, dotted=1.0, opts=lambda r: {'verbose': 1, 'j': r.choice([2, 3])},
                  tests_per_layer=(1, 2), sweep=False, big=0.0)

    cases += corecheck.gen_cases(rng, [g for g in graphs if 3 <= g['n'] <= 4], 14 if tier == 'quick' else 150, prof_d, 'hd')
    for c in cases:
        cl = list(c['world']['classes'].items())
        rng.shuffle(cl)              # discovery order
        c['world']['classes'] = dict(cl)
    corecheck.run_cases(chk, {'C10'}, cases, label='header order')
