"""C13: buffered output is attributed correctly; std streams are always restored."""
import copy
import itertools
import json
import os
import random
import tempfile

import abstract
import runlib
import stdobs
import tlc
import worlds

KINDS = list(worlds.OUTCOMES)
HOOKEV = ('LsetUpBegin', 'LtearDownBegin', 'LtestSetUp', 'LtestTearDown')


def with_writes(rng, kind, counter, density=0.6, redirects=False, only=None):
    """the outcome script `kind` with writes sprinkled over every phase
    (only: every write of the test goes to that one stream)"""
    t = copy.deepcopy(worlds.OUTCOMES[kind])
    t['kind'] = kind

    def w():
        counter[0] += 1
        a = {'a': 'write', 'tok': 'QZ%dQ' % counter[0],
             'stream': rng.choice(['stdout', 'stdout', 'stderr']),
             'nl': rng.random() < 0.7,
             'via': rng.choice(['text', 'text', 'text', 'buffer'])}
        if a['via'] == 'buffer' and rng.random() < 0.3:
            a['rawhex'] = rng.choice(['fffe', 'c3', '80', 'edA080'.lower()])   # not valid UTF-8
        if only:
            a['stream'] = only
        return a

    def sprinkle(actions):
        out = []
        for a in list(actions) + [None]:
            if rng.random() < density:
                out.append(w())
            if a is None:
                break
            if isinstance(a, dict) and a.get('a') == 'subtest':
                a = dict(a, do=sprinkle(a.get('do', ())))
            out.append(a)
        return out
    if t.get('deco') == 'skip':
        return t
    redir = None
    if redirects and rng.random() < 0.3:
        redir = (rng.choice(['setup-teardown', 'body-cleanup', 'body-body', 'leave']),
                 rng.choice(['stdout', 'stdout', 'stderr']))
    t['setUp'] = sprinkle(t.get('setUp', ()))
    t['body'] = sprinkle(t.get('body', ()))
    t['tearDown'] = sprinkle(t.get('tearDown', ()))
    cl = [sprinkle(c) for c in t.get('cleanups', ())]
    if rng.random() < 0.3:
        cl.append(sprinkle([]))
    if redir:
        r = {'a': 'redirect', 'stream': redir[1]}
        u = {'a': 'unredirect', 'stream': redir[1]}
        if redir[0] == 'setup-teardown':
            t['setUp'] = [r] + t['setUp']
            t['tearDown'].insert(rng.randint(0, len(t['tearDown'])), u)
        elif redir[0] == 'body-cleanup':
            t['body'].insert(rng.randint(0, max(0, len(t['body']) - 1)), r)
            cl.append([u] + sprinkle([]))
        elif redir[0] == 'body-body':
            i = rng.randint(0, max(0, len(t['body']) - 1))
            t['body'].insert(i, r)
            t['body'].insert(rng.randint(i + 1, len(t['body'])), u)
        else:
            t['body'].insert(rng.randint(0, max(0, len(t['body']) - 1)), r)
        t['redir'] = redir[0]
    if cl:
        t['cleanups'] = cl
    return t


def make_world(wid, rng, kinds, two_layers=False, redirects=False, single=False):
    """single: most tests write to exactly one of the two streams"""
    counter = [0]
    tests, classes = {}, {}
    layers = {'L1': {'kind': 'class', 'bases': [],
                     'hooks': ['setUp', 'tearDown', 'testSetUp', 'testTearDown']}}
    if two_layers:
        layers['L2'] = {'kind': 'class', 'bases': ['L1'],
                        'hooks': ['setUp', 'tearDown', 'testSetUp', 'testTearDown']}
    ids = []
    for k, kind in enumerate(kinds):
        tid = 't%d' % (k + 1)
        only = rng.choice(['stdout', 'stderr', 'stdout', 'stderr', None]) if single else None
        tests[tid] = with_writes(rng, kind, counter, redirects=redirects, only=only,
                                 density=0.75 if single else 0.6)
        ids.append(tid)
    if two_layers and len(ids) > 1:
        classes['TA'] = {'tests': ids[:1], 'layer': 'L1'}
        classes['TB'] = {'tests': ids[1:], 'layer': 'L2'}
    else:
        classes['TA'] = {'tests': ids, 'layer': 'L1'}
    return {'id': wid, 'layers': layers, 'layer_order': list(layers),
            'classes': classes, 'tests': tests}


CHILD_KINDS = [k for k in KINDS if k not in ('sysexit', 'odd_exc')]
CHILD_BAD = [k for k in CHILD_KINDS if k in worlds.SINGLE_EVENT_BAD + worlds.MULTI_EVENT]


def make_child_world(wid, rng, resume):
    """two probe layers (every hook; testSetUp / testTearDown write a token to
    sys.stderr / sys.stdout between tests), three tests each, most of them
    failing after writing to stderr only / stdout only / both; resume: a first
    layer whose tearDown raises NotImplementedError, so that the probe layers
    are resumed in subprocesses (otherwise the run uses -j 2)"""
    counter = [0]
    hooks = ['setUp', 'tearDown', 'testSetUp', 'testTearDown']
    layers, classes, tests, order = {}, {}, {}, []
    if resume:
        layers['L0'] = {'kind': 'class', 'bases': [], 'hooks': hooks, 'tearDown': 'notimpl'}
        classes['T0'] = {'tests': ['t0'], 'layer': 'L0'}
        tests['t0'] = dict(copy.deepcopy(worlds.OUTCOMES['pass']), kind='pass')
        order.append('L0')
    n = 0
    for lname in ('L1', 'L2'):
        ids = []
        for _ in range(3):
            n += 1
            kind = rng.choice(CHILD_BAD) if rng.random() < 0.7 else rng.choice(CHILD_KINDS)
            tests['t%d' % n] = with_writes(
                rng, kind, counter, density=0.75,
                only=rng.choice(['stderr', 'stderr', 'stdout', None]))
            ids.append('t%d' % n)
        hw = {}
        for h in ('testSetUp', 'testTearDown'):
            if rng.random() < 0.7:
                counter[0] += 1
                hw[h] = [{'tok': 'QZ%dQ' % counter[0], 'nl': True, 'via': 'text',
                          'stream': rng.choice(['stderr', 'stderr', 'stdout'])}]
        layers[lname] = {'kind': 'class', 'bases': [], 'hooks': hooks, 'writes': hw}
        classes['T' + lname] = {'tests': ids, 'layer': lname}
        order.append(lname)
    return {'id': wid, 'layers': layers, 'layer_order': order, 'classes': classes, 'tests': tests}


def record_cli(case, res, ref):
    """a command-line run: the parent's stdout / stderr are the runner's
    output; stream identities are seen by the hooks inside each process"""
    rec = record(case, dict(res, stdout_restored=False, stderr_restored=False,
                            crashed='TIMEOUT' if res.get('timed_out') else ''), ref)
    evs = res['events']
    children = {e['pid'] for e in evs if e['e'] == 'ProcStart' and e.get('role') == 'child'}
    procs = {}
    for e in evs:
        if e['e'] not in HOOKEV and e['e'] != 'T':
            continue
        p = procs.setdefault(e['pid'], {'child': e['pid'] in children, 'base': None,
                                        'hooks': [], 'phases': []})
        pair = [e['out'], e['err']]
        if e['e'] == 'T':
            p['phases'].append(pair)
        elif p['base'] is None and not p['phases']:
            p['base'] = pair
        else:
            p['hooks'].append(pair)
    rec['procs'] = [p for p in procs.values() if p['base'] is not None]
    rec['hooks'], rec['phases'] = [], []
    rec['hookToks'] = [e['tok'] for e in evs if e['e'] == 'Write' and not e.get('t')]
    rec['child'] = True
    # both names denote one stream object wherever a test wrote something
    rec['merged'] = all(e['pid'] in children for e in evs if e['e'] == 'Write' and e.get('t'))
    return rec


def record(case, res, ref):
    w = case['world']
    evs = res['events']
    order = []
    for e in evs:
        if e['e'] == 'T' and e['t'] not in order:
            order.append(e['t'])
    # tests that execute no code (decorator skips) keep their scripted place
    scripted = [t for c in w['classes'].values() for t in c['tests']]
    order = [t for t in scripted if t in order or not ref['started'].get(t)]
    tests = [{'t': t, 'started': bool(ref['started'].get(t)),
              'seq': [{k: x[k] for k in ('k', 'tok', 's', 'v', 'dc')}
                      for x in ref['seq'][t]]} for t in order]
    merged = case['stdout_kind'] == 'merged'
    return {
        'id': case['id'], 'buffer': bool(case['o'].get('buffer')), 'merged': merged,
        'tests': tests,
        'written': [e['tok'] for e in evs if e['e'] == 'Write' and e.get('t')
                    and not e.get('own')],
        'items': stdobs.items(res.get('stdout', ''), w),
        'errItems': [] if merged else stdobs.items(res.get('stderr', ''), w),
        'hooks': [s for e in evs if e['e'] in HOOKEV for s in (e['out'], e['err'])],
        'phases': [s for e in evs if e['e'] == 'T' for s in (e['out'], e['err'])],
        'restored': bool(res.get('stdout_restored') and res.get('stderr_restored')),
        'crashed': res.get('crashed', '') or '',
        'child': False, 'procs': [], 'hookToks': [],
    }


def validate(chk, recs, label):
    fd, path = tempfile.mkstemp(prefix='verif-std-', suffix='.json')
    with os.fdopen(fd, 'w') as f:
        json.dump(recs, f)
    try:
        res = tlc.run('Trace_Std', 'Trace_Std', env={'TRACE_FILE': path}, timeout=1800)
    finally:
        os.unlink(path)
    chk.add_tlc('Trace_Std ' + label, res)
    return {m[1]: (m[2], m[3]) for m in tlc.printed_tuples(res.out, 'STD')}


def run_cases(chk, cases, label):
    refs = runlib.compute_refs([c['world'] for c in cases])
    jobs = [{'id': c['id'], 'world': c['world'],
             'args': abstract.concrete_args(c['o']),
             'stdout_kind': c['stdout_kind'], 'xml': bool(c.get('xml'))}
            for c in cases if not c.get('cli')]
    inproc = iter(runlib.run_inproc_many(jobs))
    cli = iter(runlib.run_cli_many([(c['world'], abstract.concrete_args(c['o']), {'timeout': 120})
                                    for c in cases if c.get('cli')]))
    results = [next(cli) if c.get('cli') else next(inproc) for c in cases]
    recs = [(record_cli if c.get('cli') else record)(c, r, ref)
            for c, r, ref in zip(cases, results, refs)]
    verdicts = validate(chk, recs, label)
    drift = 0
    for c, r, rec in zip(cases, results, recs):
        v = verdicts.get(c['id'])
        if v is None:
            chk.machinery('no STD line for %s' % c['id'])
            continue
        chk.traces += 1
        chk.nontrivial.add(json.dumps([[t['seq'] and [(x['k'], x['v'], x['s']) for x in t['seq']]
                                        for t in rec['tests']], rec['buffer'], rec['merged']]))
        clause, arg = v
        if clause == 'DRIFT':
            drift += 1
            continue
        if clause:
            kinds = [c['world']['tests'][t].get('kind', '') for t in c['world']['tests']]
            chk.violation('%s|%s' % (clause, arg if clause in ('C13:not-restored', 'C13:run-aborted') else 'test'),
                          '%s (%s) for kinds %s, options %s%s, streams %s'
                          % (clause, arg, kinds, c['o'], ' + --xml DIR' if c.get('xml') else '',
                             'command line, layers in subprocesses' if c.get('cli') else c['stdout_kind']),
                          {'case': c, 'record': rec,
                           'stdout_tail': r.get('stdout', '')[-3000:],
                           'stderr_tail': r.get('stderr', '')[-1500:],
                           'crash_tb': r.get('crash_tb', '')})
    return drift


def run(chk, tier, seed, replay=None):
    chk.rule = ('(1) TLC: StdStreams.tla - every history of 2 tests, each any interleaving '
                'of <= 2 writes and <= 2 (thorough 3) result events of every kind incl. a '
                'never-started skip, with and without --buffer: NoLeak, Complete, Attributed, '
                'Restored, NeverReplaced, NotAborted; four deviation configs must each '
                'produce a counterexample; a history may start in a layer subprocess '
                '(sys.stderr rebound to sys.stdout; deviation OriginalsAtConfigure). '
                '(2) real in-process runs: every ordered pair '
                '(thorough: also triples) of the 16 outcome kinds (multi-event tests, '
                'subtests, skips from decorator / setUp / body, xfail, unexpected success, '
                'SystemExit) with writes sprinkled over setUp / body / subtests / tearDown / '
                'cleanups (stdout / stderr, with / without newline, via .buffer, none), '
                '--buffer on / off, -v 0..2, sys.stdout a real file / a StringIO / one object '
                'for both streams; --buffer with --xml DIR, most tests writing to exactly one '
                'stream; command-line runs with --buffer whose layers run in subprocesses '
                '(-j 2 / resumed after a tearDown that is not implemented): identities seen by '
                'the hooks inside each process against those before its first test, tokens the '
                'hooks write between tests; TLC decides every clause from the recorded history and '
                'output; distinct = distinct (per-test write/event history, options)')
    chk.assumptions += ['where a write sits relative to the result events of its test is measured '
                        'under stock unittest on the same interpreter',
                        'writes that bypass sys.stdout / sys.stderr (os.write to the fd) are outside the statement',
                        'a test reporting both a skip and a failure (skipped subtest) is a don\'t-care zone '
                        'for completeness only']
    if replay:
        with open(replay) as f:
            r = json.load(f)
        run_cases(chk, [r['case']], 'replay')
        return
    rng = random.Random(seed * 7919 + 13)
    for cfg in ['StdStreams_design', 'StdStreams_nobuf'] + (
            ['StdStreams_redir_q'] if tier == 'quick' else ['StdStreams_redir', 'StdStreams_deep']):
        chk.add_tlc(cfg, tlc.run('StdStreams', cfg, timeout=1800))
    for dev in ('SecondEventReadsOriginal', 'SkipLeavesOrig', 'NoTruncate', 'StopKeepsBuffer',
                'RestoreOnlyIfInstalled', 'OriginalsAtConfigure'):
        res = tlc.run('StdStreams', 'StdStreams_dev_' + dev, timeout=600)
        chk.add_tlc('dev_' + dev, res, expect_ok=False)
        if not res.violation:
            chk.machinery('deviation config %s did not produce a counterexample' % dev)
    for p in ('StdStreams_probe', 'StdStreams_probe2'):
        res = tlc.run('StdStreams', p, timeout=600)
        chk.add_tlc(p, res, expect_ok=False)
        if not res.violation:
            chk.machinery('vacuity probe %s: interesting states unreachable' % p)
    seqs = [list(p) for p in itertools.product(KINDS, repeat=2)] + [[k] for k in KINDS]
    if tier != 'quick':
        seqs += [list(p) for p in itertools.product(KINDS, repeat=3) if rng.random() < 0.6]
        seqs = seqs * 2
    cases = []
    for n, kinds in enumerate(seqs):
        for variant in range(3):
            # variant 2: tests that redirect a std stream themselves (only
            # under --buffer: without it the runner never touches the streams)
            if variant != 1:
                w = make_world('s%d' % n, rng, kinds, two_layers=rng.random() < 0.25,
                               redirects=(variant == 2))
            o = {'verbose': rng.choice([0, 1, 2]), 'buffer': (variant != 1) or rng.random() < 0.3}
            if variant == 1 and o['buffer'] is False:
                pass
            sk = 'merged' if variant != 1 else rng.choice(['file', 'stringio', 'merged'])
            cid = 's%d%s' % (n, 'abc'[variant])
            cases.append({'id': cid, 'world': dict(copy.deepcopy(w), id=cid), 'o': o,
                          'stdout_kind': sk})
    # --buffer together with -D (post-mortem mode runs the tests through a loop of
    # its own); only tests that give the debugger no reason to start
    for n, kinds in enumerate([['pass'], ['pass', 'pass'], ['skip_deco', 'pass'], ['pass', 'skip_deco']] * 2):
        w = make_world('d%d' % n, rng, kinds, two_layers=n % 2 == 1, redirects=False)
        cid = 'd%da' % n
        cases.append({'id': cid, 'world': dict(w, id=cid),
                      'o': {'verbose': rng.choice([0, 1, 2]), 'buffer': True, 'pm': True},
                      'stdout_kind': rng.choice(['merged', 'file'])})
    # --buffer together with --xml DIR (the XML wrapper sits between the result
    # object and the formatter); most tests write to exactly one stream
    rng2 = random.Random(seed * 7919 + 131)
    xseqs = [[k] for k in KINDS] + [list(p) for p in itertools.product(KINDS, repeat=2)
                                    if rng2.random() < (0.35 if tier == 'quick' else 1.0)]
    for n, kinds in enumerate(xseqs):
        cid = 'x%da' % n
        w = make_world(cid, rng2, kinds, two_layers=rng2.random() < 0.25, single=True)
        cases.append({'id': cid, 'world': w, 'xml': True,
                      'o': {'verbose': rng2.choice([0, 1, 2]), 'buffer': True},
                      'stdout_kind': rng2.choice(['merged', 'merged', 'file'])})
    # --buffer in layer subprocesses, through the command line: -j 2, and
    # resumed after a layer whose tearDown raises NotImplementedError
    for n in range(16 if tier == 'quick' else 80):
        cid = 'p%da' % n
        resume = n % 2 == 1
        w = make_child_world(cid, rng2, resume)
        cases.append({'id': cid, 'world': w, 'cli': True,
                      'o': {'verbose': rng2.choice([0, 1, 2]), 'buffer': n % 8 != 6,
                            'j': 1 if resume else 2},
                      'stdout_kind': 'file'})
    chk.sample({'world': cases[37]['world'], 'options': cases[37]['o'],
                'streams': cases[37]['stdout_kind']})
    drift = run_cases(chk, cases, 'runs')
    chk.extra['drift'] = drift
    if drift:
        chk.notes.append('DRIFT: %d runs whose output satisfies every clause but differs from the '
                         'I-spec prediction (not an alarm)' % drift)
