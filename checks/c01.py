"""C01: tests run with exactly their layer stack; layers nest like a stack."""
import random

import corecheck
import worlds

FAM = {'C01'}


def opts(rng):
    o = {'verbose': rng.choice([0, 1, 2])}
    r = rng.random()
    if r < 0.2:
        o['stop'] = True
    if rng.random() < 0.25:
        o['repeat'] = 2
    if rng.random() < 0.15:
        o['j'] = rng.choice([2, 3])
    if rng.random() < 0.1:
        o['shuffle'] = True
        o['shuffle_seed'] = rng.randrange(1000)
    if rng.random() < 0.15:
        o['color'] = True
    return o


def run(chk, tier, seed, replay=None):
    chk.rule = ('worlds = TLC-exported layer DAGs (<=4 layers, ordered bases) x '
                'random hook sets / class+instance kinds / fault vectors '
                '(setUp raise, tearDown raise, tearDown NotImplementedError) x '
                'options (-x, --repeat, -j, --shuffle); distinct = distinct '
                '(graph, outcome facts, options, trace length)')
    chk.assumptions += [
        'TLC 1.8 and the TLA+ modules under /verif/spec',
        'hook-less layers are unobservable (sets are restricted to hooked layers)',
        'the world interpreter harness/world/worldlib.py logs faithfully',
    ]
    if replay:
        corecheck.replay(chk, FAM, replay)
        return
    rng = random.Random(seed * 7919 + 1)
    graphs = corecheck.export_graphs(chk, 4)
    if tier == 'quick':
        corecheck.run_mc(chk, ['Runner_design', 'Runner_probe'],
                         expect_violation=['Runner_probe'])
        n1, n2 = 130, 70
    else:
        corecheck.run_mc(chk, ['Runner_design', 'Runner_deep', 'Runner_deep2',
                               'Runner_hooks', 'Runner_live', 'Runner_probe'],
                         expect_violation=['Runner_probe'], timeout=3000)
        n1, n2 = 2500, 1500
    # sweep: every exported graph at least once, faults frequent
    prof_a = {'sweep': True, 'kinds': 'mixed', 'hooks': 'random',
              'faults': (0.12, 0.12, 0.2), 'outcomes': ['pass', 'fail', 'error'],
              'opts': opts, 'permute_names': True}
    # random: hooks everywhere (fully observable), more faults, all outcomes
    prof_b = {'kinds': 'mixed', 'hooks': 'all', 'faults': (0.2, 0.2, 0.25),
              'outcomes': ['pass', 'fail', 'skip_body', 'td_error', 'subfail'],
              'opts': opts, 'permute_names': True}
    g4 = [g for g in graphs if g['n'] >= 1]
    cases = corecheck.gen_cases(rng, g4, n1, prof_a, 'a')
    cases += corecheck.gen_cases(rng, g4, n2, prof_b, 'b')
    # passing tests only, layer tearDowns fail often, mostly with -x: the run goes on
    # from layer to layer while tear_down_unneeded meets errors half-way
    def opts_c(r):
        o = opts(r)
        o.pop('j', None)
        o['stop'] = r.random() < 0.7
        return o
    prof_c = {'kinds': 'mixed', 'hooks': 'all', 'faults': (0.0, 0.3, 0.08),
              'outcomes': ['pass'], 'opts': opts_c, 'permute_names': True, 'big': 0.3}
    cases += corecheck.gen_cases(rng, g4, 50 if tier == 'quick' else 600, prof_c, 'c')
    # layer setUps fail often, in graphs with several bases per layer: a setUp failing
    # half-way up a stack leaves some of its bases set up for the next layer
    prof_d = {'kinds': 'mixed', 'hooks': 'all', 'faults': (0.3, 0.0, 0.0),
              'outcomes': ['pass'], 'opts': lambda r: {'verbose': r.choice([0, 1])},
              'permute_names': True, 'big': 0.6}
    cases += corecheck.gen_cases(rng, g4, 30 if tier == 'quick' else 400, prof_d, 'd')
    # directed: X(r1, r2, r3) with one root's setUp failing half-way, then Y on one root
    for k in range(24 if tier == 'quick' else 240):
        perm = [1, 2, 3]
        rng.shuffle(perm)
        g = {'n': 5, 'bases': [[], [], [], perm, [rng.choice([1, 2, 3])]]}
        names = worlds.permuted_names(rng, 5)
        bad = names[rng.choice(perm[1:]) - 1]
        w = worlds.make_world('e%d' % k, g, rng, kinds=rng.choice(['class', 'instance', 'mixed']), hooks='all',
                              faults={bad: {'setUp': 'raise'}}, outcomes=['pass'],
                              owners=[names[3], names[4]], names=names)
        cases.append({'id': w['id'], 'world': w, 'o': {'verbose': rng.choice([0, 1])}, 'mode': 'inproc'})
    for c in cases[:3]:
        chk.sample({'world': c['world'], 'options': c['o'], 'mode': c['mode']})
    corecheck.run_cases(chk, FAM, cases)
    chk.extra['cli_worlds_with_children'] = sum(1 for c in cases if c['mode'] == 'cli')
