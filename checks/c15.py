"""C15: stale-bytecode cleanup deletes only orphaned .pyc/.pyo files."""
import json
import os
import random
import tempfile

import fstree
import optionscheck
import tlc

NAMES = ['x.py', 'x.pyc', 'x.pyo', 'y.pyc', 'z.pyo', 'x.pyc.bak', 'pyc', 'X.PYC', '.pyc',
         'y.pycx', 'w.py', 'w.pyc', 'notes.txt', 'xpyc', 'q.pyo', 'q.py', 'tests.py', 'tests.pyc',
         'gone_tests.pyc', 'x.py.orig']
DIRS = ['', 'pkg', 'pkg/inner', '__pycache__', 'pkg/__pycache__', '.git', 'node_modules', 'my-dir',
        'CVS', 'skipme', '1bad', 'pkg/tests', '_darcs/deep', 'pkg_extra', 'pkg_extra/more',
        'fixtures[v1]', 'pkg/fixtures[v1]/data*', 'what?']
# --ignore_dir takes directory names, not patterns: names of the universe that
# contain [ ] * ? (given literally), and names that are no directory of the
# universe but would, read as shell patterns, match pkg, pkg_extra or everything
IGN_LITERAL = ['fixtures[v1]', 'fixtures[v1]', 'data*', 'what?', 'pk?', '[p]kg', 'pkg_*', '*']
DIR_AS_PY = 'y.py'       # a *directory* named like the source of y.pyc


def gen_case(cid, rng):
    paths, contents = {}, {}
    dens = rng.choice([0.12, 0.25, 0.45])
    for d in DIRS:
        if d and rng.random() > 0.75:
            continue
        for n in NAMES:
            if rng.random() < dens:
                p = (d + '/' if d else '') + n
                paths[p] = 'file'
                if not n.endswith('.py'):
                    contents[p] = 'bytes of %s\n' % p
        if rng.random() < 0.15:
            paths[(d + '/' if d else '') + DIR_AS_PY + '/keep.txt'] = 'file'
            contents[(d + '/' if d else '') + DIR_AS_PY + '/keep.txt'] = 'k\n'
    if 'pkg/tests' in {os.path.dirname(p) for p in paths}:
        paths['pkg/tests/__init__.py'] = 'file'
    rootsel = rng.choice(['top', 'top', 'dup', 'nested', 'sibling', 'prefix-sibling', 'prefix-sibling-rev'])
    # prefix-sibling: two search paths of which one's spelling extends the other's
    roots = {'top': [''], 'dup': ['', ''], 'nested': ['', 'pkg'], 'sibling': ['pkg', 'my-dir'],
             'prefix-sibling': ['pkg', 'pkg_extra'], 'prefix-sibling-rev': ['pkg_extra', 'pkg']}[rootsel]
    if rootsel == 'nested':
        paths.setdefault('pkg/y.pyc', 'file')
    if rootsel.startswith('prefix-sibling'):
        paths.setdefault('pkg/y.pyc', 'file')
        paths.setdefault('pkg_extra/y.pyc', 'file')
        paths.setdefault('pkg_extra/more/z.pyo', 'file')
    if rootsel == 'sibling':
        paths.setdefault('pkg/y.pyc', 'file')
        paths.setdefault('my-dir/y.pyc', 'file')
    for p in paths:
        if not p.endswith('.py'):
            contents.setdefault(p, 'bytes of %s\n' % p)
    links = {}
    if rng.random() < 0.3:
        # a directory linked in from elsewhere (the walk follows such links)
        lp = rng.choice(['linked', 'pkg/linked', 'pkg_extra/lnk'])
        if roots[0] == '' or lp.startswith(tuple(r + '/' for r in roots if r)):
            pool = ['a.py', 'a.pyc', 'gone.pyc', 'old.pyo', '__pycache__/a.cpython-312.pyc',
                    '__pycache__/gone.cpython-312.pyc', '__pycache__/x.pyc', 'sub/b.pyo', 'sub/b.py',
                    'sub/__pycache__/c.pyc', 'skipme/z.pyc', 'notes.txt']
            sub = {q: 'file' for q in pool if rng.random() < 0.55}
            sub.setdefault('__pycache__/a.cpython-312.pyc', 'file')
            links[lp] = {'paths': sub, 'contents': {q: 'bytes of linked %s\n' % q for q in sub if not q.endswith('.py')}}
    # orphaned byte-code that is a symbolic link to a file (a source-less module
    # linked in from a shared store or from a data directory of the same tree):
    # the LINK is the orphan; the file behind it - read-only or not, inside or
    # outside the search paths - is "another file"
    flinks = {}
    if rng.random() < 0.3:
        dirs_here = sorted({os.path.dirname(p) for p in paths} & set(DIRS)) or ['']
        for k in range(rng.randint(1, 3)):
            d = rng.choice(dirs_here + ['', 'pkg'])
            lp = (d + '/' if d else '') + rng.choice(['vendored.pyc', 'legacy.pyo', 'shared.pyc', 'w.pyc', 'q.pyo'])
            if lp in paths or lp in flinks:
                continue
            kind = rng.choice(['store', 'store', 'inside', 'inside', 'dangling'])
            if kind == 'store':
                flinks[lp] = {'target': '<store>/blob%d.bin' % k, 'mode': rng.choice([0o444, 0o644, 0o400])}
            elif kind == 'inside':
                # the data file lives in a directory of the tree (searched or not)
                tgt = rng.choice(['pkg/data/legacy%d.bin', 'shared_data/mod%d.bin', '__pycache__/real%d.cpython-312.pyc',
                                  'skipme/blob%d.bin']) % k
                paths[tgt] = 'file'
                contents[tgt] = 'bytes of %s\n' % tgt
                flinks[lp] = {'target': tgt, 'mode': rng.choice([0o444, 0o644])}
            else:
                flinks[lp] = {'target': None}
    keepsel = rng.choice(['', '', '', '-k', '--usecompiled'])
    ignore = ['skipme'] if rng.random() < 0.5 else []
    if rng.random() < 0.4:
        ignore = ignore + rng.sample(IGN_LITERAL, rng.randint(1, 2))
        rng.shuffle(ignore)
    args = ['--list-tests'] + ([keepsel] if keepsel else [])
    for i in ignore:
        args += ['--ignore_dir', i]
    return {'id': cid, 'paths': paths, 'contents': contents, 'roots': roots, 'args': args, 'links': links, 'flinks': flinks,
            'keep': bool(keepsel), 'ignore': ignore,
            'path_flag': rng.choice(['--path', '--test-path'])}


def run(chk, tier, seed, replay=None):
    chk.rule = ('(1) TLC: DiscoveryMC.tla - OrphansCore <= Removed <= OrphansAll, nothing with a source '
                'sibling / below __pycache__ / below an --ignore_dir directory is ever removed, keep => '
                'nothing removed, over every parent-closed subset of a 16-entry universe x root lists. '
                '(2) real runs: trees over 20 file names (x.py / x.pyc / x.pyo, orphans, look-alikes '
                'x.pyc.bak, x.py.orig, pyc, X.PYC, .pyc, y.pycx, xpyc, a directory named y.py) x 18 directories '
                '(packages, __pycache__, .git, node_modules, my-dir, 1bad, CVS, _darcs, directories named fixtures[v1], data*, what?) x '
                '--ignore_dir lists (skipme, literal names with [ ] * ? that are / are not directories of the tree) x '
                'roots {top}, {top, top}, {top, pkg}, {pkg, my-dir}, {pkg, pkg_extra} x {none, -k, --usecompiled} x --path / '
                '--test-path, 30% with a directory linked in from outside the tree, 30% with .pyc / .pyo entries that are symbolic links to a file '
                '(read-only 0444 / 0400 or 0644; in a store outside every search path, in a data directory of the tree, below __pycache__ or an ignored '
                'directory, or dangling); the file system is snapshotted before and after a --list-tests run - per entry its type, lstat permission bits '
                'and content hash, per symbolic link its spelling plus type, stat permission bits and content of what it leads to, also for the '
                'link targets outside the search paths - and TLC judges the difference (a changed mode is a modification); '
                'distinct = distinct (tree, options)')
    chk.assumptions += ['a file literally named ".pyc" / ".pyo" and orphans below non-identifier or IGNORE_FOLDERS '
                        'directories are don\'t-care for completeness (the safety clauses still apply)',
                        'a symlinked directory (target outside the tree) counts as a directory with the target\'s content',
                        'a symbolic link to a file (or a dangling one) counts as a file of its directory: an orphaned x.pyc that '
                        'is a link is removed as a link, the file it leads to is another file']
    rng = random.Random(seed * 7919 + 15)
    if replay and optionscheck.is_replay(replay):
        optionscheck.replay(chk, replay, ['C15:'])
        return
    if replay:
        with open(replay) as f:
            cases = [json.load(f)['case']]
    else:
        # --usecompiled / -k on their way through get_options (Options.tla, Trace_Options)
        optionscheck.run(chk, tier, seed, ['C15:'], mc=False)
        chk.add_tlc('DiscoveryMC', tlc.run('DiscoveryMC', 'DiscoveryMC', timeout=1800))
        n = 300 if tier == 'quick' else 6000
        cases = []
        for i in range(n):
            c = gen_case('s%d' % i, rng)
            c['order'] = rng.choice(['sorted', 'reverse', 'hash'])
            cases.append(c)
    results = fstree.run_cases(cases)
    recs = []
    for c, r in zip(cases, results):
        T = fstree.tree_record(r['paths'], c['roots'], keep=c['keep'], ignore_dir=c['ignore'], linkdirs=r['linkdirs'])
        crashed = ''
        if r['rc'] not in (0, 1) or 'Traceback (most recent call last)' in r['stderr']:
            crashed = 'rc=%s %s' % (r['rc'], r['stderr'].strip().splitlines()[-1:] or '')
        recs.append({'id': c['id'], 'what': 'clean', 'T': T, 'imported': [], 'listed': [],
                     'deleted': r['deleted'], 'changed': r['changed'], 'crashed': crashed})
    chk.sample({'paths': sorted(cases[0]['paths']), 'roots': cases[0]['roots'], 'args': cases[0]['args'],
                'deleted': recs[0]['deleted']})
    fd, path = tempfile.mkstemp(prefix='verif-clean-', suffix='.json')
    with os.fdopen(fd, 'w') as f:
        json.dump(recs, f)
    try:
        tres = tlc.run('Trace_Discovery', 'Trace_Discovery', env={'TRACE_FILE': path}, timeout=3000)
    finally:
        os.unlink(path)
    chk.add_tlc('Trace_Discovery', tres)
    verdicts = {m[1]: (m[2], m[3]) for m in tlc.printed_tuples(tres.out, 'DISC')}
    ndel = 0
    for c, r, rec in zip(cases, results, recs):
        v = verdicts.get(c['id'])
        if v is None:
            chk.machinery('no DISC line for %s' % c['id'])
            continue
        chk.traces += 1
        ndel += bool(rec['deleted'])
        chk.nontrivial.add(json.dumps([sorted(c['paths']), c['roots'], c['args']]))
        clause, arg = v
        if clause == 'DRIFT':
            chk.extra['drift'] = chk.extra.get('drift', 0) + 1
        elif clause:
            chk.violation(clause, '%s (%s): roots %s args %s deleted %s changed %s'
                          % (clause, arg, c['roots'], c['args'], rec['deleted'][:6], rec['changed'][:4]),
                          {'case': c, 'record': rec, 'stdout_tail': r['stdout'][-1500:], 'stderr_tail': r['stderr'][-1500:]})
    chk.extra['runs_that_deleted_something'] = ndel
    chk.extra['runs_that_deleted_a_symlinked_bytecode_file'] = sum(
        any(p in (c.get('flinks') or {}) for p in rec['deleted']) for c, rec in zip(cases, recs))
    chk.extra['runs_with_bytecode_below_a_literally_ignored_glob_name'] = sum(
        any(i in c['ignore'] and any(('/' + p).find('/' + i + '/') >= 0 and p[-4:] in ('.pyc', '.pyo') for p in c['paths'])
            for i in ('fixtures[v1]', 'data*', 'what?')) for c in cases)
