"""C02: the verdict is 'failed' exactly when something went wrong, in every mode."""
import copy
import random

import corecheck
import worlds

FAM = {'C02'}
BAD = worlds.SINGLE_EVENT_BAD + worlds.MULTI_EVENT
LOOKALIKES = ['7 0 0', '0 0 0', ' 12 0 0 ', '3 1 0']


def layer_owners(w):
    return [cs['layer'] for cs in w['classes'].values() if cs.get('layer')]


def add_noise(rng, w, lookalike=False):
    """tests and layers write to stdout / stderr / fd 2 (never changes what
    happened, only what the channels carry)."""
    k = 0
    for tid, t in w['tests'].items():
        if rng.random() < 0.6:
            k += 1
            stream = rng.choice(['stdout', 'stderr'])
            via = rng.choice(['text', 'text', 'fd'])
            tok = 'NOISE%d' % k
            if lookalike and rng.random() < 0.5:
                tok = rng.choice(LOOKALIKES)
            t.setdefault('body', [])
            wr = {'a': 'write', 'tok': tok, 'stream': stream,
                  'via': via, 'nl': rng.random() < 0.85}
            if via == 'fd' and rng.random() < 0.4:
                wr['rawhex'] = rng.choice(['fffe', '80', 'c3'])     # bytes that are not UTF-8
            t['body'] = [wr] + list(t['body'])
    if rng.random() < 0.4:
        # ... and when the interpreter of a layer subprocess shuts down,
        # i.e. after its report
        w.setdefault('env', {})['fd2_at_exit'] = rng.choice(
            [['bye'], ['Exception ignored in: <x>', '  File "y", line 1'], ['a', 'b', 'c']])
    for l in w['layers'].values():
        if rng.random() < 0.3:
            k += 1
            l.setdefault('writes', {})[rng.choice(['setUp', 'tearDown'])] = [
                {'tok': 'LNOISE%d' % k, 'stream': rng.choice(['stdout', 'stderr']),
                 'via': rng.choice(['text', 'fd'])}]


def force_children(rng, w, o):
    """make the world run (some of) its layers in subprocesses"""
    if rng.random() < 0.5:
        o['j'] = rng.choice([2, 3])
        return 'j'
    for l in w['layers'].values():
        if 'tearDown' in l.get('hooks', ()) and l.get('tearDown', 'ok') == 'ok':
            l['tearDown'] = 'notimpl'
            return 'resume'
    o['j'] = 2
    return 'j'


def trouble(rng, w, o, kind):
    """scripted trouble outside the tests' own outcomes"""
    if kind == 'import':
        # ... also when the level options select none of the module's tests
        r = rng.random()
        if r < 0.25:
            o['only_level'] = rng.choice([0, 2, 3])
        elif r < 0.4:
            o['at_level'] = rng.choice([2, 3])
        elif r < 0.5:
            o['all'] = True
        # the test module cannot be imported (whatever it raises)
        w['import'] = rng.choice([
            'raise', {'raise': 'ValueError'}, {'raise': 'AttributeError'},
            {'raise': 'SystemExit', 'code': 0}, {'raise': 'SystemExit', 'code': None},
            {'raise': 'SystemExit', 'code': 3}, {'raise': 'NotImplementedError'}])
    elif kind == 'spawn_fail':
        force_children(rng, w, o)
        w.setdefault('env', {})['spawn_fail'] = ['*']
        w['env']['spawn_errno'] = rng.choice(['ENOMEM', 'EAGAIN', 'ENOENT', 'EACCES', 'EMFILE'])
    elif kind == 'child_crash_test':
        force_children(rng, w, o)
        tid = rng.choice(list(w['tests']))
        how = rng.choice(['exit0', 'exit3', 'kill', 'segv'])
        ph = rng.choice(['setUp', 'body', 'tearDown'])
        w['tests'][tid][ph] = [{'a': 'crash', 'how': how, 'only_child': True}]
    elif kind == 'child_crash_layer':
        force_children(rng, w, o)
        ls = [l for l in w['layers'].values() if 'setUp' in l.get('hooks', ())]
        if ls:
            l = rng.choice(ls)
            hook = rng.choice(['setUp', 'tearDown'])
            if l.get(hook, 'ok') == 'ok':
                l[hook] = {'crash': rng.choice(['exit0', 'exit3', 'kill', 'sysexit0',
                                                'sysexit', 'memerr']),
                           'only_child': True}
    elif kind == 'report_cut':
        force_children(rng, w, o)
        # something to report, then the report is cut / the child dies writing it
        tid = rng.choice(list(w['tests']))
        w['tests'][tid].update(copy.deepcopy(worlds.OUTCOMES[rng.choice(['fail', 'error'])]))
        env = w.setdefault('env', {})
        env['stderr_cut'] = rng.choice([0, 3, 5, 6, 6, 6, 7, 12])
        if rng.random() < 0.6:
            env['die_at_cut'] = rng.choice(['exit0', 'exit3', 'kill'])
    elif kind == 'lookalike':
        force_children(rng, w, o)
        # a bad test and, earlier in the same child, a line on fd 2 that
        # looks like the report header
        by_cls = [cs['tests'] for cs in w['classes'].values() if len(cs['tests']) >= 1]
        ts = rng.choice(by_cls)
        w['tests'][ts[-1]].update(copy.deepcopy(worlds.OUTCOMES[rng.choice(['fail', 'error'])]))
        t0 = w['tests'][ts[0]]
        t0['setUp'] = [{'a': 'write', 'tok': rng.choice(LOOKALIKES[:3]),
                        'stream': 'stderr', 'via': 'fd'}] + list(t0.get('setUp', ()))
    elif kind == 'child_import_crash':
        force_children(rng, w, o)
        w['import'] = {'only_child': True,
                       'crash': rng.choice(['exit0', 'exit3', 'kill'])}


def run(chk, tier, seed, replay=None):
    chk.rule = ('worlds = TLC-exported layer DAGs x outcome assignments (zero, one '
                'or several bad outcomes of every kind, layer setUp/tearDown '
                'failures, NotImplementedError) x trouble {none, module import '
                'fails, spawn fails, child dies in a test phase / layer hook / at '
                'import by exit 0 / exit 3 / SIGKILL / SIGSEGV} x mode {in-process, '
                'resumed child, -j 2..3} x noise on stdout / stderr / fd 2 incl. '
                'report-header look-alikes; each world also runs without noise '
                'and TLC compares the verdicts; distinct = distinct (graph, '
                'outcome facts, options, trace length)')
    chk.assumptions += ['--list-tests is outside the quantifier',
                        'bad(trace) is derived from the recorded events, not the plan']
    if replay:
        corecheck.replay(chk, FAM, replay)
        return
    rng = random.Random(seed * 7919 + 2)
    graphs = [g for g in corecheck.export_graphs(chk, 4) if g['n'] >= 1]
    if tier == 'quick':
        corecheck.run_mc(chk, ['Runner_design'])
        corecheck.run_mc(chk, ['System_q', 'System_asbuilt_q', 'System_dev_skipped_q'], module='System',
                         expect_violation=['System_dev_skipped_q'])
        n_plain, n_trouble, n_noise = 110, 60, 40
    else:
        corecheck.run_mc(chk, ['Runner_design', 'Runner_deep2'], timeout=3000)
        corecheck.run_mc(chk, ['System_design', 'System_asbuilt', 'System_dev_skipped'], module='System',
                         expect_violation=['System_dev_skipped'], timeout=3000)
        n_plain, n_trouble, n_noise = 1500, 700, 500

    def opts(r):
        o = {'verbose': r.choice([0, 1, 2])}
        if r.random() < 0.15:
            o['repeat'] = 2
        if r.random() < 0.15:
            o['stop'] = True
        if r.random() < 0.2:
            o['buffer'] = True
        if r.random() < 0.3:
            o['color'] = True
        return o
    # mostly-good worlds so that "passed" verdicts are exercised as often as
    # "failed" ones
    mix = ['pass'] * 8 + worlds.GOOD + BAD
    prof = {'sweep': True, 'kinds': 'mixed', 'hooks': 'random', 'outcomes': mix,
            'tests_per_layer': (1, 3), 'unit_tests': (0, 2), 'opts': opts,
            'faults': (0.05, 0.05, 0.12)}
    prof_good = dict(prof, outcomes=['pass'] * 4 + worlds.GOOD,
                     faults=(0.0, 0.0, 0.15), sweep=False)
    cases = corecheck.gen_cases(rng, graphs, n_plain // 2, prof, 'a')
    cases += corecheck.gen_cases(rng, graphs, n_plain - n_plain // 2, prof_good, 'g')
    tcases = corecheck.gen_cases(rng, graphs, n_trouble, prof_good, 't')
    kinds = ['import', 'spawn_fail', 'child_crash_test', 'child_crash_layer',
             'child_import_crash', 'report_cut', 'lookalike']
    for k, c in enumerate(tcases):
        kind = kinds[k % len(kinds)]
        trouble(rng, c['world'], c['o'], kind)
        c['trouble'] = kind
        c['mode'] = 'cli'
    cases += tcases
    # noise pairs: same world with and without noise, in a child mode
    peers = {}
    ncases = corecheck.gen_cases(rng, graphs, n_noise, prof, 'n')
    for c in ncases:
        force_children(rng, c['world'], c['o'])
        c['mode'] = 'cli'
        w2 = copy.deepcopy(c['world'])
        w2['id'] = c['id'] + 'noise'
        add_noise(rng, w2, lookalike=rng.random() < 0.5)
        c2 = {'id': w2['id'], 'world': w2, 'o': dict(c['o']), 'mode': 'cli'}
        cases += [c, c2]
        peers[c['id']] = peers[c2['id']] = [c['id'], c2['id']]
    # nothing goes wrong, but the children's interpreters write to fd 2 when
    # they shut down, i.e. after their report
    qcases = corecheck.gen_cases(rng, graphs, 12 if tier == 'quick' else 120,
                                 dict(prof_good, faults=(0.0, 0.0, 0.0)), 'q')
    for c in qcases:
        force_children(rng, c['world'], c['o'])
        c['mode'] = 'cli'
        c['world'].setdefault('env', {})['fd2_at_exit'] = rng.choice(
            [['bye'], ['Exception ignored in: <x>', '  File "y", line 1'], ['a'] * 30])
        if rng.random() < 0.4:
            c['world']['env']['fd2_at_exit_nonl'] = True
    cases += qcases
    # --repeat N: a test that fails in the first iteration only (state left over
    # from the first run); the failure happened, whatever later iterations do
    rcases = corecheck.gen_cases(rng, graphs, 10 if tier == 'quick' else 120,
                                 dict(prof_good, outcomes=['pass'], faults=(0.0, 0.0, 0.0),
                                      tests_per_layer=(1, 2), unit_tests=(1, 2)), 'r')
    for c in rcases:
        c['o'] = {'verbose': rng.choice([0, 1]), 'repeat': rng.choice([2, 3])}
        tid = rng.choice(sorted(c['world']['tests']))
        c['world']['tests'][tid] = dict(worlds.OUTCOMES['fail'], kind='fail',
                                        body=[{'a': 'fail', 'only_iter': 1}])
        r = rng.random()
        if r < 0.35:
            c['o']['j'] = 2
            c['mode'] = 'cli'
        elif r < 0.6:
            force_children(rng, c['world'], c['o'])
            c['mode'] = 'cli'
    cases += rcases
    # nothing fails but layer tearDowns: in the final sweep, half-way through a sweep that a
    # NotImplementedError then cuts short, in graphs with several bases
    dcases = corecheck.gen_cases(rng, graphs, 30 if tier == 'quick' else 300,
                                 dict(prof_good, outcomes=['pass'], faults=(0.0, 0.3, 0.25), hooks='all',
                                      tests_per_layer=(1, 2), unit_tests=(0, 1), big=0.4), 'd')
    for c in dcases:
        c['o'] = {'verbose': rng.choice([0, 1]), 'stop': rng.random() < 0.3}
    cases += dcases
    # -D: the debugger (its stdin is at end of file) ends the run after the first failure
    pcases = corecheck.gen_cases(rng, graphs, 3 if tier == 'quick' else 30,
                                 dict(prof_good, outcomes=['pass', 'error', 'fail'], faults=(0.0, 0.0, 0.0),
                                      tests_per_layer=(1, 2), unit_tests=(1, 2)), 'pm')
    for c in pcases:
        c['o'] = {'verbose': rng.choice([0, 1]), 'pm': True}
        tid = sorted(c['world']['tests'])[0]
        c['world']['tests'][tid] = dict(worlds.OUTCOMES['error'], kind='error')
    cases += pcases
    for c in cases[:2] + tcases[:2]:
        chk.sample({'world': c['world'], 'options': c['o'], 'mode': c['mode'],
                    'trouble': c.get('trouble', '')})
    corecheck.run_cases(chk, FAM, cases, peers=peers)
    chk.extra['trouble_worlds'] = len(tcases)
    chk.extra['noise_pairs'] = len(ncases)
