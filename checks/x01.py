"""X01 (not a listed property): the text interface per test - dots, names and
the --progress line of OutputFormatter - against Progress.tla."""
import json
import os
import random
import subprocess
import tempfile

import runlib
import tlc

HERE = os.path.dirname(os.path.abspath(__file__))
WORKER = os.path.join(os.path.dirname(HERE), 'harness', 'progress_worker.py')


def gen_case(rng, cid):
    v = rng.choice([0, 1, 1, 2, 3])
    p = rng.random() < 0.7
    W = rng.choice([24, 30, 40, 60, 80, 80, 132])
    layers = []
    for _ in range(rng.randint(1, 3)):
        n = rng.choice([1, 2, 3, 5, 9, 10, 11, 12, 101])
        tests = []
        for _i in range(n):
            ln = rng.choice([1, 3, 8, 15, 20, 30, 45, 70, 120])
            if v > 1 and p and rng.random() < 0.7:
                ln = min(ln, 8)          # names that fit: the clauses apply
            tests.append({'len': ln, 'paren': rng.choice([None, 2, 5, 12, 40]),
                          'kind': rng.choice(['success', 'success', 'success', 'skipped', 'error', 'failure']),
                          'gc': rng.choice([0, 0, 0, 1, 12]), 'sl': rng.choice([0, 3, 20]),
                          'secs': rng.choice([0.001, 1.5, 12.25, 123.0])})
        layers.append(tests)
    return {'id': cid, 'W': W, 'v': v, 'p': p, 'layers': layers}


def run(chk, tier, seed, replay=None):
    chk.rule = ('(1) TLC: Progress.tla - start_test / test_success / test_skipped / test_error / stop_test / '
                'stop_tests as actions over last_width, test_width and a W-column terminal with deferred wrap; '
                'NoResidue, NoWrapV1, CleanEnd, Covers, termination; three deviation configs give counterexamples. '
                '(2) code -> spec: the real OutputFormatter is driven along random call sequences (verbosity 0..3, '
                '--progress on / off, widths 24..132, 1..101 tests, name lengths 1..120, every outcome kind, gc counts); '
                'after every call TLC compares last_width / test_width and the terminal replayed from what was really '
                'written with the fold of the spec\'s transition functions (DRIFT) and evaluates the P-clauses; '
                'distinct = distinct (W, v, p, call sequence)')
    chk.assumptions += ['terminal with deferred wrap (xterm / VT100 semantics); widths >= 24',
                        'at -vv / -vvv names are not shortened by the code: lines that wrap are outside NoResidue / CleanEnd']
    for cfg in ['Progress_design', 'Progress_wide']:
        chk.add_tlc(cfg, tlc.run('Progress', cfg, timeout=900))
    for dev in ('RoomOffByOne', 'ForgetDescWidth', 'NoFinalErase'):
        res = tlc.run('Progress', 'Progress_dev_' + dev, timeout=900)
        chk.add_tlc('dev_' + dev, res, expect_ok=False)
        if not res.violation:
            chk.machinery('Progress_dev_%s did not produce a counterexample' % dev)
    rng = random.Random(seed * 7919 + 101)
    if replay:
        with open(replay) as f:
            cases = [json.load(f)['case']]
    else:
        cases = [gen_case(rng, 'g%d' % i) for i in range(300 if tier == 'quick' else 4000)]
    p = subprocess.run([runlib.PY, WORKER], input=json.dumps(cases).encode(), env=runlib.base_env(),
                       stdout=subprocess.PIPE, stderr=subprocess.PIPE, timeout=1800)
    if p.returncode != 0:
        chk.machinery('progress worker failed: %s' % p.stderr.decode('utf-8', 'replace')[-1500:])
        return
    recs = json.loads(p.stdout)
    chk.sample({'case': cases[0], 'record': {'id': recs[0]['id'], 'ev': recs[0]['ev'][:6]}})
    fd, path = tempfile.mkstemp(prefix='verif-prog-', suffix='.json')
    with os.fdopen(fd, 'w') as f:
        json.dump(recs, f)
    try:
        res = tlc.run('Trace_Progress', 'Trace_Progress', env={'TRACE_FILE': path}, timeout=3000, jvm=('-Xss512m',))
    finally:
        os.unlink(path)
    chk.add_tlc('Trace_Progress', res)
    verdicts = {m[1]: m[2:] for m in tlc.printed_tuples(res.out, 'PROG')}
    drift = 0
    for c, r in zip(cases, recs):
        v = verdicts.get(c['id'])
        if v is None:
            chk.machinery('no PROG line for %s' % c['id'])
            continue
        chk.traces += 1
        chk.nontrivial.add(json.dumps(c, sort_keys=True))
        err, dr, at = v
        if err:
            chk.violation(err, '%s at call %s of %s (W=%d v=%d p=%s)' % (err, at, c['id'], c['W'], c['v'], c['p']),
                          {'case': c, 'calls': r['ev'][max(0, int(at) - 3):int(at) + 1]})
        elif dr:
            drift += 1
            if drift <= 5:
                chk.notes.append('DRIFT: %s at call %s of %s: %s' % (dr, at, c['id'],
                                                                     json.dumps(r['ev'][max(0, int(at) - 2):int(at)])[:600]))
    chk.extra['drift'] = drift
