"""C20: strongly connected components behind the cyclic-garbage report."""
import itertools
import json
import os
import random
import re
import tempfile

import corecheck
import runlib
import tlc


def graph_jobs(rng, n, edges, k, tier):
    """several construction histories of the same digraph"""
    nodes = ['n%d' % i for i in range(1, n + 1)]
    succ = {x: [] for x in nodes}
    for a, b in edges:
        succ[nodes[a]].append(nodes[b])
    jobs = []
    variants = [('hashable', False), ('id-eq', False), ('id-plain', True)]
    if tier == 'quick':
        variants = [rng.choice(variants), ('id-eq', rng.random() < 0.5)]
    for vi, (mode, ctor) in enumerate(variants):
        order = nodes[:]
        rng.shuffle(order)
        # split add_nodes into chunks, neighbours added in 1..2 calls per node
        cut = rng.randint(0, n)
        add_order = [c for c in (order[:cut], order[cut:]) if c]
        unknown = ['u1', 'u2'] if rng.random() < 0.4 else []
        calls = []
        noentry = []
        for x in rng.sample(nodes, n):
            nbs = succ[x][:]
            rng.shuffle(nbs)
            if not nbs and rng.random() < 0.5:
                noentry.append(x)        # add_neighbors is never called for x
                continue
            extra = [rng.choice(unknown)] if unknown and rng.random() < 0.5 else []
            if len(nbs) > 1 and rng.random() < 0.4:
                calls.append([x, nbs[:1] + extra])
                calls.append([x, nbs[1:]])
            else:
                calls.append([x, nbs + extra])
        if unknown and rng.random() < 0.5:
            calls.append([unknown[0], nodes[:1]])       # neighbours for an unknown node
        for trivial in (False, True):
            jobs.append({'op': 'sccs', 'id': 'g%d_%d%s_%d' % (k, vi, mode, trivial),
                         'nodes': nodes, 'succ': succ, 'mode': mode, 'nodes_in_ctor': ctor,
                         'add_order': add_order, 'unknown': unknown,
                         'neighbor_calls': calls, 'trivial': trivial, 'noentry': noentry})
    return jobs


MODES = ['hashable', 'id-eq', 'id-plain']


def q(trivial, take=None, keep=False):
    return {'op': 'sccs', 'trivial': trivial, 'take': take, 'keep': keep}


def both_modes(rng):
    """two complete queries in a row, one per mode, in either order"""
    t = rng.random() < 0.5
    return [q(t), q(not t)]


def random_queries(rng):
    """nothing, or 1..3 queries in a row: either mode, taken completely or only
    in part (the generator then closed, or left suspended)"""
    if rng.random() < 0.3:
        return []
    out = []
    for _ in range(rng.choice([1, 1, 2, 2, 3])):
        take = None if rng.random() < 0.55 else rng.randint(1, 2)
        out.append(q(rng.random() < 0.5, take, take is not None and rng.random() < 0.4))
    return out


def history_job(hid, mode, universe, muts, queries, rng, first=()):
    """mutators `muts` with the query block queries(rng) after each of them
    (`first`: queries before the first mutator); the first step goes through
    the constructor when it adds nodes and the coin says so"""
    steps = list(first)
    for i, m in enumerate(muts):
        m = dict(m)
        if i == 0 and not steps and m['op'] == 'add_nodes' and rng.random() < 0.4:
            m['op'] = 'ctor'
        steps.append(m)
        steps += queries(rng)
    job = {'op': 'sccs_history', 'id': hid, 'mode': mode, 'universe': universe,
           'steps': steps}
    if mode == 'hashable' and random.Random(hid).random() < 0.4:
        # the caller passes one set object of its own, refilled for every call
        job['argstyle'] = 'scratch'
    return job


def exhaustive_histories(rng, tier):
    """(A) two labels, the whole mutator alphabet of DiGraphApi.tla (add_nodes
    of every chunk, add_neighbors of every node with every neighbour set, known
    or not): every sequence of 3 mutators; (B) three nodes, then every sequence
    of 3 (thorough: 4) add_neighbors calls with at most one neighbour.  Each
    sequence once with both modes asked after every mutator (this covers all
    its prefixes too) and, for a sample, with random query blocks."""
    jobs = []
    u2 = ['n1', 'n2']
    sub2 = [[], ['n1'], ['n2'], ['n1', 'n2']]
    alpha_a = [{'op': 'add_nodes', 'nodes': c} for c in sub2] + \
              [{'op': 'add_neighbors', 'node': x, 'nbs': c} for x in u2 for c in sub2]
    u3 = ['n1', 'n2', 'n3']
    alpha_b = [{'op': 'add_neighbors', 'node': x, 'nbs': c}
               for x in u3 for c in [[]] + [[y] for y in u3]]
    fams = [('A', u2, alpha_a, 3, []),
            ('B', u3, alpha_b, 3 if tier == 'quick' else 4,
             [{'op': 'add_nodes', 'nodes': u3}])]
    modes = MODES if tier != 'quick' else None
    for name, uni, alpha, length, prefix in fams:
        for k, seq in enumerate(itertools.product(alpha, repeat=length)):
            muts = prefix + list(seq)
            for mode in modes or [rng.choice(MODES)]:
                jobs.append(history_job('h%s%d_%s_all' % (name, k, mode), mode, uni, muts,
                                        both_modes, rng))
            if tier != 'quick' or rng.random() < 0.35:
                mode = rng.choice(MODES)
                jobs.append(history_job('h%s%d_%s_rnd' % (name, k, mode), mode, uni, muts,
                                        random_queries, rng, first=random_queries(rng)))
    return jobs


def random_histories(rng, count):
    """2..6 nodes (sometimes a label that never becomes a node), 3..12 mutators
    in any order - neighbours before their nodes exist, repeated and empty
    arguments - and queries anywhere"""
    jobs = []
    for k in range(count):
        n = rng.randint(2, 6)
        uni = ['n%d' % i for i in range(1, n + 1)]
        pool = uni + (['u1'] if rng.random() < 0.3 else [])
        todo = uni[:]
        rng.shuffle(todo)
        muts = []
        for _ in range(rng.randint(3, 12)):
            if todo and (not muts or rng.random() < 0.3):
                cut = rng.randint(1, len(todo))
                chunk, todo = todo[:cut], todo[cut:]
                if rng.random() < 0.2:
                    chunk = chunk + [rng.choice(uni)]       # again / twice
                muts.append({'op': 'add_nodes', 'nodes': chunk})
            else:
                nbs = [x for x in pool if rng.random() < rng.choice([0.15, 0.4])]
                rng.shuffle(nbs)
                if nbs and rng.random() < 0.1:
                    nbs.append(nbs[0])
                muts.append({'op': 'add_neighbors', 'node': rng.choice(pool), 'nbs': nbs})
        mode = rng.choice(MODES)
        jobs.append(history_job('hR%d_%s' % (k, mode), mode, pool, muts, random_queries, rng,
                                first=random_queries(rng) if rng.random() < 0.2 else ()))
    return jobs


def history_record(job, observed, rid=None):
    """the executed steps with what was observed, for Trace_Scc"""
    steps = []
    for s, o in zip(job['steps'], observed['steps']):
        t = {k: v for k, v in s.items()
             if k not in ('take', 'keep', 'model_obs', 'model_exhausted')}
        t.update(o)
        steps.append(t)
    return {'id': rid or job['id'], 'steps': steps}


def history_signature(clause, job, step, ctx):
    s = job['steps'][step - 1]
    trig = 'mutator' if s['op'] != 'sccs' else \
        ('trivial-mode' if s['trivial'] else 'default-mode')
    return '%s|%s|%s' % (clause, trig, ctx)


def counterexample_history(out):
    """the history of a DiGraphApi error trace (variable `last` of its states)"""
    steps = []
    for m in re.finditer(r'/\\ last = ', out):
        v = tlc.parse_value(out[m.end():])
        lab = lambda xs: ['n%d' % x for x in sorted(xs)]         # noqa: E731
        if v['op'] == 'add_nodes':
            steps.append({'op': 'add_nodes', 'nodes': lab(v['set'])})
        elif v['op'] == 'add_neighbors':
            steps.append({'op': 'add_neighbors', 'node': 'n%d' % v['node'],
                          'nbs': lab(v['set'])})
        elif v['op'] == 'sccs':
            ys = [lab(c) for c in v['ys']]
            s = q(v['trivial'], None if v['exhausted'] else len(ys))
            s['model_obs'] = ys
            s['model_exhausted'] = v['exhausted']
            steps.append(s)
    return steps


def validate(chk, recs, label):
    fd, path = tempfile.mkstemp(prefix='verif-scc-', suffix='.json')
    with os.fdopen(fd, 'w') as f:
        json.dump(recs, f)
    try:
        res = tlc.run('Trace_Scc', 'Trace_Scc', env={'TRACE_FILE': path}, timeout=3000)
    finally:
        os.unlink(path)
    chk.add_tlc('Trace_Scc ' + label, res)
    v = {m[1]: m[2] for m in tlc.printed_tuples(res.out, 'SCC')}
    v.update({m[1]: tuple(m[2:5]) for m in tlc.printed_tuples(res.out, 'SCCH')})
    return v


def signature(clause, job):
    """clause + the trigger class (the KeyError defect needed a node without
    neighbour entry in default mode)"""
    trig = 'default-mode' if not job['trivial'] else 'trivial-mode'
    if clause == 'C20:raised' and job['noentry']:
        trig += ',node-without-neighbour-entry'
    return '%s|%s' % (clause, trig)


def report_history(chk, job, observed, verdict, prefix=''):
    clause, step, ctx = verdict
    s = job['steps'][step - 1]
    o = observed['steps'][step - 1]
    calls = ['%s(%s)' % (t['op'], t['nodes'] if 'nodes' in t else
                         '%s, %s' % (t['node'], t['nbs']) if 'nbs' in t else
                         'trivial=%s, take=%s' % (t['trivial'], t['take']))
             for t in job['steps'][:step]]
    chk.violation(history_signature(clause, job, step, ctx),
                  '%s%s at step %d (%s) of the history %s on %s nodes -> %r'
                  % (prefix, clause, step, ctx, '; '.join(calls), job['mode'],
                     o.get('obs') if s['op'] == 'sccs' and not o['raised'] else o),
                  {'job': job, 'observed': observed, 'failing_step': step, 'context': ctx})


def run(chk, tier, seed, replay=None):
    chk.rule = ('(1) TLC: Tarjan.tla (one action per loop iteration of DiGraph.sccs) for '
                'all 512 digraphs on 3 nodes with EVERY set-iteration order (root choice, '
                'neighbour push order), nodes without neighbour entry, both modes; '
                'thorough: all 65 536 digraphs on 4 nodes in canonical order; invariants: '
                'result = SccOracle classes, each once, stack discipline, termination. '
                '(2) TLC: DiGraphApi.tla, the API history of one DiGraph object over 3 labels '
                '(thorough: 4): add_nodes / add_neighbors with every argument (unknown nodes, '
                'unknown neighbours) and sccs in both modes, taken completely or in part, in '
                'every order and to every length; every answer = the oracle on the graph as '
                'it is then, for the recomputing and for a remembering implementation; the '
                'StaleCache deviation must give a counterexample, which is executed on the '
                'real class. '
                '(3) real DiGraph.sccs: every digraph with self-loops on <= 3 nodes '
                '(thorough: 4) x construction histories (ctor / add_nodes chunks / split '
                'add_neighbors calls / edges to unknown nodes / nodes without neighbour '
                'entry) x hashable, identity-keyed and identity-keyed-but-==-equal nodes '
                'x both modes, random digraphs up to 9 nodes; '
                '(4) real DiGraph, API histories on one object: every sequence of 3 mutators '
                'of the full alphabet on 2 labels and of 3 (thorough: 4) add_neighbors calls '
                'on 3 nodes with both modes asked after every mutator, the same with random '
                'query blocks (none / repeated / partially consumed generators), random '
                'histories on up to 6 nodes; every query judged at its point of the history. '
                'TLC evaluates the oracle; '
                'distinct = distinct (graph, mode, trivial) + distinct (history, mode)')
    rng = random.Random(seed * 7919 + 20)
    hrng = random.Random(seed * 7919 + 2020)
    if replay:
        with open(replay) as f:
            r = json.load(f)
        out = runlib.run_worker('funcs_worker.py', [r['job']])
        if r['job']['op'] == 'sccs_history':
            rec = history_record(r['job'], out[0], 'replay')
            for rid, verdict in validate(chk, [rec], 'replay').items():
                report_history(chk, r['job'], out[0], verdict, 'replayed: ')
            return
        rec = {'id': 'replay', 'nodes': r['job']['nodes'], 'succ': r['job']['succ'],
               'trivial': r['job']['trivial'], 'obs': out[0]['obs'], 'raised': out[0]['raised']}
        for rid, clause in validate(chk, [rec], 'replay').items():
            chk.violation(signature(clause, r['job']), 'replayed: %r' % (out[0],), r)
        return
    cfgs = ['Tarjan_q', 'Tarjan_live'] + ([] if tier == 'quick' else ['Tarjan_4'])
    for cfg in cfgs:
        chk.add_tlc(cfg, tlc.run('Tarjan', cfg, timeout=3000))
    res = tlc.run('Tarjan', 'Tarjan_dev', timeout=300)
    chk.add_tlc('Tarjan_dev', res, expect_ok=False)
    if not res.violation:
        chk.machinery('Tarjan_dev did not reproduce the KeyError deviation')
    for cfg in ['DiGraphApi_q'] + ([] if tier == 'quick' else ['DiGraphApi_4']):
        chk.add_tlc(cfg, tlc.run('DiGraphApi', cfg, timeout=6000))
    res = tlc.run('DiGraphApi', 'DiGraphApi_dev_StaleCache', timeout=300)
    chk.add_tlc('DiGraphApi_dev_StaleCache', res, expect_ok=False)
    cex = counterexample_history(res.out) if res.violation else []
    if not cex or cex[-1]['op'] != 'sccs':
        chk.machinery('DiGraphApi_dev_StaleCache did not produce a history ending in a wrong '
                      'answer:\n' + res.out[-1500:])
        cex = []
    jobs = []
    k = 0
    for n in (1, 2, 3):
        pairs = list(itertools.product(range(n), repeat=2))
        for bits in itertools.product([0, 1], repeat=len(pairs)):
            k += 1
            jobs += graph_jobs(rng, n, [p for p, b in zip(pairs, bits) if b], k, tier)
    pairs4 = list(itertools.product(range(4), repeat=2))
    if tier == 'quick':
        picks = [rng.getrandbits(16) for _ in range(1500)]
    else:
        picks = range(65536)
    for v in picks:
        k += 1
        jobs += graph_jobs(rng, 4, [p for i, p in enumerate(pairs4) if v >> i & 1], k,
                           'quick')
    for _ in range(300 if tier == 'quick' else 6000):
        n = rng.randint(5, 9)
        dens = rng.choice([0.1, 0.2, 0.35])
        edges = [(a, b) for a in range(n) for b in range(n) if rng.random() < dens]
        k += 1
        jobs += graph_jobs(rng, n, edges, k, 'quick')
    ngraphs = len(jobs)
    # API histories on one object: the model's counterexample (the real class
    # has to give the right answers where the deviating model does not), the
    # exhaustive small families, random ones
    cexjobs = [{'op': 'sccs_history', 'id': 'cex_%s' % mode, 'mode': mode,
                'universe': ['n1', 'n2', 'n3'], 'steps': cex} for mode in MODES] if cex else []
    jobs += cexjobs
    jobs += exhaustive_histories(hrng, tier)
    jobs += random_histories(hrng, 1200 if tier == 'quick' else 40000)
    out = runlib.run_worker('funcs_worker.py', jobs)
    recs = []
    by_id = {}
    nq = 0
    for job, r in zip(jobs, out):
        by_id[job['id']] = (job, r)
        if job['op'] == 'sccs_history':
            recs.append(history_record(job, r))
            nq += sum(1 for o in r['steps'] if 'obs' in o)
            chk.nontrivial.add(json.dumps([job['steps'], job['mode']], sort_keys=True))
            continue
        recs.append({'id': job['id'], 'nodes': job['nodes'], 'succ': job['succ'],
                     'trivial': job['trivial'], 'obs': r['obs'], 'raised': r['raised']})
        chk.nontrivial.add(json.dumps([job['succ'], job['mode'], job['trivial']], sort_keys=True))
    # vacuity guard of the history judgement: the deviating model's own answers
    # to its counterexample have to be rejected, at its last step
    guard = None
    if cexjobs:
        gsteps = [dict({k_: v for k_, v in s_.items() if k_ not in
                        ('take', 'keep', 'model_obs', 'model_exhausted')}, raised='',
                       **({'obs': s_['model_obs'], 'exhausted': s_['model_exhausted']}
                          if s_['op'] == 'sccs' else {})) for s_ in cex]
        guard = {'id': 'guard_model_answers', 'steps': gsteps}
        recs.append(guard)
    chk.evaluations += ngraphs + nq
    chk.traces += len(recs) - (1 if guard else 0)
    chk.extra['histories'] = {'histories_run': len(jobs) - ngraphs, 'queries_judged': nq,
                              'counterexample_of_StaleCache': cex}
    j, r = jobs[ngraphs // 3], out[ngraphs // 3]
    chk.sample({'succ': j['succ'], 'mode': j['mode'], 'trivial': j['trivial'],
                'neighbor_calls': j['neighbor_calls'], 'yielded': r['obs']})
    j, r = jobs[-1], out[-1]
    chk.sample({'mode': j['mode'], 'history': history_record(j, r)['steps']})
    # TLC is run on chunks so that one huge JSON file is avoided
    guarded = False
    for i in range(0, len(recs), 40000):
        for rid, verdict in validate(chk, recs[i:i + 40000], 'chunk %d' % (i // 40000)).items():
            if rid == 'guard_model_answers':
                guarded = verdict[1] == len(cex) and verdict[2] == 'after-mutation'
                continue
            job, r = by_id[rid]
            if job['op'] == 'sccs_history':
                report_history(chk, job, r, verdict)
                continue
            clause = verdict
            chk.violation(signature(clause, job),
                          '%s: succ %r, %s, trivial=%s -> %r %s'
                          % (clause, job['succ'], job['mode'], job['trivial'], r['obs'], r['raised']),
                          {'job': job, 'observed': r})
    if guard and not guarded:
        chk.machinery('Trace_Scc did not reject the stale answer of the StaleCache '
                      'counterexample at its last step: %r' % (guard,))
