"""C20: strongly connected components behind the cyclic-garbage report."""
import itertools
import json
import os
import random
import tempfile

import corecheck
import runlib
import tlc


def graph_jobs(rng, n, edges, k, tier):
    """several construction histories of the same digraph"""
    nodes = ['n%d' % i for i in range(1, n + 1)]
    succ = {x: [] for x in nodes}
    for a, b in edges:
        succ[nodes[a]].append(nodes[b])
    jobs = []
    variants = [('hashable', False), ('id-eq', False), ('id-plain', True)]
    if tier == 'quick':
        variants = [rng.choice(variants), ('id-eq', rng.random() < 0.5)]
    for vi, (mode, ctor) in enumerate(variants):
        order = nodes[:]
        rng.shuffle(order)
        # split add_nodes into chunks, neighbours added in 1..2 calls per node
        cut = rng.randint(0, n)
        add_order = [c for c in (order[:cut], order[cut:]) if c]
        unknown = ['u1', 'u2'] if rng.random() < 0.4 else []
        calls = []
        noentry = []
        for x in rng.sample(nodes, n):
            nbs = succ[x][:]
            rng.shuffle(nbs)
            if not nbs and rng.random() < 0.5:
                noentry.append(x)        # add_neighbors is never called for x
                continue
            extra = [rng.choice(unknown)] if unknown and rng.random() < 0.5 else []
            if len(nbs) > 1 and rng.random() < 0.4:
                calls.append([x, nbs[:1] + extra])
                calls.append([x, nbs[1:]])
            else:
                calls.append([x, nbs + extra])
        if unknown and rng.random() < 0.5:
            calls.append([unknown[0], nodes[:1]])       # neighbours for an unknown node
        for trivial in (False, True):
            jobs.append({'op': 'sccs', 'id': 'g%d_%d%s_%d' % (k, vi, mode, trivial),
                         'nodes': nodes, 'succ': succ, 'mode': mode, 'nodes_in_ctor': ctor,
                         'add_order': add_order, 'unknown': unknown,
                         'neighbor_calls': calls, 'trivial': trivial, 'noentry': noentry})
    return jobs


def validate(chk, recs, label):
    fd, path = tempfile.mkstemp(prefix='verif-scc-', suffix='.json')
    with os.fdopen(fd, 'w') as f:
        json.dump(recs, f)
    try:
        res = tlc.run('Trace_Scc', 'Trace_Scc', env={'TRACE_FILE': path}, timeout=3000)
    finally:
        os.unlink(path)
    chk.add_tlc('Trace_Scc ' + label, res)
    return {m[1]: m[2] for m in tlc.printed_tuples(res.out, 'SCC')}


def signature(clause, job):
    """clause + the trigger class (the KeyError defect needed a node without
    neighbour entry in default mode)"""
    trig = 'default-mode' if not job['trivial'] else 'trivial-mode'
    if clause == 'C20:raised' and job['noentry']:
        trig += ',node-without-neighbour-entry'
    return '%s|%s' % (clause, trig)


def run(chk, tier, seed, replay=None):
    chk.rule = ('(1) TLC: Tarjan.tla (one action per loop iteration of DiGraph.sccs) for '
                'all 512 digraphs on 3 nodes with EVERY set-iteration order (root choice, '
                'neighbour push order), nodes without neighbour entry, both modes; '
                'thorough: all 65 536 digraphs on 4 nodes in canonical order; invariants: '
                'result = SccOracle classes, each once, stack discipline, termination. '
                '(2) real DiGraph.sccs: every digraph with self-loops on <= 3 nodes '
                '(thorough: 4) x construction histories (ctor / add_nodes chunks / split '
                'add_neighbors calls / edges to unknown nodes / nodes without neighbour '
                'entry) x hashable, identity-keyed and identity-keyed-but-==-equal nodes '
                'x both modes, random digraphs up to 9 nodes; TLC evaluates the oracle; '
                'distinct = distinct (graph, mode, trivial)')
    rng = random.Random(seed * 7919 + 20)
    if replay:
        with open(replay) as f:
            r = json.load(f)
        out = runlib.run_worker('funcs_worker.py', [r['job']])
        rec = {'id': 'replay', 'nodes': r['job']['nodes'], 'succ': r['job']['succ'],
               'trivial': r['job']['trivial'], 'obs': out[0]['obs'], 'raised': out[0]['raised']}
        for rid, clause in validate(chk, [rec], 'replay').items():
            chk.violation(signature(clause, r['job']), 'replayed: %r' % (out[0],), r)
        return
    cfgs = ['Tarjan_q', 'Tarjan_live'] + ([] if tier == 'quick' else ['Tarjan_4'])
    for cfg in cfgs:
        chk.add_tlc(cfg, tlc.run('Tarjan', cfg, timeout=3000))
    res = tlc.run('Tarjan', 'Tarjan_dev', timeout=300)
    chk.add_tlc('Tarjan_dev', res, expect_ok=False)
    if not res.violation:
        chk.machinery('Tarjan_dev did not reproduce the KeyError deviation')
    jobs = []
    k = 0
    for n in (1, 2, 3):
        pairs = list(itertools.product(range(n), repeat=2))
        for bits in itertools.product([0, 1], repeat=len(pairs)):
            k += 1
            jobs += graph_jobs(rng, n, [p for p, b in zip(pairs, bits) if b], k, tier)
    pairs4 = list(itertools.product(range(4), repeat=2))
    if tier == 'quick':
        picks = [rng.getrandbits(16) for _ in range(1500)]
    else:
        picks = range(65536)
    for v in picks:
        k += 1
        jobs += graph_jobs(rng, 4, [p for i, p in enumerate(pairs4) if v >> i & 1], k,
                           'quick')
    for _ in range(300 if tier == 'quick' else 6000):
        n = rng.randint(5, 9)
        dens = rng.choice([0.1, 0.2, 0.35])
        edges = [(a, b) for a in range(n) for b in range(n) if rng.random() < dens]
        k += 1
        jobs += graph_jobs(rng, n, edges, k, 'quick')
    out = runlib.run_worker('funcs_worker.py', jobs)
    recs = []
    by_id = {}
    for job, r in zip(jobs, out):
        recs.append({'id': job['id'], 'nodes': job['nodes'], 'succ': job['succ'],
                     'trivial': job['trivial'], 'obs': r['obs'], 'raised': r['raised']})
        by_id[job['id']] = (job, r)
        chk.nontrivial.add(json.dumps([job['succ'], job['mode'], job['trivial']], sort_keys=True))
    chk.evaluations += len(recs)
    chk.traces += len(recs)
    j, r = jobs[len(jobs) // 3], out[len(jobs) // 3]
    chk.sample({'succ': j['succ'], 'mode': j['mode'], 'trivial': j['trivial'],
                'neighbor_calls': j['neighbor_calls'], 'yielded': r['obs']})
    # TLC is run on chunks so that one huge JSON file is avoided
    for i in range(0, len(recs), 40000):
        for rid, clause in validate(chk, recs[i:i + 40000], 'chunk %d' % (i // 40000)).items():
            job, r = by_id[rid]
            chk.violation(signature(clause, job),
                          '%s: succ %r, %s, trivial=%s -> %r %s'
                          % (clause, job['succ'], job['mode'], job['trivial'], r['obs'], r['raised']),
                          {'job': job, 'observed': r})
