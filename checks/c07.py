"""C07: subprocess result channel: nothing lost, nothing partial trusted, no hang."""
import copy
import json
import os
import random
import re
import tempfile

import abstract
import runlib
import tlc

HOOKS = ['setUp', 'tearDown', 'testSetUp', 'testTearDown']
SPELL = {
    'plain': 'test_{}', 'unicode': 'test_ünï✓_{}', 'newline': 'test_a\nb_{}',
    'long': 'test_' + 'x' * 3000 + '_{}', 'cr': 'test_a\rb_{}',
    'seps': 'test_a\x0bb\x1cc d\x85e_{}', 'spaces': 'test  two  spaces {} ',
}
WS = re.compile(r'[\s\x1c-\x1e\x85  ]+')
BADKINDS = {'fail': [['fail'], 1, 0], 'error': [[{'a': 'error'}], 0, 1],
            'two': [None, 0, 2], 'subs': [None, 1, 1]}


def norm(s):
    # what the protocol must do to a name to keep it on one line: each line feed and
    # carriage return becomes a blank, the ends are stripped; everything else - runs of
    # blanks, tabs, other separators - has to arrive as it is
    return re.sub('[\r\n]', ' ', s).strip()


def make_world(wid, rng, nbad, spelling, npass=2):
    tests, ids = {}, []
    for k in range(nbad + npass):
        tid = 't%d' % (k + 1)
        ids.append(tid)
        if k < nbad:
            kind = rng.choice(['fail', 'error', 'two', 'subs']) if nbad < 50 else rng.choice(['fail', 'error'])
            if kind == 'two':
                t = {'body': [{'a': 'error'}], 'tearDown': [{'a': 'error', 'exc': 'KeyError'}]}
            elif kind == 'subs':
                t = {'body': [{'a': 'subtest', 'i': 0, 'do': ['fail']}, {'a': 'subtest', 'i': 1, 'do': [{'a': 'error'}]}]}
            else:
                t = {'body': copy.deepcopy(BADKINDS[kind][0])}
            sp = spelling if spelling != 'mixed' else rng.choice(list(SPELL))
            if sp != 'plain':
                t['name'] = SPELL[sp].format(k)
        else:
            t = {'deco': 'skip'} if rng.random() < 0.2 else {}
        tests[tid] = t
    rng.shuffle(ids)
    return {'id': wid, 'layers': {'L1': {'kind': 'class', 'bases': [], 'hooks': HOOKS}},
            'layer_order': ['L1'], 'classes': {'TA': {'tests': ids, 'layer': 'L1'}}, 'tests': tests}


def add_volume(w, rng, where):
    """~1 MiB of output on the child's stdout and / or fd 2, in either order"""
    big = 'N' * 65536
    tids = list(w['tests'])
    t = w['tests'][tids[0]]
    outw = [{'a': 'write', 'tok': big, 'stream': 'stdout'} for _ in range(16)]
    errw = [{'a': 'write', 'tok': big, 'stream': 'stderr', 'via': 'fd'} for _ in range(16)]
    acts = {'stdout': outw, 'fd2': errw, 'fd2-then-stdout': errw + outw,
            'stdout-then-fd2': outw + errw, 'interleaved': [x for p in zip(outw, errw) for x in p]}[where]
    t['setUp'] = acts + list(t.get('setUp', ()))


def gen_cases(rng, tier):
    cases = []

    def add(cid, w, fam, extra_args=(), **kw):
        cases.append(dict({'id': cid, 'world': w, 'fam': fam,
                           'args': ['-j', '2', '-v'] + list(extra_args), 'spelling': 'plain'}, **kw))
    n = 0
    # (a) completed children: numbers and spellings of failing ids
    sizes = [0, 1, 3, 300] if tier == 'quick' else [0, 1, 2, 3, 10, 1000]
    for nb in sizes:
        for sp in (['plain', 'mixed'] if nb >= 100 else list(SPELL) + ['mixed']):
            if nb == 0 and sp != 'plain':
                continue
            n += 1
            add('a%d' % n, make_world('a%d' % n, rng, nb, sp), 'ids', spelling=sp)
    # (b) volume and content of noise
    for where in ['stdout', 'fd2', 'fd2-then-stdout', 'stdout-then-fd2', 'interleaved']:
        n += 1
        w = make_world('v%d' % n, rng, 2, 'plain')
        add_volume(w, rng, where)
        add('v%d' % n, w, 'volume')
    # fd-2 output whose last line is not terminated (it must not glue itself to the report)
    for tok in ('no line end', '12 apples', '7 0'):
        n += 1
        w = make_world('n%d' % n, rng, 2, 'plain')
        t = w['tests'][w['classes']['TA']['tests'][-1]]
        t['tearDown'] = list(t.get('tearDown', ())) + [{'a': 'write', 'tok': tok, 'stream': 'stderr', 'via': 'fd', 'nl': False}]
        add('n%d' % n, w, 'noise-unterminated')
    for raw in ('fffe', '80', 'c328'):
        n += 1
        w = make_world('n%d' % n, rng, 2, 'plain')
        t = w['tests'][list(w['tests'])[0]]
        t['setUp'] = [{'a': 'write', 'tok': 'raw bytes ', 'stream': 'stderr', 'via': 'fd', 'rawhex': raw}]
        add('n%d' % n, w, 'noise-not-utf8')
    for tok, via in [('\xff\xfe binary \x00 junk', 'fd'), ('12 apples 3', 'fd'), ('1 2', 'fd'), ('1 2 3 4', 'fd'),
                     ('Traceback (most recent call last):', 'text'), ('', 'fd')]:
        n += 1
        w = make_world('n%d' % n, rng, 2, 'plain')
        t = w['tests'][list(w['tests'])[0]]
        t['setUp'] = [{'a': 'write', 'tok': tok, 'stream': 'stderr', 'via': via}]
        add('n%d' % n, w, 'noise')
    # ... and lines that arrive after the complete report
    for lines in (['bye'], ['Exception ignored in: <function x>', 'Traceback (most recent call last):'],
                  ['3 0 0'], ['a'] * 50):
        n += 1
        w = make_world('e%d' % n, rng, rng.choice([0, 2]), 'plain')
        w['env'] = {'fd2_at_exit': lines}
        add('e%d' % n, w, 'trailing')
        n += 1
        w = make_world('e%d' % n, rng, rng.choice([1, 2]), 'plain')
        w['env'] = {'fd2_at_exit': lines, 'fd2_at_exit_nonl': True}
        add('e%d' % n, w, 'trailing-no-eol')
    for tok in ['7 0 0', ' 12 0 0 ', '0 0 0']:
        n += 1
        w = make_world('k%d' % n, rng, 2, 'plain')
        t = w['tests'][w['classes']['TA']['tests'][0]]
        t['setUp'] = [{'a': 'write', 'tok': tok, 'stream': 'stderr', 'via': 'fd'}] + list(t.get('setUp', ()))
        add('k%d' % n, w, 'lookalike', lookalike=True)
    # (c) the child dies: every phase x every way
    hows = ['exit0', 'exit3', 'kill', 'segv']
    places = ['import', 'layer-setUp', 'test-setUp', 'test-body', 'test-tearDown', 'layer-tearDown']
    for pl in places:
        for how in (hows if tier != 'quick' else rng.sample(hows, 2)):
            n += 1
            w = make_world('d%d' % n, rng, rng.choice([0, 2]), 'plain')
            crash = {'a': 'crash', 'how': how, 'only_child': True}
            if pl == 'import':
                w['import'] = {'only_child': True, 'crash': how}
            elif pl.startswith('layer-'):
                w['layers']['L1'][pl.split('-')[1]] = {'crash': how, 'only_child': True}
            else:
                tid = rng.choice(w['classes']['TA']['tests'])
                w['tests'][tid] = {pl.split('-')[1]: [crash]}
            add('d%d' % n, w, 'die:' + pl)
    # ... after writing text to fd 2 that the parent's stdout cannot encode (the parent
    # quotes the child's stderr in its "Could not communicate" message at -v / -vv)
    for how, verb in (('exit3', ['-v']), ('kill', ['-vv'])):
        n += 1
        w = make_world('a%d' % n, rng, 0, 'plain')
        tid = w['classes']['TA']['tests'][0]
        w['tests'][tid] = {'body': [{'a': 'write', 'tok': 'Fehler: Datei nicht gefunden - caf\u00e9 \u2603', 'stream': 'stderr',
                                     'via': 'fd', 'only_child': True},
                                    {'a': 'crash', 'how': how, 'only_child': True}]}
        w['env'] = {'parent_ioencoding': 'ascii'}
        add('a%d' % n, w, 'die:unencodable-noise', extra_args=verb[1:] and ['-v'] or [])
    # ... or by an exception unwinding the stack from a layer hook
    for pl in ('layer-setUp', 'layer-tearDown'):
        for how in ('sysexit0', 'sysexit', 'memerr', 'kbint'):
            n += 1
            w = make_world('u%d' % n, rng, rng.choice([0, 1]), 'plain')
            w['layers']['L1'][pl.split('-')[1]] = {'crash': how, 'only_child': True}
            add('u%d' % n, w, 'unwind:' + pl)
    # (d) the report is cut short at a byte offset (and the child may die there)
    offsets = [0, 1, 3, 5, 6, 7, 8, 20, 40, 41, 60] if tier == 'quick' else list(range(0, 140))
    for off in offsets:
        for die in ([None, 'exit0'] if tier == 'quick' else [None, 'exit0', 'kill']):
            n += 1
            w = make_world('c%d' % n, rng, 2, 'plain', npass=1)
            w['env'] = {'stderr_cut': off}
            if die:
                w['env']['die_at_cut'] = die
            add('c%d' % n, w, 'cut')
    # (e) the child cannot be started
    for errno_name in ('ENOMEM', 'EAGAIN', 'ENOENT', 'EACCES'):
        n += 1
        w = make_world('s%d' % n, rng, 1, 'plain')
        w['env'] = {'spawn_fail': ['*'], 'spawn_errno': errno_name}
        add('s%d' % n, w, 'spawnfail')
    # the same through a resume (NotImplementedError) instead of -j
    for fam in ('ids', 'die', 'cut'):
        n += 1
        w = make_world('r%d' % n, rng, 2, 'mixed')
        w['layers']['L0'] = {'kind': 'class', 'bases': [], 'hooks': HOOKS, 'tearDown': 'notimpl'}
        w['layer_order'] = ['L0', 'L1']
        w['classes']['T0'] = {'tests': ['t0'], 'layer': 'L0'}
        w['tests']['t0'] = {}
        if fam == 'die':
            w['tests'][w['classes']['TA']['tests'][0]] = {'body': [{'a': 'crash', 'how': 'kill', 'only_child': True}]}
        if fam == 'cut':
            w['env'] = {'stderr_cut': 9}
        cases.append({'id': 'r%d' % n, 'world': w, 'fam': 'resume:' + fam, 'args': ['-v'], 'spelling': 'mixed',
                      'resume': True})
    return cases


def record(case, res, ref):
    w = case['world']
    evs = res['events']
    child_pids = {e['pid'] for e in evs if e['e'] == 'ProcStart' and e.get('role') == 'child'
                  and abstract.layer_abstract_name(e.get('resume', '')) == 'L1'}
    cev = [e for e in evs if e['pid'] in child_pids]
    if any(e['e'] == 'Spawn' and e.get('s') == 'fail' for e in evs):
        fate = 'spawnfail'
    elif ''.join(e.get('lost', '?') for e in cev if e['e'] == 'ReportCut') not in ('', '\n'):
        fate = 'cut'
    elif any(e['e'] == 'Crash' for e in cev) or not any(e['e'] == 'ProcExit' for e in cev):
        fate = 'died'
    else:
        fate = 'completed'
    l1 = set(w['classes']['TA']['tests'])
    started = {(e['t'], e.get('it', 0)) for e in cev if e['e'] == 'T' and e['t'] in l1}
    ran_ids = {t for t, _ in started}
    deco = [t for t in l1 if abstract.decoskip(w, t)]
    expf, expe = {}, {}
    for t in l1:
        kinds = ref['ev'].get(t, []) if (t in ran_ids or t in deco) else []
        expf[t] = len([k for k in kinds if k in ('F', 'SF', 'U')])
        expe[t] = len([k for k in kinds if k in ('E', 'SE')])
    by_name = {norm(abstract.test_name(w, t)): t for t in w['tests']}

    def resolve(names):
        ids, other, sub = [], 0, 0
        for nm in names:
            x = norm(nm)
            if x.startswith('subprocess for'):
                sub += 1
                other += 1
                continue
            t = by_name.get(x)
            if t is None:
                m = re.match(r'^(.*\)) [\[(].*[\])]$', x, re.S)
                t = by_name.get(m.group(1)) if m else None
            if t is None:
                other += 1
            else:
                ids.append(t)
        return ids, other, sub
    rep = res['report']
    fids, foth, fsub = resolve(rep['failures'])
    eids, eoth, esub = resolve(rep['errors'])
    if fate == 'completed' and sum(expf.values()) + sum(expe.values()) > 0 and \
            ''.join(e.get('lost', '?') for e in cev if e['e'] == 'ReportCut') == '\n':
        # don't-care zone: the report lost nothing but the line end of its last NAME.  The
        # parent cannot tell a complete last name from a truncated one and may treat the
        # report as cut short (one error for the layer, no names) or as complete; the record
        # carries the fate that goes with what the parent did, the clauses of that fate apply
        if fsub + esub:
            fate = 'cut'
    crashed = ''
    # (a traceback of a parent worker thread - "Exception in thread" - is not an abort of the run)
    perr = re.sub(r'Exception in thread [^\n]*\nTraceback \(most recent call last\):\n(?:[ \t][^\n]*\n)*[^\n]*',
                  '', res.get('stderr', ''))
    if not res.get('timed_out') and (res['rc'] not in (0, 1) or 'Traceback (most recent call last)' in perr):
        crashed = 'rc=%s' % res['rc']
    # tests of the in-process layer of a resume world are not the channel's business
    if case.get('resume'):
        fids = [t for t in fids if t in l1]
        eids = [t for t in eids if t in l1]
    total = list(rep['total'] or [0, 0, 0, 0])
    if case.get('resume'):
        total[0] -= 1          # t0 ran in the parent
    return {'id': case['id'], 'fate': fate, 'started': len(started), 'decoSkipped': len(deco),
            'expFail': expf, 'expErr': expe, 'lookalike': bool(case.get('lookalike')),
            'spelling': case['spelling'],
            'obs': {'timedOut': bool(res.get('timed_out')), 'crashed': crashed, 'failed': res['rc'] != 0,
                    'total': total, 'failIds': fids, 'errIds': eids, 'failOther': foth,
                    'errOther': eoth, 'subprocErrs': fsub + esub, 'wall': round(res['wall'], 2)}}


def run(chk, tier, seed, replay=None):
    chk.rule = ('(1) TLC: Channel.tla - child (stdout lines, fd-2 noise before or after, close stdout, header, '
                'names; dies at any point with the line in flight cut), bounded pipes, parent main thread + stderr '
                'drain thread + parser: CompleteIsExact, FaultIsError, Reaped and NoHang under fairness for 0 / 2 '
                'announced names, pipe capacities 1 and 2, terminated and unterminated fd-2 noise; NoFreshLine (header glued to an unterminated line), NoStderrThread (deadlock on a full stderr pipe), '
                'TrustTruncated, SpawnFailureUnrecorded and the look-alike environment give counterexamples. '
                '(2) spec -> code: each fate is forced on the real runner - complete reports with 0 / 1 / 3 / 300 '
                '(thorough 1000) failing ids spelled plain / unicode / with newline / CR / other separators / 3000 '
                'characters; 1 MiB of noise on stdout and fd 2 in five orders; binary and near-header noise; death '
                'by exit 0 / exit 3 / SIGKILL / SIGSEGV at import, layer setUp, test setUp / body / tearDown, layer '
                'tearDown, or by SystemExit(0/7) / MemoryError / KeyboardInterrupt unwinding from a layer hook; report cut at byte offsets (thorough: every offset 0..139) with and without dying there; '
                'spawn failure; -j and resume; 60 s bound per run; TLC judges each run; distinct = distinct cases')
    chk.assumptions += ['kernel-level timing of a child\'s death is not controlled beyond the named phases and byte offsets',
                        'the number of tests run reported for a faulty child is a don\'t-care (an error is recorded)']
    rng = random.Random(seed * 7919 + 7)
    if replay:
        with open(replay) as f:
            cases = [json.load(f)['case']]
    else:
        for cfg in ('Channel_design', 'Channel_design0', 'Channel_design2'):
            chk.add_tlc(cfg, tlc.run('Channel', cfg, timeout=900))
        for cfg in ('Channel_dev_NoFreshLine', 'Channel_dev_NoStderrThread', 'Channel_dev_TrustTruncated',
                    'Channel_dev_SpawnFailureUnrecorded', 'Channel_asbuilt'):
            res = tlc.run('Channel', cfg, timeout=600)
            chk.add_tlc(cfg, res, expect_ok=False)
            if not res.violation:
                chk.machinery('%s did not produce a counterexample' % cfg)
        cases = gen_cases(rng, tier)
    refs = runlib.compute_refs([c['world'] for c in cases])
    results = runlib.run_cli_many([(c['world'], c['args'],
                                    {'timeout': 60,
                                     'env_extra': ({'PYTHONIOENCODING': c['world']['env']['parent_ioencoding']}
                                                   if c['world'].get('env', {}).get('parent_ioencoding') else None)})
                                   for c in cases])
    recs = [record(c, r, ref) for c, r, ref in zip(cases, results, refs)]
    chk.sample({'family': cases[0]['fam'], 'args': cases[0]['args'], 'record': recs[0]})
    fd, path = tempfile.mkstemp(prefix='verif-chan-', suffix='.json')
    with os.fdopen(fd, 'w') as f:
        json.dump(recs, f)
    try:
        tres = tlc.run('Trace_Channel', 'Trace_Channel', env={'TRACE_FILE': path}, timeout=1800)
    finally:
        os.unlink(path)
    chk.add_tlc('Trace_Channel', tres)
    verdicts = {m[1]: (m[2], m[3]) for m in tlc.printed_tuples(tres.out, 'CHAN')}
    fates = {}
    for c, r, rec in zip(cases, results, recs):
        v = verdicts.get(c['id'])
        if v is None:
            chk.machinery('no CHAN line for %s' % c['id'])
            continue
        chk.traces += 1
        fates.setdefault(c['fam'].split(':')[0], {}).setdefault(rec['fate'], 0)
        fates[c['fam'].split(':')[0]][rec['fate']] += 1
        chk.nontrivial.add(json.dumps([c['fam'], c['args'], c['world'].get('env'), len(c['world']['tests']), c['spelling']]))
        clause, arg = v
        if clause:
            if arg == 'header-lookalike-on-child-fd2':
                sig = 'C07:numbers-taken-from-header-lookalike-on-child-fd2'
            else:
                sig = '%s|%s' % (clause, arg) if arg else clause
            chk.violation(sig, '%s (%s) family %s fate %s obs %s' % (clause, arg, c['fam'], rec['fate'],
                                                                    json.dumps(rec['obs'])[:300]),
                          {'case': c, 'record': rec, 'stdout_tail': r['stdout'][-2000:],
                           'stderr_tail': r['stderr'][-1500:]})
    chk.extra['fates_by_family'] = fates
    chk.extra['max_wall_s'] = max(r['wall'] for r in results)
