"""C03: exactly the selected tests run, once each, and every mode agrees."""
import copy
import os
import random

import corecheck
import runlib
import worlds

FAM = {'C03'}
TPOOL = ['t1', 't2', r't[13]\b', 'TL1', 'TU', r'^test_t[1-4]', r'tests\.T', 'zzz',
         '', r'\)$', '!t1', '!TL2', r'!t[24]\b', '!zzz', '!']
LPOOL = ['L1', 'L[12]', 'tests', 'Unit', 'zope', 'L3$', '!L1', '!Unit', '!tests', 'zzz']
MPOOL = ['tests', '^t', 'zzz', '!zzz', '!tests', 'es']
LEVELS = [0, 1, 1, 2, 3, -1]


def nest(rng, w):
    """random suite tree over the world's classes with layer / level
    declarations at every depth (suite, class, test instance)"""
    lnames = [l for l in w['layers'] if 'pyname' not in w['layers'][l]]   # tests are grouped by layer name
    nodes = []
    for c, cs in w['classes'].items():
        if rng.random() < 0.5 and len(cs['tests']) > 1:
            # split a class over explicit test leaves
            nodes += [{'test': t} for t in cs['tests']]
        else:
            nodes.append({'cls': c})
        if rng.random() < 0.35:
            cs['level'] = rng.choice(LEVELS)
        if rng.random() < 0.25:
            cs.pop('layer', None)
    rng.shuffle(nodes)

    def decl(node):
        if lnames and rng.random() < 0.3:
            node['layer'] = rng.choice(lnames)
        if rng.random() < 0.3:
            node['level'] = rng.choice(LEVELS)
        return node
    # group into nested suites, depth <= 3
    for _ in range(rng.randint(0, 3)):
        if len(nodes) < 2:
            break
        k = rng.randint(1, len(nodes))
        i = rng.randrange(0, len(nodes) - k + 1)
        nodes[i:i + k] = [decl({'children': nodes[i:i + k]})]
    w['suite'] = decl({'children': nodes}) if rng.random() < 0.5 else {'children': nodes}
    for t in w['tests'].values():
        if lnames and rng.random() < 0.12:
            t['layer'] = rng.choice(lnames)
        if rng.random() < 0.15:
            t['level'] = rng.choice(LEVELS)


def pick(rng, pool, kmax=2):
    return [rng.choice(pool) for _ in range(rng.randint(1, kmax))]


def opts(rng):
    o = {'verbose': rng.choice([0, 1])}
    r = rng.random()
    if r < 0.35:
        o['t'] = pick(rng, TPOOL, 3)
    if rng.random() < 0.3:
        o['layer'] = pick(rng, LPOOL)
    r = rng.random()
    if r < 0.2:
        o['all'] = True
    elif r < 0.5:
        o['at_level'] = rng.choice([-1, 0, 1, 2, 3])
    elif r < 0.65:
        o['only_level'] = rng.choice([0, 1, 2, 3])
    r = rng.random()
    if r < 0.1:
        o['unit'] = True
    elif r < 0.2:
        o['non_unit'] = True
    elif r < 0.25:
        o['unit'] = o['non_unit'] = True
    if rng.random() < 0.25:
        o['repeat'] = 2
    if rng.random() < 0.3:
        o['shuffle'] = True
        o['shuffle_seed'] = rng.randrange(10 ** 6)
    return o


def run(chk, tier, seed, replay=None):
    chk.rule = ('worlds = TLC-exported layer DAGs x suite trees nested to depth 4 '
                'with layer / level declared or not at every depth (suite, class, '
                'test instance) x option vectors (-t / --layer / -m pattern lists '
                'incl. negations, --at-level / --all / --only-level, -u / -f, '
                '--repeat, --shuffle-seed); every (world, options) is run as a '
                'bundle: --list-tests, sequential, -j 2..3 and, where a layer has '
                'a tearDown, a forced resume; TLC validates each run against '
                'Selected(w,o) and the runs against each other; distinct = '
                'distinct (declarations, match facts, options, trace length)')
    chk.assumptions += ['regex matching is an environment fact computed with re.search',
                        'tests that execute no code (decorator skips) are unobservable']
    if replay:
        corecheck.replay(chk, FAM, replay)
        return
    rng = random.Random(seed * 7919 + 3)
    graphs = corecheck.export_graphs(chk, 4)
    if tier == 'quick':
        corecheck.run_mc(chk, ['Runner_design'])
        nb, nsingle = 60, 120
    else:
        corecheck.run_mc(chk, ['Runner_design', 'Runner_deep2'], timeout=3000)
        nb, nsingle = 700, 1500
    prof = {'kinds': 'mixed', 'hooks': 'all', 'outcomes': ['pass', 'pass', 'fail', 'skip_body'],
            'tests_per_layer': (1, 3), 'unit_tests': (0, 3), 'opts': opts, 'sweep': True,
            'dotted': 0.2}
    base = corecheck.gen_cases(rng, graphs, nb + nsingle, prof, 'w')
    cases = []
    peers = {}
    nbundles = 0
    for k, c in enumerate(base):
        nest(rng, c['world'])
        o = c['o']
        use_m = rng.random() < 0.15
        if use_m:
            o['m'] = pick(rng, MPOOL)
        seqmode = 'cli' if use_m else 'inproc'
        if k >= nb:
            # plain single runs (more option vectors, cheap)
            c['mode'] = seqmode
            if rng.random() < 0.3:
                o['list'] = True
            cases.append(c)
            continue
        nbundles += 1
        group = []
        variants = [('list', dict(o, list=True), seqmode),
                    ('seq', dict(o), seqmode),
                    ('j', dict(o, j=rng.choice([2, 3])), 'cli')]
        w = c['world']
        for tag, oo, mode in variants:
            cid = c['id'] + tag
            cases.append({'id': cid, 'world': dict(copy.deepcopy(w), id=cid),
                          'o': oo, 'mode': mode})
            group.append(cid)
        # forced resume: the first layer with a tearDown hook cannot be torn down
        w2 = copy.deepcopy(w)
        for l in w2['layers'].values():
            if 'tearDown' in l.get('hooks', ()):
                l['tearDown'] = 'notimpl'
                cid = c['id'] + 'resume'
                w2['id'] = cid
                rc = {'id': cid, 'world': w2, 'o': dict(o), 'mode': 'cli'}
                if rng.random() < 0.5:
                    # the search path is given relative to the start directory and the tests
                    # run in the parent wander off: children must still find the same tests
                    rc['cli_kw'] = {'path_dir': os.path.basename(runlib.WORLD_DIR),
                                    'cwd': os.path.dirname(runlib.WORLD_DIR)}
                    for t in w2['tests'].values():
                        t['body'] = [{'a': 'chdir'}] + list(t.get('body', ()))
                cases.append(rc)
                group.append(cid)
                break
        for g in group:
            peers[g] = group
    for c in cases[:3]:
        chk.sample({'world': c['world'], 'options': c['o'], 'mode': c['mode']})
    corecheck.run_cases(chk, FAM, cases, peers=peers)
    chk.extra['bundles'] = nbundles
