"""C16: --stop-on-error stops after the first failing test but still cleans up."""
import random

import corecheck
import worlds

# 'the layers that were set up are still torn down' is C01's end-of-process clause
FAM = {'C16', 'C01:left-set-up', 'C01:tearDown-count'}
BAD = ['fail', 'error', 'uxsuccess', 'subfail', 'td_error', 'setup_error',
       'two_events', 'cleanup_error']


def run(chk, tier, seed, replay=None):
    chk.rule = ('worlds = TLC-exported layer DAGs x 1..3 tests per layer with one '
                'or more bad tests (failure, error, unexpected success, failing '
                'subtests, tearDown/cleanup error, layer setUp failure) at '
                'first/middle/last positions, all run with -x, with --repeat 1..3 '
                'and --shuffle, in-process and inside layer subprocesses (-j N, resume); distinct = distinct (graph, outcome facts, '
                'options, trace length)')
    chk.assumptions += ['"sequential run" is read as the in-process parent '
                        '(children resumed after NotImplementedError are fresh runs)']
    if replay:
        corecheck.replay(chk, FAM, replay)
        return
    rng = random.Random(seed * 7919 + 16)
    graphs = [g for g in corecheck.export_graphs(chk, 4) if g['n'] >= 1]
    if tier == 'quick':
        corecheck.run_mc(chk, ['Runner_design', 'Runner_dev_stop'],
                         expect_violation=['Runner_dev_stop'])
        n1, n2 = 150, 110
    else:
        corecheck.run_mc(chk, ['Runner_design', 'Runner_deep', 'Runner_deep2',
                               'Runner_dev_stop'],
                         expect_violation=['Runner_dev_stop'], timeout=3000)
        n1, n2 = 2000, 1500

    def opts(r):
        o = {'stop': True, 'verbose': r.choice([0, 1, 2])}
        if r.random() < 0.4:
            o['repeat'] = r.choice([2, 3])
        if r.random() < 0.3:
            o['shuffle'] = True
            o['shuffle_seed'] = r.randrange(100)
        if r.random() < 0.2:
            o['color'] = True
        return o
    # mostly passing tests with a few bad ones => first bad test lands at
    # first / middle / last positions of first / middle / last layers
    mix = ['pass'] * 5 + ['skip_deco', 'skip_body', 'xfail'] + BAD
    prof_a = {'sweep': True, 'kinds': 'mixed', 'hooks': 'random',
              'outcomes': mix, 'tests_per_layer': (1, 3), 'unit_tests': (0, 3),
              'opts': opts, 'faults': (0.1, 0.05, 0.1)}
    prof_b = {'kinds': 'class', 'hooks': 'all', 'outcomes': ['pass'] * 2 + BAD,
              'tests_per_layer': (2, 3), 'unit_tests': (1, 3), 'opts': opts,
              'faults': (0.15, 0.0, 0.0)}
    cases = corecheck.gen_cases(rng, graphs, n1, prof_a, 'a')
    cases += corecheck.gen_cases(rng, graphs, n2, prof_b, 'b')
    # the same inside layer subprocesses: each child is a process of its own in
    # which nothing may start after its first bad outcome
    ccases = corecheck.gen_cases(rng, graphs, 40 if tier == 'quick' else 500, prof_b, 'c')
    for c in ccases:
        if rng.random() < 0.6:
            c['o']['j'] = rng.choice([2, 3])
        else:
            for l in c['world']['layers'].values():
                if 'tearDown' in l.get('hooks', ()) and l.get('tearDown', 'ok') == 'ok':
                    l['tearDown'] = 'notimpl'
                    break
            else:
                c['o']['j'] = 2
        c['mode'] = 'cli'
    cases += ccases
    # a layer whose setUp fails on top of a base that cannot be torn down, more layers behind it
    for k in range(12 if tier == 'quick' else 120):
        g = {'n': 4, 'bases': [[], [1], [], [rng.choice([1, 3])] if rng.random() < 0.5 else []]}
        names = worlds.permuted_names(rng, 4)
        w = worlds.make_world('f%d' % k, g, rng, kinds=rng.choice(['class', 'instance']), hooks='all',
                              faults={names[0]: {'tearDown': 'notimpl'}, names[1]: {'setUp': 'raise'}},
                              outcomes=['pass'], owners=[names[1], names[2], names[3]], names=names)
        cases.append({'id': w['id'], 'world': w, 'o': {'stop': True, 'verbose': rng.choice([0, 1])},
                      'mode': 'cli'})
    # --buffer: the first failing test leaves a stream of its own in place of sys.stdout
    bcases = corecheck.gen_cases(rng, graphs, 16 if tier == 'quick' else 160,
                                 dict(prof_b, faults=(0.0, 0.0, 0.0)), 'r')
    for c in bcases:
        c['o']['buffer'] = True
        for t in c['world']['tests'].values():
            if t.get('kind') in ('fail', 'error') and 'body' in t:
                t['body'] = [{'a': 'redirect', 'stream': 'stdout'}] + list(t['body'])
    cases += bcases
    for c in cases[:3]:
        chk.sample({'world': c['world'], 'options': c['o'], 'mode': c['mode']})
    corecheck.run_cases(chk, FAM, cases)
