"""C19: threads left behind by a test are reported precisely."""
import json
import os
import random
import re
import tempfile

import abstract
import runlib
import tlc

PATTERNS = ['ign', r'w\d+x$']
IGN_NAMES = ['ign-1', 'ignore me', 'w12x', 'ign']
OK_NAMES = [None, 'worker', 'xign', 'Ign-1', 'w12xy', 'net-ign', ' ign']
# pattern lists whose members must keep their own meaning (an inline flag, a
# numbered backreference): (patterns, names to be ignored, names to be reported)
PATTERN_SETS = [
    (PATTERNS, IGN_NAMES, OK_NAMES),
    ([r'(?i)pool-\d+', 'Worker'], ['POOL-7', 'pool-12', 'Worker-1'], [None, 'worker', 'pool-x', 'xWorker']),
    ([r'srv-(\d)-\1', r'cli-(\d)-\1'], ['srv-1-1', 'cli-2-2'], [None, 'cli-2-3', 'srv-1-2', 'xcli-2-2']),
]
IDENT = re.compile(r'\d{8,}')


def schedules(chk, tier, rng):
    """TLC enumerates the schedules (Threads.tla hist at terminal states)."""
    res = tlc.run('Threads', 'Threads_sched', workers=1, timeout=900)
    chk.add_tlc('Threads_sched (schedule export)', res)
    seen = {}
    for v in tlc.printed_tuples(res.out, 'SCHED'):
        h = v[1]
        if any(x[0] in ('start', 'end') for x in h):
            seen[json.dumps(h)] = h
    allh = [seen[k] for k in sorted(seen)]
    chk.extra['schedules_enumerated_by_tlc'] = len(allh)
    # the interesting ones first: a thread ends in a later test than it started
    def cross(h):
        t = 0
        born = {}
        for x in h:
            if x[0] == 'test':
                t = x[1]
            elif x[0] == 'start':
                born[x[1]] = t
            elif x[0] == 'end' and born.get(x[1]) != t:
                return True
        return False
    crossing = [h for h in allh if cross(h)]
    rest = [h for h in allh if not cross(h)]
    n = 110 if tier == 'quick' else 1200
    pick = rng.sample(crossing, min(len(crossing), n * 2 // 3))
    pick += rng.sample(rest, min(len(rest), n - len(pick)))
    return pick


def make_case(cid, h, rng):
    dummy_ignored = rng.random() < 0.25
    base_pats, ign_names, ok_names = rng.choice(PATTERN_SETS)
    pats = list(base_pats) + (['Dummy-'] if dummy_ignored else [])
    tests = {}
    attrs = {}
    cur = None
    for x in h:
        if x[0] == 'test':
            cur = 't%d' % x[1]
            tests[cur] = {'body': []}
        elif x[0] == 'start':
            th, g = 'th%d' % x[1], x[2]
            api = rng.choice(['threading', 'threading', '_thread', '_thread_ct'])
            if api != 'threading' and g != dummy_ignored:
                api = 'threading'
            a = {'a': 'tstart', 'name': th, 'api': api}
            if api == 'threading':
                nm = rng.choice(ign_names if g else ok_names)
                if nm is not None:
                    a['tname'] = nm
            attrs[th] = a
            tests[cur]['body'].append(a)
        elif x[0] == 'end':
            tests[cur]['body'].append({'a': 'trelease', 'name': 'th%d' % x[1]})
    # where in the test the thread work happens varies; outcomes too
    for t in tests.values():
        r = rng.random()
        if r < 0.15:
            t['setUp'] = t.pop('body')
        elif r < 0.3:
            t['tearDown'] = t.pop('body')
        elif r < 0.45:
            t['body'].append(rng.choice(['fail', {'a': 'error'}, 'skip']))
    # tests skipped by a decorator run no code at all (and on some CPython
    # versions never reach startTest): they start no thread, so none may be
    # reported for them, whatever the tests before them left behind
    for tid in sorted(tests):
        if rng.random() < 0.3:
            tests[tid + 's'] = {'deco': 'skip', 'kind': 'skip_deco'}
            if rng.random() < 0.4:
                tests[tid + 'ss'] = {'deco': 'skip', 'kind': 'skip_deco'}
    world = {'id': cid, 'layers': {'L1': {'kind': 'class', 'bases': [],
                                          'hooks': ['setUp', 'tearDown', 'testSetUp', 'testTearDown']}},
             'layer_order': ['L1'],
             'classes': {'TA': {'tests': sorted(tests), 'layer': 'L1'}}, 'tests': tests}
    args = []
    for p in pats:
        args += ['--ignore-new-thread', p]
    if rng.random() < 0.3:
        args.append('-v')
    return {'id': cid, 'world': world, 'args': args, 'pats': pats, 'sched': h}


def record(case, res):
    w = case['world']
    by_name = {abstract.test_name(w, t): t for t in w['tests']}
    order = []
    ev = []
    for e in res['events']:
        if e['e'] == 'T' and e['t'] not in order:
            order.append(e['t'])
        elif e['e'] == 'ThreadStart':
            ign = any(re.match(p, e['name']) for p in case['pats'])
            ev.append({'e': 'S', 't': e['t'], 'th': e['thread'], 'ident': str(e['ident']), 'ign': ign,
                       'api': 'threading' if e['api'] == 'threading' else 'lowlevel'})
        elif e['e'] == 'ThreadEnd':
            ev.append({'e': 'E', 't': e['t'], 'th': e['thread'], 'ident': str(e['ident']), 'ign': False,
                       'api': ''})
    # decorator-skipped tests take their place in the (sorted) execution order
    order = [t for t in sorted(w['tests']) if t in order or w['tests'][t].get('deco') == 'skip']
    rep = {t: [] for t in order}
    unknown = 0
    for tline, thline in res['report']['threads']:
        t = by_name.get(tline.strip())
        if t is None or t not in rep:
            unknown += 1
            continue
        rep[t] += IDENT.findall(thline)
    return {'id': case['id'], 'tests': order, 'ev': ev, 'rep': rep or {'_': []},
            'unknownBlocks': unknown, 'crashed': res.get('crashed', '') or ''}


def validate(chk, recs, label):
    fd, path = tempfile.mkstemp(prefix='verif-thr-', suffix='.json')
    with os.fdopen(fd, 'w') as f:
        json.dump(recs, f)
    try:
        res = tlc.run('Trace_Threads', 'Trace_Threads', env={'TRACE_FILE': path}, timeout=1800)
    finally:
        os.unlink(path)
    chk.add_tlc('Trace_Threads ' + label, res)
    return {m[1]: (m[2], m[3]) for m in tlc.printed_tuples(res.out, 'THR')}


def run_cases(chk, cases, label):
    jobs = [{'id': c['id'], 'world': c['world'], 'args': c['args'], 'stdout_kind': 'file'}
            for c in cases]
    results = runlib.run_inproc_many(jobs, chunk=4)
    recs = [record(c, r) for c, r in zip(cases, results)]
    verdicts = validate(chk, recs, label)
    reuse = 0
    for c, r, rec in zip(cases, results, recs):
        v = verdicts.get(c['id'])
        if v is None:
            chk.machinery('no THR line for %s' % c['id'])
            continue
        chk.traces += 1
        chk.nontrivial.add(json.dumps(c['sched']))
        idents = {}
        for e in rec['ev']:
            if e['e'] == 'S':
                if e['ident'] in idents:
                    reuse += 1
                idents[e['ident']] = e['th']
        clause, t = v
        if rec['crashed'] or rec['unknownBlocks']:
            clause, t = 'C19:report-unreadable', rec['crashed'] or 'unknown test line'
        if clause:
            chk.violation(clause, '%s at test %s; schedule %s' % (clause, t, c['sched']),
                          {'case': c, 'record': rec, 'stdout_tail': r.get('stdout', '')[-2500:],
                           'crash_tb': r.get('crash_tb', '')})
    chk.extra['runs_in_which_the_os_reused_an_ident'] = chk.extra.get(
        'runs_in_which_the_os_reused_an_ident', 0) + reuse


def run(chk, tier, seed, replay=None):
    chk.rule = ('(1) TLC: Threads.tla - 3 tests x 3 threads x <= 3 start / end operations per '
                'test, every thread ending in the same or any later test or never, ignored or '
                'not, threading or low-level API: Precise holds when idents are never reused, '
                'and with reuse for threading threads; with reuse and low-level threads (asbuilt) '
                'TLC produces the hidden-leak counterexample; four deviation configs and the reuse '
                'probe give counterexamples. (2) spec -> code: the schedules TLC enumerates (hist at '
                'terminal states) are executed by scripted tests on the real runner (threading '
                'and _thread APIs, _thread threads that touch threading, named / unnamed / '
                'names matching or nearly matching the --ignore-new-thread patterns in match '
                'mode, thread work in setUp / body / tearDown, passing / failing / skipped '
                'tests); the "left new threads behind" blocks are validated by TLC; distinct '
                '= distinct schedules')
    chk.assumptions += ['a thread "has ended" once it is joined and gone from sys._current_frames',
                        'whether the OS reuses an ident is observed (logged idents), not forced']
    if replay:
        with open(replay) as f:
            r = json.load(f)
        run_cases(chk, [r['case']], 'replay')
        return
    rng = random.Random(seed * 7919 + 19)
    chk.add_tlc('Threads_design', tlc.run('Threads', 'Threads_design', timeout=900))
    chk.add_tlc('Threads_threading', tlc.run('Threads', 'Threads_threading', timeout=900))
    for cfg in ('Threads_asbuilt', 'Threads_dev_SnapshotKeepsEnded', 'Threads_probe', 'Threads_dev_NoAliveCheck', 'Threads_dev_SnapshotAfterBody',
                'Threads_dev_KeepSnapshot'):
        res = tlc.run('Threads', cfg, timeout=600)
        chk.add_tlc(cfg, res, expect_ok=False)
        if not res.violation:
            chk.machinery('%s did not produce a counterexample' % cfg)
    hs = schedules(chk, tier, rng)
    cases = [make_case('h%d' % n, h, rng) for n, h in enumerate(hs)]
    # the known low-level variant of the ident-reuse defect, and its repaired
    # threading variant, asked for directly (the OS decides about the reuse)
    for n in range(16):
        api_a = '_thread' if n % 2 == 0 else 'threading'
        h = [['test', 1], ['start', 1, False], ['test', 2], ['end', 1], ['start', 2, False],
             ['test', 3], ['end', 2]]
        c = make_case('r%d' % n, h, rng)
        for t in ('t1', 't2', 't3'):
            tt = c['world']['tests'][t]
            for ph in ('setUp', 'tearDown'):
                if ph in tt:
                    tt['body'] = tt.pop(ph)
            tt['body'] = [a for a in tt['body'] if isinstance(a, dict) and a.get('a') in ('tstart', 'trelease')]
        for a in c['world']['tests']['t1']['body']:
            if a['a'] == 'tstart':
                a['api'] = api_a
                a.pop('tname', None)
        c['args'] = sum([['--ignore-new-thread', p] for p in PATTERNS], [])
        c['pats'] = list(PATTERNS)
        cases.append(c)
    chk.sample({'schedule': cases[3]['sched'], 'world': cases[3]['world'], 'args': cases[3]['args']})
    run_cases(chk, cases, 'schedules')
