"""C19: threads left behind by a test are reported precisely."""
import json
import os
import random
import re
import tempfile
from concurrent.futures import ThreadPoolExecutor

import abstract
import runlib
import tlc

PATTERNS = ['ign', r'w\d+x$']
IGN_NAMES = ['ign-1', 'ignore me', 'w12x', 'ign']
OK_NAMES = [None, 'worker', 'xign', 'Ign-1', 'w12xy', 'net-ign', ' ign']
# pattern lists whose members must keep their own meaning (an inline flag, a
# numbered backreference): (patterns, names to be ignored, names to be reported)
PATTERN_SETS = [
    (PATTERNS, IGN_NAMES, OK_NAMES),
    ([r'(?i)pool-\d+', 'Worker'], ['POOL-7', 'pool-12', 'Worker-1'], [None, 'worker', 'pool-x', 'xWorker']),
    ([r'srv-(\d)-\1', r'cli-(\d)-\1'], ['srv-1-1', 'cli-2-2'], [None, 'cli-2-3', 'srv-1-2', 'xcli-2-2']),
]
IDENT = re.compile(r'\d{8,}')


def parse_scheds(out):
    """the PrintT(<<"SCHED", hist>>) values of a TLC run (hist is a sequence
    of tuples of numbers, strings and booleans: read as JSON)"""
    dec = json.JSONDecoder()
    seen = {}
    for chunk in re.split(r'<<\s*"SCHED"\s*,', out)[1:]:
        txt = chunk.replace('<<', '[').replace('>>', ']').replace('TRUE', 'true').replace('FALSE', 'false')
        h, _ = dec.raw_decode(txt.lstrip())
        if any(x[0] in ('start', 'end', 'hookstart') for x in h):
            seen[json.dumps(h)] = h
    return [seen[k] for k in sorted(seen)]


def born(h):
    """thread -> number of the test that started it (0: before the first)"""
    t, res = 0, {}
    for x in h:
        if x[0] == 'test':
            t = x[1]
        elif x[0] == 'start':
            res[x[1]] = t
        # (a thread a layer hook started between two tests is born in none)
    return res


def cross(h, kinds):
    """does an action of one of these kinds hit a thread that an *earlier*
    test (or nobody: it existed before the first test) started"""
    t, b = 0, born(h)
    for x in h:
        if x[0] == 'test':
            t = x[1]
        elif x[0] in kinds and b.get(x[1]) != t:
            return True
    return False


def schedules(chk, tier, rng, runs):
    """TLC enumerates the schedules (Threads.tla hist at terminal states):
    Threads_sched_base - 3 tests x 3 threading threads, starts and ends;
    Threads_sched - 2 tests x 2 threads of either API, one of them possibly
    started before the first test, adopt and rename steps; thorough tier:
    random walks through the full-size model (Threads_sched_sim)."""
    res = runs['Threads_sched_base']
    chk.add_tlc('Threads_sched_base (schedule export)', res)
    allh = parse_scheds(res.out)
    resx = runs['Threads_sched']
    chk.add_tlc('Threads_sched (schedule export: threads before the first test, adopt, rename)', resx)
    allx = parse_scheds(resx.out)
    if 'Threads_sched_sim' in runs:
        chk.add_tlc('Threads_sched_sim (random walks)', runs['Threads_sched_sim'])
        have = set(json.dumps(h) for h in allx)
        allx += [h for h in parse_scheds(runs['Threads_sched_sim'].out) if json.dumps(h) not in have]
    chk.extra['schedules_enumerated_by_tlc'] = len(allh) + len(allx)
    chk.extra['schedules_with_pre_existing_threads_adopt_rename'] = len(allx)
    if not allh or not allx:
        chk.machinery('TLC exported no schedules')
    # the interesting ones first: a thread ends in a later test than it started
    crossing = [h for h in allh if cross(h, ('end',))]
    rest = [h for h in allh if not cross(h, ('end',))]
    n = 110 if tier == 'quick' else 1200
    pick = rng.sample(crossing, min(len(crossing), n * 2 // 3))
    pick += rng.sample(rest, min(len(rest), n - len(pick)))
    # ... a thread that is older than the test becomes known to threading / is renamed
    nx = 60 if tier == 'quick' else 900
    xadopt = [h for h in allx if cross(h, ('adopt',))]
    xrename = [h for h in allx if not cross(h, ('adopt',)) and cross(h, ('rename',))]
    xrest = [h for h in allx if not cross(h, ('adopt', 'rename'))]
    pickx = rng.sample(xadopt, min(len(xadopt), nx // 3))
    pickx += rng.sample(xrename, min(len(xrename), nx // 3))
    pickx += rng.sample(xrest, min(len(xrest), nx - len(pickx)))
    # ... a per-test layer hook (testSetUp) starts a thread between two tests
    resh = runs['Threads_sched_hook']
    chk.add_tlc('Threads_sched_hook (schedule export: threads started by the testSetUp hook of a test)', resh)
    allk = [h for h in parse_scheds(resh.out) if any(x[0] == 'hookstart' for x in h)]
    if 'Threads_sched_sim' in runs:
        allk += [h for h in allx if any(x[0] == 'hookstart' for x in h)]
    if not allk:
        chk.machinery('TLC exported no schedule with a thread started by a layer hook')
    chk.extra['schedules_with_threads_started_by_a_layer_hook'] = len(allk)
    nk = 45 if tier == 'quick' else 600
    later = [h for h in allk if hook_after_a_test(h)]
    first = [h for h in allk if not hook_after_a_test(h)]
    pickk = rng.sample(later, min(len(later), nk * 3 // 4))
    pickk += rng.sample(first, min(len(first), nk - len(pickk)))
    return pick, pickx, pickk


def hook_after_a_test(h):
    """is a thread started by the hook of a test that is not the first"""
    t = 0
    for x in h:
        if x[0] == 'test':
            t = x[1]
        elif x[0] == 'hookstart' and t >= 1:
            return True
    return False


def counterexample_hist(out):
    """hist in the last state of a TLC counterexample"""
    i = out.rfind('/\\ hist = ')
    if i < 0:
        return None
    txt = out[i + len('/\\ hist = '):]
    txt = txt.replace('<<', '[').replace('>>', ']').replace('TRUE', 'true').replace('FALSE', 'false')
    return json.JSONDecoder().raw_decode(txt.lstrip())[0]


# exact replay of a TLC counterexample: the model's name numbers as names
EXACT_NAMES = {1: 'worker', 2: 'xign', 3: 'ign-1'}


def make_case(cid, h, rng, mode='base'):
    """world and options for one schedule.  mode 'base': the schedule only
    has threading threads and Python varies the API; 'x': the API is the
    schedule's (adopt / rename depend on it), names are drawn from the class
    the schedule names (reported / ignored), so equal names happen; 'exact':
    a TLC counterexample, replayed as it is."""
    exact = mode == 'exact'
    cfg = [x for x in h if x[0] == 'cfg']
    dummy_ignored = bool(cfg[0][1]) if (exact and cfg) else rng.random() < 0.25
    base_pats, ign_names, ok_names = PATTERN_SETS[0] if exact else rng.choice(PATTERN_SETS)
    pats = list(base_pats) + (['Dummy-'] if dummy_ignored else [])
    adopted = set(x[1] for x in h if x[0] == 'adopt')
    tests = {}
    pre = []
    by_hook = []
    attrs = {}
    cur = None
    for x in h:
        if x[0] == 'test':
            cur = 't%d' % x[1]
            tests[cur] = {'body': []}
        elif x[0] in ('start', 'hookstart'):
            th, g = 'th%d' % x[1], x[2]
            if mode == 'base':
                api = rng.choice(['threading', 'threading', '_thread', '_thread_ct'])
                if api != 'threading' and g != dummy_ignored:
                    api = 'threading'
            elif x[3] == 'threading':
                api = 'threading'
            else:
                # a thread the schedule adopts later starts unknown to threading
                api = '_thread' if (exact or x[1] in adopted or rng.random() < 0.6) else '_thread_ct'
            a = {'a': 'tstart', 'name': th, 'api': api}
            if api == 'threading':
                nm = EXACT_NAMES[x[4]] if exact else rng.choice(ign_names if g else ok_names)
                if nm is not None:
                    a['tname'] = nm
            attrs[th] = a
            if x[0] == 'hookstart':
                # by the layer's testSetUp hook, at its first call after test cur
                by_hook.append(dict(a, after=cur or ''))
                continue
            # before the first test: started while the test module is imported
            (tests[cur]['body'] if cur else pre).append(a)
        elif x[0] == 'end':
            tests[cur]['body'].append({'a': 'trelease', 'name': 'th%d' % x[1]})
        elif x[0] == 'adopt':
            tests[cur]['body'].append({'a': 'tadopt', 'name': 'th%d' % x[1]})
        elif x[0] == 'rename':
            th, g = 'th%d' % x[1], x[2]
            nm = EXACT_NAMES[x[3]] if exact else rng.choice(
                ign_names if g else [n for n in ok_names if n is not None])
            # a test renames the Thread object it holds, or the thread renames itself
            by = 'test' if (attrs[th]['api'] == 'threading' and rng.random() < 0.5) else 'self'
            tests[cur]['body'].append({'a': 'trename', 'name': th, 'tname': nm, 'by': by})
    # where in the test the thread work happens varies; outcomes too
    for t in tests.values():
        r = 1.0 if exact else rng.random()
        if r < 0.15:
            t['setUp'] = t.pop('body')
        elif r < 0.3:
            t['tearDown'] = t.pop('body')
        elif r < 0.45:
            t['body'].append(rng.choice(['fail', {'a': 'error'}, 'skip']))
    # tests skipped by a decorator run no code at all (and on some CPython
    # versions never reach startTest): they start no thread, so none may be
    # reported for them, whatever the tests before them left behind
    for tid in sorted(tests):
        if not exact and rng.random() < 0.3:
            tests[tid + 's'] = {'deco': 'skip', 'kind': 'skip_deco'}
            if rng.random() < 0.4:
                tests[tid + 'ss'] = {'deco': 'skip', 'kind': 'skip_deco'}
    world = {'id': cid, 'layers': {'L1': {'kind': 'class', 'bases': [],
                                          'hooks': ['setUp', 'tearDown', 'testSetUp', 'testTearDown']}},
             'layer_order': ['L1'],
             'classes': {'TA': {'tests': sorted(tests), 'layer': 'L1'}}, 'tests': tests}
    if pre:
        world['pre_threads'] = pre
    if by_hook:
        world['layers']['L1']['hook_threads'] = by_hook
    args = []
    for p in pats:
        args += ['--ignore-new-thread', p]
    if rng.random() < 0.3:
        args.append('-v')
    return {'id': cid, 'world': world, 'args': args, 'pats': pats, 'sched': h}


def record(case, res):
    w = case['world']
    by_name = {abstract.test_name(w, t): t for t in w['tests']}
    order = []
    ev = []
    harness_err = ''
    for e in res['events']:
        if e['e'] == 'T' and e['t'] not in order:
            order.append(e['t'])
        elif e['e'] == 'ThreadStart':
            ign = any(re.match(p, e['name']) for p in case['pats'])
            ev.append({'e': 'S', 't': e['t'], 'th': e['thread'], 'ident': str(e['ident']), 'ign': ign,
                       'api': 'threading' if e['api'] == 'threading' else 'lowlevel',
                       'hook': bool(e.get('hook'))})
        elif e['e'] == 'ThreadName':
            # the thread is seen under another name from now on
            if e.get('error'):
                harness_err = 'thread %s could not %s: %s' % (e['thread'], e['how'], e['error'])
            ign = any(re.match(p, e['name']) for p in case['pats'])
            ev.append({'e': 'N', 't': e['t'], 'th': e['thread'], 'ident': str(e['ident']), 'ign': ign,
                       'api': '', 'hook': False})
        elif e['e'] == 'ThreadEnd':
            ev.append({'e': 'E', 't': e['t'], 'th': e['thread'], 'ident': str(e['ident']), 'ign': False,
                       'api': '', 'hook': False})
    # decorator-skipped tests take their place in the (sorted) execution order
    order = [t for t in sorted(w['tests']) if t in order or w['tests'][t].get('deco') == 'skip']
    rep = {t: [] for t in order}
    unknown = 0
    for tline, thline in res['report']['threads']:
        t = by_name.get(tline.strip())
        if t is None or t not in rep:
            unknown += 1
            continue
        rep[t] += IDENT.findall(thline)
    return {'id': case['id'], 'tests': order, 'ev': ev, 'rep': rep or {'_': []},
            'unknownBlocks': unknown, 'crashed': res.get('crashed', '') or '',
            'harnessError': harness_err}


def validate(chk, recs, label):
    fd, path = tempfile.mkstemp(prefix='verif-thr-', suffix='.json')
    with os.fdopen(fd, 'w') as f:
        json.dump(recs, f)
    try:
        res = tlc.run('Trace_Threads', 'Trace_Threads', env={'TRACE_FILE': path}, timeout=1800)
    finally:
        os.unlink(path)
    chk.add_tlc('Trace_Threads ' + label, res)
    return {m[1]: (m[2], m[3]) for m in tlc.printed_tuples(res.out, 'THR')}


def run_cases(chk, cases, label):
    jobs = [{'id': c['id'], 'world': c['world'], 'args': c['args'], 'stdout_kind': 'file'}
            for c in cases]
    results = runlib.run_inproc_many(jobs, chunk=4)
    recs = [record(c, r) for c, r in zip(cases, results)]
    verdicts = validate(chk, recs, label)
    reuse = 0
    for c, r, rec in zip(cases, results, recs):
        v = verdicts.get(c['id'])
        if v is None:
            chk.machinery('no THR line for %s' % c['id'])
            continue
        chk.traces += 1
        chk.nontrivial.add(json.dumps(c['sched']))
        idents = {}
        for e in rec['ev']:
            if e['e'] == 'S':
                if e['ident'] in idents:
                    reuse += 1
                idents[e['ident']] = e['th']
        if rec['harnessError']:
            chk.machinery('%s: %s' % (c['id'], rec['harnessError']))
            continue
        clause, t = v
        if rec['crashed'] or rec['unknownBlocks']:
            clause, t = 'C19:report-unreadable', rec['crashed'] or 'unknown test line'
        if clause:
            chk.violation(clause, '%s at test %s; schedule %s' % (clause, t, c['sched']),
                          {'case': c, 'record': rec, 'stdout_tail': r.get('stdout', '')[-2500:],
                           'crash_tb': r.get('crash_tb', '')})
    chk.extra['runs_in_which_the_os_reused_an_ident'] = chk.extra.get(
        'runs_in_which_the_os_reused_an_ident', 0) + reuse


DESIGN_CFGS = ('Threads_design', 'Threads_threading', 'Threads_hook')
DEV_CFGS = ('Threads_asbuilt', 'Threads_dev_SnapshotKeepsEnded', 'Threads_probe',
            'Threads_dev_NoAliveCheck', 'Threads_dev_SnapshotAfterBody', 'Threads_dev_KeepSnapshot',
            'Threads_dev_SnapshotFromPrevStop',
            'Threads_dev_ProxyEqName', 'Threads_dev_OnePerName')


def tlc_runs(tier, seed):
    """all TLC runs on Threads.tla, side by side"""
    todo = [(c, dict(workers=8, timeout=900)) for c in DESIGN_CFGS]
    # one worker: the same (shortest) counterexample every time
    todo += [(c, dict(workers=1, timeout=600)) for c in DEV_CFGS]
    todo += [('Threads_sched_base', dict(workers=1, timeout=900)),
             ('Threads_sched', dict(workers=1, timeout=900)),
             ('Threads_sched_hook', dict(workers=1, timeout=900))]
    if tier != 'quick':
        todo.append(('Threads_sched_sim', dict(workers=1, timeout=1800, simulate='num=4000', depth=60,
                                               seed=seed + 1)))
    with ThreadPoolExecutor(max_workers=8) as ex:
        futs = {c: ex.submit(tlc.run, 'Threads', c, **kw) for c, kw in todo}
        return {c: f.result() for c, f in futs.items()}


def run(chk, tier, seed, replay=None):
    chk.rule = ('(1) TLC: Threads.tla - 3 tests x 3 threads (one may exist before the first test: '
                'started at import time) x <= 3 operations per test: start (threading or low-level '
                'API, names from a small set so that threads share names, ignored or not), end (in '
                'the same or any later test or never), adopt (a running low-level thread becomes '
                'known to threading and is seen under another name), rename: Precise (report = '
                'started in this test, running at its end, name at its end not ignored; explicit '
                'don\'t-care zone for a thread whose name changed its ignore class inside the test '
                'that started it) holds when idents are never reused, and with reuse for threading '
                'threads; with reuse and low-level threads (asbuilt) TLC produces the hidden-leak '
                'counterexample; Threads_hook: the same with threads started by a per-test layer hook '
                '(testSetUp, called by startTest before the snapshot is taken) between two tests - '
                'they exist before the test and are never reportable; seven deviation configs (among '
                'them ProxyEqName: proxy equality looks at the name; OnePerName; SnapshotFromPrevStop: '
                'the threads found at the previous stopTest reused as the next snapshot) and the '
                'reuse probe give counterexamples. (2) spec -> code: '
                'the schedules TLC enumerates (hist at terminal states; base: 3 tests x 3 threads; '
                'extended: threads older than the first test, adopt and rename steps, API chosen by '
                'TLC; hook: threads started by the layer\'s testSetUp hook of the first or a later '
                'test) and the counterexamples of the deviation configs are executed by scripted '
                'tests on the real runner (threading and _thread APIs, _thread threads that touch '
                'threading at once or when told, renames by the test or by the thread itself, named '
                '/ unnamed / equal names / names matching or nearly matching the '
                '--ignore-new-thread patterns in match mode, thread work in setUp / body / '
                'tearDown, passing / failing / skipped tests); the "left new threads behind" '
                'blocks are validated by TLC; distinct = distinct schedules')
    chk.assumptions += ['a thread "has ended" once it is joined and gone from sys._current_frames',
                        'whether the OS reuses an ident is observed (logged idents), not forced',
                        'a thread unknown to threading is seen under the name "Dummy-<ident>"; the '
                        'ignore patterns used treat all "Dummy-" names alike']
    if replay:
        with open(replay) as f:
            r = json.load(f)
        run_cases(chk, [r['case']], 'replay')
        return
    rng = random.Random(seed * 7919 + 19)
    runs = tlc_runs(tier, seed)
    for cfg in DESIGN_CFGS:
        chk.add_tlc(cfg, runs[cfg])
    cex = []
    for cfg in DEV_CFGS:
        res = runs[cfg]
        chk.add_tlc(cfg, res, expect_ok=False)
        if not res.violation:
            chk.machinery('%s did not produce a counterexample' % cfg)
            continue
        h = counterexample_hist(res.out)
        if h is None:
            chk.machinery('%s: no hist in the counterexample' % cfg)
        else:
            cex.append((cfg, h))
    hs, hx, hk = schedules(chk, tier, rng, runs)
    cases = [make_case('h%d' % n, h, rng) for n, h in enumerate(hs)]
    cases += [make_case('x%d' % n, h, rng, 'x') for n, h in enumerate(hx)]
    cases += [make_case('k%d' % n, h, rng, 'x') for n, h in enumerate(hk)]
    # what the model says a deviating runner would get wrong, tried on the runner
    # (each counterexample as it is, and with Python's variations)
    for cfg, h in cex:
        name = cfg.replace('Threads_', '').replace('dev_', '')
        cases.append(make_case('cex-%s' % name, h, rng, 'exact'))
        cases.append(make_case('cexv-%s' % name, h, rng, 'x'))
    # the known low-level variant of the ident-reuse defect, and its repaired
    # threading variant, asked for directly (the OS decides about the reuse)
    for n in range(16):
        api_a = '_thread' if n % 2 == 0 else 'threading'
        h = [['test', 1], ['start', 1, False], ['test', 2], ['end', 1], ['start', 2, False],
             ['test', 3], ['end', 2]]
        c = make_case('r%d' % n, h, rng)
        for t in ('t1', 't2', 't3'):
            tt = c['world']['tests'][t]
            for ph in ('setUp', 'tearDown'):
                if ph in tt:
                    tt['body'] = tt.pop(ph)
            tt['body'] = [a for a in tt['body'] if isinstance(a, dict) and a.get('a') in ('tstart', 'trelease')]
        for a in c['world']['tests']['t1']['body']:
            if a['a'] == 'tstart':
                a['api'] = api_a
                a.pop('tname', None)
        c['args'] = sum([['--ignore-new-thread', p] for p in PATTERNS], [])
        c['pats'] = list(PATTERNS)
        cases.append(c)
    chk.sample({'schedule': cases[3]['sched'], 'world': cases[3]['world'], 'args': cases[3]['args']})
    run_cases(chk, cases, 'schedules')
