"""C11: shuffle is a seed-determined permutation inside each layer."""
import copy
import json
import math
import os
import random
import tempfile

import abstract
import runlib
import tlc

SEEDS = [0, 1, 42, 2 ** 31 - 1, 2 ** 63, -5, 10 ** 30]
HOOKS = ['setUp', 'tearDown', 'testSetUp', 'testTearDown']
NAMES = ['La', 'Lb', 'Lz', 'M1', 'm2', 'Zeta', '_x', 'zz_a', 'zz_b']     # zz_*: dotted name sorts after the unit layer's


def make_world(wid, rng):
    """independent layers with 1..10 tests each (+ unit tests); layer names
    chosen so that definition order differs from sorted order"""
    nl = rng.randint(1, 4)
    names = rng.sample(NAMES, nl)
    layers, classes, tests = {}, {}, {}
    k = 0
    owners = [''] if rng.random() < 0.6 else []
    owners += names
    rng.shuffle(owners)
    for l in owners:
        if l:
            layers[l] = {'kind': 'class', 'bases': [], 'hooks': HOOKS}
        ids = []
        for _ in range(rng.choice([1, 2, 2, 3, 5, 10])):
            k += 1
            ids.append('t%d' % k)
            tests['t%d' % k] = {}
        if rng.random() < 0.3:
            # parametrised instances of one test method: equal for unittest
            # (same class, same method name), different tests all the same
            first = ids[0]
            tests[first] = {'name': 'test_' + first, 'param': 0}
            for p in range(1, rng.choice([2, 3, 4])):
                k += 1
                tests['t%d' % k] = {'name': 'test_' + first, 'param': p}
                ids.insert(rng.randint(1, len(ids)), 't%d' % k)
        c = {'tests': ids}
        if l:
            c['layer'] = l
        classes['T' + (l or 'U')] = c
    return {'id': wid, 'layers': layers, 'layer_order': [l for l in owners if l],
            'classes': classes, 'tests': tests}


def layer_of(world, t):
    for c in world['classes'].values():
        if t in c['tests']:
            return c.get('layer', '')


def choice_table(seed, need, maxn):
    rng = random.Random(seed)
    rng.seed(seed, version=1)
    out = []
    for _ in range(need):
        r = rng.random()
        out.append([int(math.floor(r * n)) for n in range(1, maxn + 1)])
    return out


def orders_from_listing(world, res):
    out = {}
    for lname, names in res['report'].get('listing', ()):
        ids, _lay, _oth = abstract.parse_listed(world, names)
        out[abstract.layer_abstract_name(lname) or 'UNIT'] = ids
    return out


def orders_from_events(world, res):
    out = {}
    evs = sorted(res['events'], key=lambda e: (e.get('ns', 0)))
    # several runs in one process: the last run is the observation
    bounds = [k for k, e in enumerate(evs) if e['e'] == 'RunBoundary']
    if len(bounds) >= 2:
        evs = evs[bounds[-2] + 1:bounds[-1]]
    for e in evs:
        if e['e'] == 'T' and e.get('ph') == 'setUp':
            l = layer_of(world, e['t']) or 'UNIT'
            if e['t'] not in out.setdefault(l, []):
                out[l].append(e['t'])
    return out


def bundle(bid, rng, seed, tier):
    """the runs of one (world, seed): list, sequential, -j, resume, --layer
    subsets; without a seed: a -j run, then list re-runs with the reported seed"""
    w = make_world(bid, rng)
    runs = []
    sargs = ['--shuffle'] + (['--shuffle-seed=%d' % seed] if seed is not None else [])

    if rng.random() < 0.5:
        w.setdefault('env', {})['import_random'] = rng.choice([1, 2, 5])

    def add(mode, kind, args, world=w, py=None, times=0):
        runs.append({'bid': bid, 'mode': mode, 'kind': kind, 'args': args, 'world': world, 'py': py,
                     'times': times})
    add('discover', 'inproc', ['--list-tests'])
    if seed is not None:
        add('list', 'inproc', sargs + ['--list-tests'])
        add('seq', 'inproc', sargs)
        add('j', 'cli', sargs + ['-j', str(rng.choice([2, 3]))])
        # listing while -j is given (no child is started for a listing)
        add('j:list', 'inproc', sargs + ['--list-tests', '-j', str(rng.choice([2, 3]))])
        # the second of two runs in one process (test modules already imported,
        # whatever the first run left in the process is there)
        add('second-run', 'cli', sargs, times=2)
        # "on every supported Python version": the other CPythons of the sandbox
        vers = sorted(runlib.OTHER_PYTHONS)
        for ver in (vers if tier != 'quick' else rng.sample(vers, min(2, len(vers)))):
            add('py%s:list' % ver, 'inproc', sargs + ['--list-tests'], py=ver)
        lnames = list(w['layers'])
        if lnames:
            # the other filters that drop whole layers after shuffling
            add('nonunit-filter:list', 'inproc', sargs + ['--list-tests', '-f'])
            add('unit-filter:list', 'inproc', sargs + ['--list-tests', '-u'])
            sub = rng.sample(lnames, rng.randint(1, len(lnames)))
            add('layer-filter:list', 'inproc', sargs + ['--list-tests'] + sum([['--layer', 'tests.%s$' % l] for l in sub], []))
            add('layer-filter:run', 'inproc', sargs + sum([['--layer', 'tests.%s$' % l] for l in sub], []))
            # forced resume: one layer cannot be torn down
            w2 = copy.deepcopy(w)
            w2['layers'][rng.choice(lnames)]['tearDown'] = 'notimpl'
            add('resume', 'cli', sargs, w2)
    else:
        add('noseed:j', 'cli', sargs + ['-j', '2'])
        # two clock-seeded runs in one process: the second one's reported seed
        # must reproduce what its children ran
        add('noseed:second-run:j', 'cli', sargs + ['-j', '2'], times=2)
        add('noseed:seq', 'inproc', sargs)
        lnames = list(w['layers'])
        if lnames:
            # clock seed and children that are resumed, not started by -j
            w2 = copy.deepcopy(w)
            w2['layers'][sorted(lnames)[0]]['tearDown'] = 'notimpl'
            add('noseed:resume', 'cli', sargs, w2)
    return w, runs


def run(chk, tier, seed, replay=None):
    chk.rule = ('(1) TLC: ShuffleMC.tla - 3 layers x 0..3 tests x every random stream (6 values per '
                'number) x every kept-layer subset: the Fisher-Yates loop action by action equals '
                'the functional definition, is a per-layer permutation, consumes a stream segment that '
                'depends only on the sizes of the layers sorted before (so filtering after shuffling '
                'cannot change an order); the FilterFirst deviation gives a counterexample. (2) real '
                'runs: bundles (world, seed) over seeds {0, 1, 42, 2^31-1, 2^63, -5, 10^30, random} and '
                'layer sizes {1,2,3,5,10}: --list-tests, sequential run, -j N children, resumed children, '
                '--layer subsets (list and run), --list-tests under the other CPython versions of the sandbox, and without a seed a -j run plus re-runs with the '
                'reported seed; TLC decides permutation / equality of all observations / seed report, and '
                '(DRIFT) equality with the Fisher-Yates order for the choice table of random.Random(seed); '
                'distinct = distinct (layer sizes, seed, modes)')
    chk.assumptions += ['random.Random(seed).random() is the environment (choice table passed to TLC)',
                        'equality across Python versions is observed on the CPythons present in the sandbox '
                        '(3.9, 3.10, 3.11, 3.13 next to 3.12), not proved']
    rng = random.Random(seed * 7919 + 11)
    if replay:
        with open(replay) as f:
            r = json.load(f)
        bundles = [(r['world'], r['runs'], r['seed'])]
    else:
        chk.add_tlc('ShuffleMC', tlc.run('ShuffleMC', 'ShuffleMC', timeout=1800))
        res = tlc.run('ShuffleMC', 'ShuffleMC_dev', timeout=600)
        chk.add_tlc('ShuffleMC_dev', res, expect_ok=False)
        if not res.violation:
            chk.machinery('ShuffleMC_dev did not produce a counterexample')
        n = 40 if tier == 'quick' else 400
        seeds = [SEEDS[i % len(SEEDS)] if i % 3 else rng.randrange(-10 ** 6, 10 ** 12) for i in range(n)]
        for i in range(0, n, 6):
            seeds[i] = None            # clock-seeded bundles
        bundles = []
        for i, s in enumerate(seeds):
            w, runs = bundle('b%d' % i, rng, s, tier)
            bundles.append((w, runs, s))
    # first wave
    results = execute([r for _w, runs, _s in bundles for r in runs])
    # second wave: re-runs with the seed each clock-seeded run reported
    second = []
    for w, runs, s in bundles:
        if s is None:
            for r in list(runs):
                rs = results[id(r)]['report'].get('seed')
                if r['mode'].startswith('noseed') and rs is not None:
                    rr = {'bid': r['bid'], 'mode': 'rerun-of-%s:list' % r['mode'], 'kind': 'inproc',
                          'args': ['--shuffle', '--shuffle-seed=%s' % rs, '--list-tests'],
                          'world': r['world'], 'rerun_of': id(r)}
                    runs.append(rr)
                    second.append(rr)
    results.update(execute(second))
    recs, meta = [], {}
    for w, runs, s in bundles:
        disc = orders_from_listing(w, results[id(runs[0])])
        lkeys = sorted(disc, key=lambda l: abstract.layer_real_name('' if l == 'UNIT' else l))
        need = sum(max(0, len(disc[l]) - 1) for l in lkeys)
        maxn = max([len(v) for v in disc.values()] + [1])
        groups = [runs[1:]] if s is not None else \
            [[r] + [q for q in runs if q.get('rerun_of') == id(r)] for r in runs[1:] if 'rerun_of' not in r]
        for gi, grp in enumerate(groups):
            obs = []
            for r in grp:
                res = results[id(r)]
                orders = orders_from_listing(w, res) if '--list-tests' in r['args'] else orders_from_events(r['world'], res)
                obs.append({'mode': r['mode'], 'seed': res['report'].get('seed') or '',
                            'orders': orders or {'_': []}})
            rid = '%s.%d' % (w['id'], gi)
            recs.append({'id': rid, 'layers': lkeys, 'tests': disc or {'_': []},
                         'choice': choice_table(s, need, maxn) if s is not None else [],
                         'given': str(s) if s is not None else '', 'obs': obs})
            meta[rid] = (w, grp, s)
    sb = bundles[min(1, len(bundles) - 1)]
    chk.sample({'world': sb[0], 'seed': sb[2], 'runs': [(r['mode'], r['args']) for r in sb[1]]})
    fd, path = tempfile.mkstemp(prefix='verif-shuf-', suffix='.json')
    with os.fdopen(fd, 'w') as f:
        json.dump(recs, f)
    try:
        tres = tlc.run('Trace_Shuffle', 'Trace_Shuffle', env={'TRACE_FILE': path}, timeout=1800)
    finally:
        os.unlink(path)
    chk.add_tlc('Trace_Shuffle', tres)
    verdicts = {m[1]: (m[2], m[3]) for m in tlc.printed_tuples(tres.out, 'SHUF')}
    drift = 0
    for rec in recs:
        v = verdicts.get(rec['id'])
        if v is None:
            chk.machinery('no SHUF line for %s' % rec['id'])
            continue
        chk.traces += len(rec['obs'])
        chk.nontrivial.add(json.dumps([[len(rec['tests'][l]) for l in rec['layers']], rec['given'],
                                       [o['mode'] for o in rec['obs']]]))
        clause, mode = v
        if clause == 'DRIFT':
            drift += 1
        elif clause:
            w, grp, s = meta[rec['id']]
            mclass = mode.split(':')[0]
            chk.violation('%s|%s' % (clause, mclass),
                          '%s in mode %s (seed %s, layer sizes %s)'
                          % (clause, mode, rec['given'] or 'clock', [len(rec['tests'][l]) for l in rec['layers']]),
                          {'world': w, 'runs': [{k: r[k] for k in ('bid', 'mode', 'kind', 'args', 'world')}
                                                for r in [{'bid': w['id'], 'mode': 'discover', 'kind': 'inproc',
                                                           'args': ['--list-tests'], 'world': w}] + grp
                                                if 'rerun_of' not in r],
                           'seed': s, 'record': rec})
    chk.extra['drift'] = drift
    if drift:
        chk.notes.append('DRIFT: %d bundles with a consistent permutation that is not the Fisher-Yates order' % drift)


def execute(runs):
    out = {}
    cli = [r for r in runs if r['kind'] == 'cli']
    for ver in [None] + sorted(runlib.OTHER_PYTHONS):
        inproc = [r for r in runs if r['kind'] == 'inproc' and r.get('py') == ver]
        jobs = [{'id': str(i), 'world': r['world'], 'args': r['args'], 'stdout_kind': 'file'}
                for i, r in enumerate(inproc)]
        py = runlib.OTHER_PYTHONS[ver] if ver else None
        for r, res in zip(inproc, runlib.run_inproc_many(jobs, python=py)):
            out[id(r)] = res
    for r, res in zip(cli, runlib.run_cli_many([(r['world'], r['args'],
                                                 {'timeout': 120, 'env_extra': {'VERIF_RUN_TIMES': str(r.get('times') or 0)}})
                                                for r in cli])):
        out[id(r)] = res
    return out
