"""C05: per-test layer hooks bracket every test: bases first, mirrored, balanced."""
import random

import corecheck
import worlds

FAM = {'C05'}


def class_fixtures(rng, world):
    """some classes get a setUpClass that would skip / fail the class: the runner
    calls the tests one by one and never runs class fixtures (if it did, the
    per-test hooks would have to stay balanced around them all the same)"""
    for cs in world['classes'].values():
        if rng.random() < 0.15:
            cs['setUpClass'] = rng.choice(['skip', 'skip', 'raise', 'ok'])


def opts(rng):
    o = {'verbose': rng.choice([0, 1, 2, 3])}
    if rng.random() < 0.35:
        o['repeat'] = rng.choice([2, 3])
    if rng.random() < 0.1:
        o['stop'] = True
    if rng.random() < 0.2:
        o['color'] = True
    if rng.random() < 0.12:
        o['progress'] = True
    if rng.random() < 0.15:
        # post-mortem mode runs the tests through TestCase.debug() in a loop of its own
        # (the debugger finds its stdin at end of file and lets the run end)
        o['pm'] = True
    return o


def run(chk, tier, seed, replay=None):
    chk.rule = ('worlds = TLC-exported layer DAGs x random per-test hook sets x '
                'sequences of 1..3 tests per layer drawn from every outcome kind '
                '(pass, fail, error, decorator skip, skip in setUp/body, expected '
                'failure, unexpected success, failing subtests, tearDown error, '
                'cleanup error, two result events, SystemExit) x --repeat; '
                'distinct = distinct (graph, outcome facts, options, trace length)')
    chk.assumptions += [
        'stock unittest behaviour (is startTest called for a decorator-skipped '
        'test?) is measured on this interpreter and passed to TLC as a fact',
        'hook-less layers are unobservable',
    ]
    if replay:
        corecheck.replay(chk, FAM, replay)
        return
    rng = random.Random(seed * 7919 + 5)
    graphs = [g for g in corecheck.export_graphs(chk, 4) if g['n'] >= 1]
    if tier == 'quick':
        corecheck.run_mc(chk, ['Runner_design', 'Runner_hooks_q', 'Runner_dev_skip'],
                         expect_violation=['Runner_dev_skip'])
        n1, n2 = 170, 130
    else:
        corecheck.run_mc(chk, ['Runner_design', 'Runner_deep2', 'Runner_hooks',
                               'Runner_dev_skip'],
                         expect_violation=['Runner_dev_skip'], timeout=3000)
        n1, n2 = 2000, 2000
    allk = list(worlds.OUTCOMES)
    prof_a = {'sweep': True, 'kinds': 'mixed', 'hooks': 'random',
              'outcomes': allk, 'tests_per_layer': (1, 3), 'opts': opts,
              'unit_tests': (0, 2)}
    prof_b = {'kinds': 'mixed', 'hooks': 'all', 'outcomes': allk,
              'tests_per_layer': (2, 3), 'opts': opts, 'faults': (0.05, 0.05, 0.0),
              'permute_names': True, 'big': 0.45}
    cases = corecheck.gen_cases(rng, graphs, n1, prof_a, 'a')
    cases += corecheck.gen_cases(rng, graphs, n2, prof_b, 'b')
    for c in cases:
        class_fixtures(rng, c['world'])
    for c in cases[:3]:
        chk.sample({'world': c['world'], 'options': c['o'], 'mode': c['mode']})
    corecheck.run_cases(chk, FAM, cases)
    # the same property on the other CPythons of the sandbox: unittest's own
    # behaviour around skipped tests differs between versions; the reference
    # result events are measured on the interpreter that runs the world
    import runlib
    used = {}
    per = 25 if tier == 'quick' else 300
    for ver, py in sorted(runlib.OTHER_PYTHONS.items()):
        sub = [dict(c, id='%s-py%s' % (c['id'], ver)) for c in
               corecheck.gen_cases(rng, graphs, per, prof_a, 'v' + ver.replace('.', ''))
               if c['mode'] == 'inproc']
        for c in sub:
            c['world']['id'] = c['id']
            # exception groups do not exist before 3.11
        corecheck.run_cases(chk, FAM, sub, label='CPython ' + ver, python=py)
        used[ver] = len(sub)
    chk.extra['other_interpreters'] = used or 'none available'
