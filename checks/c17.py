"""C17: XML reports are well-formed and agree with the run."""
import copy
import itertools
import json
import os
import random
import re
import tempfile

import runlib
import tlc
import worlds

# character classes (XML 1.0 Char production) with representative members
CLASSES = {
    'plain': ['abc', 'x y'], 'markup': ['<&>"\'', '<a href="x">&amp;'], 'cdataend': [']]>'],
    'newline': ['a\nb', 'a\tb\r\nc'], 'c0': ['\x01', '\x1b[0m', '\x08'], 'nul': ['\x00'],
    'del_c1': ['\x7f', '\x85'], 'surrogate': ['\ud800', '\udfff'],
    'nonchar': ['￾', '￿'], 'astral': ['\U0001f600'], 'nonascii': ['\xe9€'],
    'long': ['x' * 20000],
}
ILLEGAL = ['c0', 'nul', 'surrogate', 'nonchar']
ILLEGAL_RE = re.compile('[^\t\n\r\x20-\ud7ff\ue000-\ufffd\U00010000-\U0010ffff]')
NAME_POOL = [('plain', 'test_a{}'), ('plain', 'test_p_1.{}'), ('markup', 'test_<&>"{}'),
             ('plain', 'test{} with space'), ('nonascii', 'test_\xe9{}'), ('c0', 'test_\x01{}'),
             ('surrogate', 'test_\ud800{}'), ('plain', 'test_{}.x.y')]
KINDS = ['pass', 'fail', 'error', 'skip_deco', 'skip_body', 'xfail', 'uxsuccess', 'subfail',
         'two_events', 'fail_cleanup', 'td_error', 'setup_error', 'odd_exc']


def make_case(cid, rng, kinds, msg_classes, name_mode):
    tests, ids, illegal = {}, [], set()
    for k, kind in enumerate(kinds):
        tid = 't%d' % (k + 1)
        t = copy.deepcopy(worlds.OUTCOMES[kind])
        t['kind'] = kind
        # the message of every raising action gets characters of the chosen classes
        msg = 'm%d ' % k + ''.join(rng.choice(CLASSES[c]) for c in msg_classes)

        def setmsg(actions):
            out = []
            for a in actions:
                if a == 'fail':
                    a = {'a': 'fail'}
                if isinstance(a, dict) and a.get('a') in ('fail', 'error'):
                    a = dict(a, msg=msg)
                if isinstance(a, dict) and a.get('a') == 'subtest':
                    a = dict(a, do=setmsg(a.get('do', ())))
                out.append(a)
            return out
        for ph in ('setUp', 'body', 'tearDown'):
            if ph in t:
                t[ph] = setmsg(t[ph])
        if 'cleanups' in t:
            t['cleanups'] = [setmsg(c) for c in t['cleanups']]
        if any(c in ILLEGAL for c in msg_classes) and kind not in ('pass', 'skip_deco', 'skip_body', 'xfail', 'uxsuccess'):
            illegal |= {c for c in msg_classes if c in ILLEGAL}
        if name_mode == 'odd' or (name_mode == 'mixed' and rng.random() < 0.4):
            ncls, pat = NAME_POOL[(k + rng.randrange(len(NAME_POOL))) % len(NAME_POOL)]
            t['name'] = pat.format(k)
            if ncls in ILLEGAL:
                illegal.add(ncls)
        tests[tid] = t
        ids.append(tid)
    # doctest cases next to the unittest ones
    doctests = {}
    for k in range(rng.choice([0, 0, 1, 2])):
        did = 'd%d' % (k + 1)
        text = 'dm%d ' % k + ''.join(rng.choice(CLASSES[c]) for c in msg_classes if c != 'long')
        lit = text.encode('unicode_escape').decode('ascii').replace('"', '\\"')
        kind = rng.choice(['pass', 'fail', 'error'])
        src = {'pass': '>>> 1 + 1\n2\n',
               'fail': '>>> print("%s")\nsomething else\n' % lit,
               'error': '>>> raise ValueError("%s")\n' % lit}[kind]
        doctests[did] = {'name': rng.choice(['tests.doc_%d', 'tests.sub.doc_%d', 'tests.a.b.doc_%d']) % k,
                         'source': src, 'kind': 'doctest-' + kind}
        if kind != 'pass':
            illegal |= {c for c in msg_classes if c in ILLEGAL}
    half = max(1, len(ids) // 2)
    classes = {'TA': {'tests': ids[:half], 'layer': 'L1'}}
    if ids[half:]:
        classes['TB'] = {'tests': ids[half:]}
    world = {'id': cid, 'layers': {'L1': {'kind': 'class', 'bases': [], 'hooks': ['setUp', 'tearDown']}},
             'layer_order': ['L1'], 'classes': classes, 'tests': tests}
    if doctests:
        world['doctests'] = doctests
    args = []
    rep = 1
    if rng.random() < 0.25:
        rep = 2
        args += ['--repeat', '2']
    if rng.random() < 0.3:
        args.append('--buffer')
    if rng.random() < 0.3:
        args.append('-v')
    return {'id': cid, 'world': world, 'args': args, 'repeat': rep, 'illegal': sorted(illegal),
            'msg_classes': list(msg_classes)}


def record(case, res, ref):
    w = case['world']
    own = {}
    for c, cs in w['classes'].items():
        for t in cs['tests']:
            own[t] = ('tests.' + c, w['tests'][t].get('name', 'test_' + t))
    for did, d in w.get('doctests', {}).items():
        own[did] = (d['name'].rpartition('.')[0], d['name'].rpartition('.')[2])

    def pattern(n):
        # a character XML 1.0 cannot carry may be rendered by any short
        # replacement; everything else must be there verbatim
        return ''.join('.{0,8}' if ILLEGAL_RE.match(ch) else re.escape(ch) for ch in n)

    def resolve(cn, name):
        for t, (c, n) in own.items():
            if cn == c and re.match('^' + pattern(n) + '( .*)?$', name, re.S):
                return t
        return '?'
    files = []
    for f in res.get('xml_files', []):
        def num(x):
            try:
                return int(x)
            except (TypeError, ValueError):
                return -1
        cases = []
        for c in f.get('cases', []):
            ch = [x for x in c['children'] if x in ('failure', 'error')]
            kind = 'both' if len(set(ch)) > 1 else (ch[0] if ch else 'none')
            cases.append({'t': resolve(c['classname'], c['name']), 'kind': kind})
        files.append({'file': f['file'], 'wellformed': f['wellformed'],
                      'tests': num(f.get('attrs', {}).get('tests')),
                      'errors': num(f.get('attrs', {}).get('errors')),
                      'failures': num(f.get('attrs', {}).get('failures')),
                      'ncase': len(f.get('cases', [])), 'nerror': f.get('n_error', -2),
                      'nfailure': f.get('n_failure', -2), 'cases': cases})
    # which tests each report file holds, in execution order (class order / doctest order)
    suite_tests = {}
    for c, cs in w['classes'].items():
        suite_tests['tests.%s.xml' % c] = list(cs['tests'])
    for did, d in w.get('doctests', {}).items():
        suite_tests.setdefault('%s.xml' % d['name'].rpartition('.')[0], []).append(did)
    return {'id': case['id'], 'repeat': case['repeat'], 'illegal': case['illegal'],
            'suiteTests': suite_tests or {'_': []},
            'tests': [{'t': t, 'ref': ref['ev'].get(t, [])} for t in own],
            'files': files, 'crashed': res.get('crashed', '') or ''}


def run(chk, tier, seed, replay=None):
    chk.rule = ('(1) TLC: XmlReport.tla - the recording machine (_record / writeXMLReports) for 2 tests x '
                '11 outcome sequences x 2 classes x --repeat 2: attributes = element counts, every passing '
                'test once per iteration, every bad event a testcase of its own test with the right child; '
                'the serialiser table maps every character class sequence <= 3 to something XML 1.0 allows; '
                'three deviation configs give counterexamples. (2) real in-process --xml runs: 13 outcome '
                'kinds (failing subtests, unexpected successes, two-event tests, decorator skips) and passing / failing / raising doctest cases x messages '
                'built from 12 character classes (markup, ]]>, newlines, C0 controls, NUL, DEL/C1, lone '
                'surrogates, U+FFFE/F, astral, non-ASCII, 20 kB) x odd test names (dots, spaces, markup, '
                'non-ASCII, control characters) x --repeat / --buffer, in-process and with the layers in subprocesses (-j N, resume: each process writes its own files); every report file is parsed with '
                'expat and TLC compares it with the recorded run; distinct = distinct (kinds, classes, names, options)')
    chk.assumptions += ['the Unicode range is covered by class partition (one or two members per class)',
                        'doctest cases are DocTestCase objects built from generated sources (DocFileCase / manuel are not generated)']
    rng = random.Random(seed * 7919 + 17)
    if replay:
        with open(replay) as f:
            cases = [json.load(f)['case']]
    else:
        chk.add_tlc('XmlReport_design', tlc.run('XmlReport', 'XmlReport_design', timeout=900))
        for dev in ('SubTestIdentity', 'CountDistinctTests', 'RawSerializer'):
            res = tlc.run('XmlReport', 'XmlReport_dev_' + dev, timeout=600)
            chk.add_tlc('dev_' + dev, res, expect_ok=False)
            if not (res.violation or 'is equal to FALSE' in res.out):
                chk.machinery('deviation config %s did not produce a counterexample' % dev)
        cases = []
        cl = list(CLASSES)
        singles = [(c,) for c in cl]
        pairs = [p for p in itertools.permutations(cl, 2)]
        n = 0
        plan = [(s, 'plain') for s in singles] + [(s, 'odd') for s in singles]
        plan += [(p, 'mixed') for p in (rng.sample(pairs, 40) if tier == 'quick' else pairs)]
        if tier != 'quick':
            plan = plan * 6 + [(tuple(rng.sample(cl, 3)), 'mixed') for _ in range(1500)]
        for mc, nm in plan:
            kinds = [rng.choice(KINDS) for _ in range(rng.randint(2, 5))]
            if 'subfail' not in kinds and rng.random() < 0.3:
                kinds.append('subfail')
            n += 1
            cases.append(make_case('x%d' % n, rng, kinds, mc, nm))
        # layers run in subprocesses (-j N, or resumed after layers that cannot be torn down)
        for k in range(10 if tier == 'quick' else 120):
            n += 1
            kinds = [rng.choice(KINDS) for _ in range(rng.randint(3, 6))]
            c = make_case('x%d' % n, rng, kinds, (rng.choice(['plain', 'markup', 'nonascii']),), 'plain')
            w = c['world']
            ids = [t for cs in w['classes'].values() for t in cs['tests']]
            w['layers'] = {l: {'kind': 'class', 'bases': [], 'hooks': ['setUp', 'tearDown']} for l in ('L1', 'L2', 'L3')}
            w['layer_order'] = ['L1', 'L2', 'L3']
            w['classes'] = {'T' + l: {'tests': ids[i::3], 'layer': l} for i, l in enumerate(('L1', 'L2', 'L3')) if ids[i::3]}
            c['args'] = [a for a in c['args'] if a not in ('--repeat', '2', '--buffer')]
            c['repeat'] = 1
            if k % 2:
                c['args'] += ['-j', '2']
            else:
                for l in w['layers'].values():
                    l['tearDown'] = 'notimpl'
            c['cli'] = True
            cases.append(c)
        # every kind alone and in pairs with plain messages (agreement clauses)
        for kinds in [[k] for k in KINDS] + [list(p) for p in itertools.product(KINDS, repeat=2)]:
            n += 1
            cases.append(make_case('x%d' % n, rng, kinds, ('plain',), 'plain'))
    refs = runlib.compute_refs([c['world'] for c in cases])
    jobs = [{'id': c['id'], 'world': c['world'], 'args': c['args'], 'xml': True, 'stdout_kind': 'file'}
            for c in cases if not c.get('cli')]
    inres = iter(runlib.run_inproc_many(jobs))
    # runs whose layers execute in subprocesses: every process writes its own reports
    import tempfile as _tf
    import inproc_worker

    def cli_one(c):
        d = _tf.mkdtemp(prefix='xmlcli-', dir=runlib.scratch_root())
        r = runlib.run_cli(c['world'], c['args'] + ['--xml', os.path.join(d, 'xml')], keep_dir=d, timeout=120)
        r['xml_files'] = inproc_worker.read_xml_reports(os.path.join(d, 'xml'))
        r['crashed'] = '' if r['rc'] in (0, 1) and 'Traceback (most recent call last)' not in r['stderr'] \
            else 'rc=%s' % r['rc']
        return r
    from concurrent.futures import ThreadPoolExecutor
    with ThreadPoolExecutor(max_workers=8) as ex:
        clires = iter(list(ex.map(cli_one, [c for c in cases if c.get('cli')])))
    results = [next(clires) if c.get('cli') else next(inres) for c in cases]
    recs = [record(c, r, ref) for c, r, ref in zip(cases, results, refs)]
    si = min(20, len(cases) - 1)
    chk.sample({'world': cases[si]['world'], 'args': cases[si]['args'], 'files': recs[si]['files']})
    fd, path = tempfile.mkstemp(prefix='verif-xml-', suffix='.json')
    with os.fdopen(fd, 'w') as f:
        json.dump(recs, f)
    try:
        tres = tlc.run('Trace_Xml', 'Trace_Xml', env={'TRACE_FILE': path}, timeout=1800)
    finally:
        os.unlink(path)
    chk.add_tlc('Trace_Xml', tres)
    verdicts = {m[1]: (m[2], m[3]) for m in tlc.printed_tuples(tres.out, 'XML')}
    nfiles = 0
    for c, r, rec in zip(cases, results, recs):
        v = verdicts.get(c['id'])
        if v is None:
            chk.machinery('no XML line for %s' % c['id'])
            continue
        chk.traces += 1
        nfiles += len(rec['files'])
        chk.nontrivial.add(json.dumps([[t.get('kind') for t in c['world']['tests'].values()],
                                       c['msg_classes'], c['args'],
                                       [t.get('name', '') for t in c['world']['tests'].values()]]))
        clause, arg = v
        if clause == 'DRIFT':
            chk.extra['drift'] = chk.extra.get('drift', 0) + 1
            chk.notes.append('DRIFT %s: testcase sequence of a report differs from the recording machine of XmlReport.tla' % c['id'])
        elif clause:
            sig = '%s|%s' % (clause, arg) if clause in ('C17:malformed', 'C17:wrong-identity', 'C17:run-aborted') else clause
            chk.violation(sig, '%s (%s): kinds %s message classes %s args %s'
                          % (clause, arg, [t.get('kind') for t in c['world']['tests'].values()],
                             c['msg_classes'], c['args']),
                          {'case': c, 'record': rec, 'xml_files': r.get('xml_files'),
                           'crash_tb': r.get('crash_tb', '')})
    chk.extra['report_files_parsed'] = nfiles
