"""C17: XML reports are well-formed and agree with the run."""
import collections
import copy
import itertools
import json
import os
import random
import re
import shutil
import tempfile
from concurrent.futures import ThreadPoolExecutor

import runlib
import tlc
import worlds

# character classes (labels of XmlReport!CharClasses) with members; which of
# them XML 1.0 allows is XmlReport!LegalChar - nothing here knows
CLASSES = {
    'plain': ['abc', 'x y'], 'markup': ['<&>"\'', '<a href="x">&amp;'], 'cdataend': [']]>'],
    'newline': ['a\nb', 'a\tb\r\nc'], 'c0': ['\x01', '\x1b[0m', '\x08', '\x0e', '\x1f'],
    'vt_ff': ['\x0b', '\x0c', 'a\x0cb\x0b'], 'nul': ['\x00'],
    'del_c1': ['\x7f', '\x85'], 'surrogate': ['\ud800', '\udfff'],
    'nonchar': ['\ufffe', '\uffff'], 'astral': ['\U0001f600'], 'nonascii': ['\xe9\u20ac'],
    'long': ['x' * 20000],
}
NAME_POOL = [('plain', 'test_a{}'), ('plain', 'test_p_1.{}'), ('markup', 'test_<&>"{}'),
             ('plain', 'test{} with space'), ('nonascii', 'test_\xe9{}'), ('c0', 'test_\x01{}'),
             ('surrogate', 'test_\ud800{}'), ('plain', 'test_{}.x.y'), ('vt_ff', 'test_\x0c{}')]
KINDS = ['pass', 'fail', 'error', 'skip_deco', 'skip_body', 'xfail', 'uxsuccess', 'subfail',
         'two_events', 'fail_cleanup', 'td_error', 'setup_error', 'odd_exc']
# single code points: the C0 and DEL-C1 ranges one by one and both sides of every
# boundary of the XML 1.0 Char production (XmlReport!XmlChar decides about them)
PROBE_CPS = sorted(set(range(0x00, 0x20)) | set(range(0x7f, 0xa0)) |
                   {0x9, 0xA, 0xD, 0x20, 0xD7FF, 0xD800, 0xDFFF, 0xE000, 0xFFFD, 0xFFFE, 0xFFFF,
                    0x10000, 0x10FFFF})


def make_case(cid, rng, kinds, msg_classes, name_mode):
    tests, ids, name_classes = {}, [], {}
    for k, kind in enumerate(kinds):
        tid = 't%d' % (k + 1)
        t = copy.deepcopy(worlds.OUTCOMES[kind])
        t['kind'] = kind
        # the message of every raising action gets characters of the chosen classes
        msg = 'm%d ' % k + ''.join(rng.choice(CLASSES[c]) for c in msg_classes)

        def setmsg(actions):
            out = []
            for a in actions:
                if a == 'fail':
                    a = {'a': 'fail'}
                if isinstance(a, dict) and a.get('a') in ('fail', 'error'):
                    a = dict(a, msg=msg)
                if isinstance(a, dict) and a.get('a') == 'subtest':
                    a = dict(a, do=setmsg(a.get('do', ())))
                out.append(a)
            return out
        for ph in ('setUp', 'body', 'tearDown'):
            if ph in t:
                t[ph] = setmsg(t[ph])
        if 'cleanups' in t:
            t['cleanups'] = [setmsg(c) for c in t['cleanups']]
        if name_mode == 'odd' or (name_mode == 'mixed' and rng.random() < 0.4):
            ncls, pat = NAME_POOL[(k + rng.randrange(len(NAME_POOL))) % len(NAME_POOL)]
            t['name'] = pat.format(k)
            name_classes[tid] = ncls
        tests[tid] = t
        ids.append(tid)
    # doctest cases next to the unittest ones
    doctests = {}
    for k in range(rng.choice([0, 0, 1, 2])):
        did = 'd%d' % (k + 1)
        text = 'dm%d ' % k + ''.join(rng.choice(CLASSES[c]) for c in msg_classes if c != 'long')
        lit = text.encode('unicode_escape').decode('ascii').replace('"', '\\"')
        kind = rng.choice(['pass', 'fail', 'error'])
        src = {'pass': '>>> 1 + 1\n2\n',
               'fail': '>>> print("%s")\nsomething else\n' % lit,
               'error': '>>> raise ValueError("%s")\n' % lit}[kind]
        doctests[did] = {'name': rng.choice(['tests.doc_%d', 'tests.sub.doc_%d', 'tests.a.b.doc_%d']) % k,
                         'source': src, 'kind': 'doctest-' + kind}
    half = max(1, len(ids) // 2)
    classes = {'TA': {'tests': ids[:half], 'layer': 'L1'}}
    if ids[half:]:
        classes['TB'] = {'tests': ids[half:]}
    world = {'id': cid, 'layers': {'L1': {'kind': 'class', 'bases': [], 'hooks': ['setUp', 'tearDown']}},
             'layer_order': ['L1'], 'classes': classes, 'tests': tests}
    if doctests:
        world['doctests'] = doctests
    args = []
    rep = 1
    if rng.random() < 0.25:
        rep = 2
        args += ['--repeat', '2']
    if rng.random() < 0.3:
        args.append('--buffer')
    if rng.random() < 0.3:
        args.append('-v')
    return {'id': cid, 'world': world, 'args': args, 'repeat': rep, 'name_classes': name_classes,
            'msg_classes': list(msg_classes)}


def make_probe_case(cid, rng, cp):
    """one code point in every position a report takes text from: the message
    of a failure and of an error, the traceback text of a failure and of an
    error, the name of a failing and of a passing test"""
    ch = chr(cp)
    tests = {
        't1': {'kind': 'fail', 'body': [{'a': 'fail', 'msg': 'pm a%sb' % ch}]},
        't2': {'kind': 'error', 'body': [{'a': 'error', 'msg': 'pm c%sd' % ch}]},
        't3': {'kind': 'fail', 'body': [{'a': 'fail', 'msg': 'plain', 'tb': 'fn_a%sb' % ch}]},
        't4': {'kind': 'error', 'body': [{'a': 'error', 'msg': 'plain', 'tb': 'fn_c%sd' % ch}]},
        't5': {'kind': 'fail', 'body': [{'a': 'fail', 'msg': 'plain'}], 'name': 'test_n%sf' % ch},
        't6': {'kind': 'pass', 'name': 'test_n%sp' % ch},
    }
    world = {'id': cid, 'layers': {'L1': {'kind': 'class', 'bases': [], 'hooks': ['setUp', 'tearDown']}},
             'layer_order': ['L1'], 'tests': tests,
             # one report file per position, so that a malformed file names the position
             'classes': {'TM': {'tests': ['t1', 't2'], 'layer': 'L1'}, 'TT': {'tests': ['t3', 't4'], 'layer': 'L1'},
                         'TN': {'tests': ['t5', 't6']}}}
    args, rep = [], 1
    r = rng.random()
    if r < 0.2:
        rep, args = 2, ['--repeat', '2']
    elif r < 0.4:
        args = ['--buffer']
    elif r < 0.5:
        args = ['-v']
    return {'id': cid, 'world': world, 'args': args, 'repeat': rep, 'name_classes': {},
            'msg_classes': ['U+%04X' % cp], 'text_classes': [],
            'probes': [{'cp': cp, 'pos': p, 'file': 'tests.%s.xml' % c}
                       for p, c in (('message', 'TM'), ('traceback', 'TT'), ('name', 'TN'))]}


def make_fault_case(cid, rng, hook, how, rep):
    """a layer whose setUp / tearDown fails (L2 sits on it); whether a test runs
    is then not a matter of --repeat: every test is 'gated', its runs are counted"""
    c = make_case(cid, rng, [rng.choice(KINDS) for _ in range(rng.randint(4, 7))],
                  (rng.choice(['plain', 'markup', 'c0']),), 'plain')
    w = c['world']
    w.pop('doctests', None)
    ids = list(w['tests'])
    hooks = ['setUp', 'tearDown']
    w['layers'] = {'L1': {'kind': 'class', 'bases': [], 'hooks': hooks, hook: how},
                   'L2': {'kind': 'class', 'bases': ['L1'], 'hooks': hooks},
                   'L3': {'kind': 'class', 'bases': [], 'hooks': hooks}}
    w['layer_order'] = ['L1', 'L2', 'L3']
    w['classes'] = {n: dict(tests=ids[i::4], **({'layer': l} if l else {}))
                    for i, (n, l) in enumerate((('TA', 'L1'), ('TB', 'L2'), ('TC', 'L3'), ('TU', ''))) if ids[i::4]}
    c['args'] = ['--repeat', '2'] if rep == 2 else []
    c['repeat'] = rep
    c['gated'] = True
    c['msg_classes'] = c['msg_classes'] + ['layer-%s-%s' % (hook, how)]
    return c


BROKEN = {
    # the exception's text goes into the report like any other message
    'raises': 'raise ImportError("no module named <x> & \\x0b \\x00 \\x1b \\ud800 \\ufffe")\n',
    'syntax': 'def broken(:\n    pass\n',
    'badsuite': 'def test_suite():\n    return 42\n',
}
BROKEN_CLASSES = {'raises': ['plain', 'markup', 'vt_ff', 'nul', 'c0', 'surrogate', 'nonchar'],
                  'syntax': ['plain'], 'badsuite': ['plain']}


def make_import_case(cid, rng, broken, args, good=True):
    """a project directory with the world's tests module (good=True) next to
    package(s) whose tests module cannot be imported; the filters in args may
    leave nothing but the import failure"""
    c = make_case(cid, rng, ['pass', 'fail', 'error', 'pass'], ('plain',), 'plain')
    w = c['world']
    w.pop('doctests', None)
    c['args'] = list(args)
    c['repeat'] = 2 if '--repeat' in args else 1
    c['cli'] = True
    c['gated'] = True
    c['project'] = {'good': good, 'broken': {m + '.tests': BROKEN[kind] for m, kind in broken}}
    c['imports'] = [m + '.tests' for m, _ in broken]
    c['import_classes'] = {m + '.tests': BROKEN_CLASSES[kind] for m, kind in broken}
    c['msg_classes'] = ['import-failure'] + [k for _, k in broken]
    return c


def printable(ch):
    return 0x20 <= ord(ch) <= 0x7e


def carried(own, name):
    """is `name` the test's own name (plus what unittest appends for a subtest)?
    Every character outside printable ASCII may have been rendered by something
    else (up to 8 characters); returns [[cp, [code points found there]]] or None.
    Whether the rendering is admissible is Trace_Xml's business."""
    if name == own or name.startswith(own + ' '):
        return [[ord(ch), [ord(ch)]] for ch in own if not printable(ch)]
    rx = ''.join(re.escape(ch) if printable(ch) else '(.{0,8}?)' for ch in own)
    m = re.match('^' + rx + '( .*)?$', name, re.S)
    if not m:
        return None
    odd = [ch for ch in own if not printable(ch)]
    return [[ord(ch), [ord(x) for x in g]] for ch, g in zip(odd, m.groups())]


def record(case, res, ref):
    w = case['world']
    own = {}
    for c, cs in w['classes'].items():
        for t in cs['tests']:
            own[t] = ('tests.' + c, w['tests'][t].get('name', 'test_' + t))
    for did, d in w.get('doctests', {}).items():
        own[did] = (d['name'].rpartition('.')[0], d['name'].rpartition('.')[2])
    imports = {m: 'i%d' % (k + 1) for k, m in enumerate(case.get('imports', []))}

    def resolve(cn, name):
        if cn in imports:
            return imports[cn], []
        # the exact name first: a rendering of another test's odd character
        # must not be mistaken for this one
        for t, (c, n) in own.items():
            if cn == c and (name == n or name.startswith(n + ' ')):
                return t, carried(n, name)
        for t, (c, n) in own.items():
            if cn == c:
                odd = carried(n, name)
                if odd is not None:
                    return t, odd
        return '?', []
    files = []
    for f in res.get('xml_files', []):
        def num(x):
            try:
                return int(x)
            except (TypeError, ValueError):
                return -1
        cases = []
        for c in f.get('cases', []):
            ch = [x for x in c['children'] if x in ('failure', 'error')]
            kind = 'both' if len(set(ch)) > 1 else (ch[0] if ch else 'none')
            t, odd = resolve(c['classname'], c['name'])
            cases.append({'t': t, 'kind': kind, 'odd': [{'cp': cp, 'got': got} for cp, got in odd]})
        files.append({'file': f['file'], 'wellformed': f['wellformed'],
                      'tests': num(f.get('attrs', {}).get('tests')),
                      'errors': num(f.get('attrs', {}).get('errors')),
                      'failures': num(f.get('attrs', {}).get('failures')),
                      'ncase': len(f.get('cases', [])), 'nerror': f.get('n_error', -2),
                      'nfailure': f.get('n_failure', -2), 'cases': cases})
    # which tests each report file holds, in execution order (class order / doctest order)
    suite_tests = {}
    if not case.get('gated'):
        for c, cs in w['classes'].items():
            suite_tests['tests.%s.xml' % c] = list(cs['tests'])
        for did, d in w.get('doctests', {}).items():
            suite_tests.setdefault('%s.xml' % d['name'].rpartition('.')[0], []).append(did)
    # how often each test was seen starting (observation; used for gated tests)
    runs = collections.Counter(e.get('t') for e in res.get('events', [])
                               if e.get('e') == 'T' and e.get('ph') == 'setUp')
    listed = (res.get('report') or {}).get('import_problems', [])
    # the character classes that went into the texts of each file (labels by construction)
    text_classes = case.get('text_classes', [c for c in case['msg_classes'] if c in CLASSES and c != 'long'])
    file_classes = {}
    for c, cs in w['classes'].items():
        file_classes['tests.%s.xml' % c] = sorted(set(text_classes) | {
            case['name_classes'][t] for t in cs['tests'] if t in case.get('name_classes', {})})
    for did, d in w.get('doctests', {}).items():
        file_classes['%s.xml' % d['name'].rpartition('.')[0]] = sorted(text_classes)
    for m in imports:
        file_classes[m + '.xml'] = sorted(case['import_classes'][m])
    return {'id': case['id'], 'repeat': case['repeat'], 'fileClasses': file_classes or {'_': []},
            'probes': case.get('probes', []),
            'imports': [{'t': t, 'module': m, 'reported': m in listed} for m, t in imports.items()],
            'suiteTests': suite_tests or {'_': []},
            'tests': [{'t': t, 'ref': ref['ev'].get(t, []), 'gated': bool(case.get('gated')),
                       'runs': runs.get(t, 0)} for t in own],
            # the literal --xml option when it was relative (the files above were then looked for
            # under <cwd at start>/<option>/testreports), '' otherwise
            'reldir': case.get('reldir', ''),
            'files': files, 'crashed': res.get('crashed', '') or ''}


DEVIATIONS = ('SubTestIdentity', 'CountDistinctTests', 'RawSerializer', 'ReportOnlyIfRan',
              'KeepPythonWhitespace')


def model_check(tier):
    """the XmlReport configurations, side by side (they are small)"""
    cfgs = ['XmlReport_design'] + ['XmlReport_dev_' + d for d in DEVIATIONS]
    if tier != 'quick':
        cfgs.append('XmlReport_chars')
    with ThreadPoolExecutor(max_workers=len(cfgs)) as ex:
        return list(zip(cfgs, ex.map(lambda c: tlc.run('XmlReport', c, workers=4, timeout=900), cfgs)))


def make_project(d, project):
    proj = os.path.join(d, 'proj')
    os.makedirs(proj)
    for fn in ('tests.py', 'worldlib.py', 'zzmod.py'):
        if fn != 'tests.py' or project['good']:
            os.symlink(os.path.join(runlib.WORLD_DIR, fn), os.path.join(proj, fn))
    for mod, src in project['broken'].items():
        pkg, _, leaf = mod.rpartition('.')
        pd = os.path.join(proj, *pkg.split('.'))
        os.makedirs(pd)
        with open(os.path.join(pd, '__init__.py'), 'w'):
            pass
        with open(os.path.join(pd, leaf + '.py'), 'w') as f:
            f.write(src)
    return proj


def run(chk, tier, seed, replay=None):
    chk.rule = ('(1) TLC: XmlReport.tla - the recording machine (import failures recorded at find time / _record / '
                'writeXMLReports) for 2 tests x 11 outcome sequences x 2 classes x every subset selected by the filters '
                'x 0..1 test modules that fail to import x --repeat 2: attributes = element counts, every passing '
                'test once per iteration, every bad event a testcase of its own test with the right child, every import '
                'failure a testcase of its module with an error child even when no test ran; the character-class table is '
                'a partition of the code points into ranges none of which straddles a boundary of the XML 1.0 Char '
                'production (XmlChar over integers), and the serialiser maps every class sequence <= 3 to something XML 1.0 '
                'allows; five deviation configs give counterexamples. (2) real --xml runs: 13 outcome '
                'kinds (failing subtests, unexpected successes, two-event tests, decorator skips) and passing / failing / raising doctest cases x messages '
                'built from 13 character classes (markup, ]]>, newlines, C0 controls, VT/FF, NUL, DEL/C1, lone '
                'surrogates, U+FFFE/F, astral, non-ASCII, 20 kB) x odd test names (dots, spaces, markup, '
                'non-ASCII, control characters) x --repeat / --buffer, in-process and with the layers in subprocesses (-j N, resume: each process writes its own files); '
                'every code point U+0000-U+001F and U+007F-U+009F and both sides of every boundary of the Char production (%d code points), each one alone '
                'in a message, in the traceback text and in a test name; layers whose setUp / tearDown fails (with --repeat); '
                'a RELATIVE --xml directory with tests that chdir and never go back, in one process and with -j 2 (the reports are looked for under '
                '<cwd at start>/<option>/testreports only); '
                'projects with test modules that cannot be imported (raising, syntax error, bad test_suite) under -m / -t filters that select '
                'nothing else, -j 2, --repeat, and runs that select nothing at all; every report file is parsed with '
                'expat and TLC compares it with the recorded run; distinct = distinct (kinds, classes, names, options)'
                % len(PROBE_CPS))
    chk.assumptions += ['outside U+0000-U+001F / U+007F-U+009F and the boundaries of the Char production the Unicode range is covered by class partition (one or two members per class)',
                        'doctest cases are DocTestCase objects built from generated sources (DocFileCase / manuel are not generated)',
                        'an error of a layer (setUp / tearDown) is not an error of a test: whether it shows up in a report is a don\'t-care; '
                        'a run that selected nothing and reported nothing may write no file or empty reports']
    rng = random.Random(seed * 7919 + 17)
    mc = None
    pool = ThreadPoolExecutor(max_workers=1)
    if replay:
        with open(replay) as f:
            cases = [json.load(f)['case']]
    else:
        mc = pool.submit(model_check, tier)      # TLC works while the real runs are made
        cases = []
        cl = list(CLASSES)
        singles = [(c,) for c in cl]
        pairs = [p for p in itertools.permutations(cl, 2)]
        n = 0
        plan = [(s, 'plain') for s in singles] + [(s, 'odd') for s in singles]
        plan += [(p, 'mixed') for p in (rng.sample(pairs, 40) if tier == 'quick' else pairs)]
        if tier != 'quick':
            plan = plan * 6 + [(tuple(rng.sample(cl, 3)), 'mixed') for _ in range(1500)]
        for mcl, nm in plan:
            kinds = [rng.choice(KINDS) for _ in range(rng.randint(2, 5))]
            if 'subfail' not in kinds and rng.random() < 0.3:
                kinds.append('subfail')
            n += 1
            cases.append(make_case('x%d' % n, rng, kinds, mcl, nm))
        # every code point of the control ranges and of the boundaries of Char, one world each
        cps = list(PROBE_CPS)
        if tier != 'quick':
            cps = sorted(set(cps) | set(range(0x100)) | {0x9 - 1, 0xD + 1, 0xD7FF - 1, 0xE000 + 1, 0xFFFD - 1,
                                                         0x10000 + 1, 0x10FFFF - 1}
                         | {rng.randrange(0x110000) for _ in range(300)})
        for cp in cps:
            n += 1
            cases.append(make_probe_case('x%d' % n, rng, cp))
        # layers whose setUp / tearDown fails
        for hook, how, rep in [('setUp', 'raise', 1), ('setUp', 'raise', 2), ('tearDown', 'raise', 1),
                               ('tearDown', 'raise', 2), ('setUp', 'KeyError', 1), ('tearDown', 'ValueError', 2)] \
                * (1 if tier == 'quick' else 10):
            n += 1
            cases.append(make_fault_case('x%d' % n, rng, hook, how, rep))
        # layers run in subprocesses (-j N, or resumed after layers that cannot be torn down)
        for k in range(10 if tier == 'quick' else 120):
            n += 1
            kinds = [rng.choice(KINDS) for _ in range(rng.randint(3, 6))]
            c = make_case('x%d' % n, rng, kinds, (rng.choice(['plain', 'markup', 'nonascii']),), 'plain')
            w = c['world']
            ids = [t for cs in w['classes'].values() for t in cs['tests']]
            w['layers'] = {l: {'kind': 'class', 'bases': [], 'hooks': ['setUp', 'tearDown']} for l in ('L1', 'L2', 'L3')}
            w['layer_order'] = ['L1', 'L2', 'L3']
            w['classes'] = {'T' + l: {'tests': ids[i::3], 'layer': l} for i, l in enumerate(('L1', 'L2', 'L3')) if ids[i::3]}
            c['args'] = [a for a in c['args'] if a not in ('--repeat', '2', '--buffer')]
            c['repeat'] = 1
            if k % 2:
                c['args'] += ['-j', '2']
            else:
                for l in w['layers'].values():
                    l['tearDown'] = 'notimpl'
            c['cli'] = True
            cases.append(c)
        # a RELATIVE --xml directory (the process starts in a scratch directory) and tests that
        # leave the process in another working directory: alone in one process and with the
        # layers in --resume-layer children (-j 2; the chdir tests sit in layers, so children run them)
        outer, rng = rng, random.Random(seed * 7919 + 1717)   # (own stream: the cases after these stay what they were)
        for k in range(6 if tier == 'quick' else 60):
            n += 1
            kinds = [rng.choice(KINDS) for _ in range(rng.randint(3, 6))]
            c = make_case('x%d' % n, rng, kinds, (rng.choice(['plain', 'markup', 'nonascii']),), 'plain')
            w = c['world']
            ids = [t for cs in w['classes'].values() for t in cs['tests']]
            # one passing test that does nothing but chdir, at a random place; some others chdir first
            tid = 't%d' % (len(ids) + 1)
            w['tests'][tid] = {'kind': 'pass', 'body': [{'a': 'chdir'}]}
            ids.insert(rng.randrange(len(ids) + 1), tid)
            for t in ids:
                if t != tid and rng.random() < 0.3:
                    w['tests'][t]['body'] = [{'a': 'chdir'}] + list(w['tests'][t].get('body', ()))
            c['args'] = [a for a in c['args'] if a != '--buffer']
            if k % 2:
                w['layers'] = {l: {'kind': 'class', 'bases': [], 'hooks': ['setUp', 'tearDown']}
                               for l in ('L1', 'L2', 'L3')}
                w['layer_order'] = ['L1', 'L2', 'L3']
                w['classes'] = {'T' + l: {'tests': ids[i::3], 'layer': l}
                                for i, l in enumerate(('L1', 'L2', 'L3')) if ids[i::3]}
                c['args'] = [a for a in c['args'] if a not in ('--repeat', '2')] + ['-j', '2']
                c['repeat'] = 1
            else:
                half = max(1, len(ids) // 2)
                w['classes'] = {'TA': {'tests': ids[:half], 'layer': 'L1'}, 'TB': {'tests': ids[half:]}}
            rel = 'xmlrel-%d-%d' % (os.getpid(), n)
            c['reldir'] = rel if k % 4 < 2 else os.path.join(rel, 'deep', 'r')
            c['msg_classes'] = c['msg_classes'] + ['relative-dir-chdir']
            c['cli'] = True
            cases.append(c)
        rng = outer
        # test modules that cannot be imported; filters that leave nothing else / nothing at all
        one = [('broken', 'raises')]
        for broken, args, good in [
                (one, [], True), (one, ['-m', 'broken'], True), (one, ['-t', 'no_such_test_zz'], True),
                (one, ['--repeat', '2'], True), (one, ['-j', '2'], True), (one, [], False),
                (one, ['-m', 'broken', '--repeat', '2'], True), (one, ['-t', 'no_such_test_zz', '-j', '2'], True),
                ([('broken', 'syntax'), ('other', 'badsuite')], ['-t', 'no_such_test_zz'], True),
                ([('broken', 'badsuite')], ['-m', 'broken'], True), ([('broken', 'syntax')], ['-m', 'broken', '-vv'], False),
                ([], ['-t', 'no_such_test_zz'], True), ([], ['-m', 'no_such_module_zz'], True),
                ([], ['-t', 'no_such_test_zz', '--repeat', '2'], True)]:
            n += 1
            cases.append(make_import_case('x%d' % n, rng, broken, args, good))
        # every kind alone and in pairs with plain messages (agreement clauses)
        for kinds in [[k] for k in KINDS] + [list(p) for p in itertools.product(KINDS, repeat=2)]:
            n += 1
            cases.append(make_case('x%d' % n, rng, kinds, ('plain',), 'plain'))
    refs = runlib.compute_refs([c['world'] for c in cases])
    jobs = [{'id': c['id'], 'world': c['world'], 'args': c['args'], 'xml': True, 'stdout_kind': 'file'}
            for c in cases if not c.get('cli')]
    # runs whose layers execute in subprocesses: every process writes its own reports
    import tempfile as _tf
    import inproc_worker

    def cli_one(c):
        d = _tf.mkdtemp(prefix='xmlcli-', dir=runlib.scratch_root())
        proj = make_project(d, c['project']) if c.get('project') else None
        # (like the in-process runs: a stdout that can take any character - what a
        # strict UTF-8 pipe does with a lone surrogate is not this property's business)
        if c.get('reldir'):
            # observation: the directory the process starts in and the literal option; the
            # requested directory is the option resolved against the START directory
            start = os.path.join(d, 'start')
            os.makedirs(start)
            r = runlib.run_cli(c['world'], c['args'] + ['--xml', c['reldir']], keep_dir=d, timeout=120, cwd=start,
                               env_extra={'PYTHONIOENCODING': 'utf-8:backslashreplace'})
            r['xml_dir'] = {'start': start, 'option': c['reldir']}
            r['xml_files'] = inproc_worker.read_xml_reports(os.path.join(start, c['reldir']))
            # what a runner that resolves the directory late leaves where the tests chdir to
            stray = os.path.join(_tf.gettempdir(), c['reldir'].split(os.sep)[0])
            r['stray_dir'] = os.path.isdir(stray)
            shutil.rmtree(stray, ignore_errors=True)
        else:
            r = runlib.run_cli(c['world'], c['args'] + ['--xml', os.path.join(d, 'xml')], keep_dir=d, timeout=120,
                               path_dir=proj, env_extra={'PYTHONIOENCODING': 'utf-8:backslashreplace'})
            r['xml_files'] = inproc_worker.read_xml_reports(os.path.join(d, 'xml'))
        r['crashed'] = '' if r['rc'] in (0, 1) and 'Traceback (most recent call last)' not in r['stderr'] \
            else 'rc=%s' % r['rc']
        return r
    with ThreadPoolExecutor(max_workers=8) as ex:
        clifuts = [ex.submit(cli_one, c) for c in cases if c.get('cli')]
        inres = iter(runlib.run_inproc_many(jobs))
        clires = iter([f.result() for f in clifuts])
    results = [next(clires) if c.get('cli') else next(inres) for c in cases]
    recs = [record(c, r, ref) for c, r, ref in zip(cases, results, refs)]
    if mc is not None:
        for cfg, res in mc.result():
            if cfg.startswith('XmlReport_dev_'):
                chk.add_tlc(cfg[len('XmlReport_'):], res, expect_ok=False)
                if not (res.violation or 'is equal to FALSE' in res.out):
                    chk.machinery('deviation config %s did not produce a counterexample' % cfg)
            else:
                chk.add_tlc(cfg, res)
    pool.shutdown()
    si = min(20, len(cases) - 1)
    chk.sample({'world': cases[si]['world'], 'args': cases[si]['args'], 'files': recs[si]['files']})
    fd, path = tempfile.mkstemp(prefix='verif-xml-', suffix='.json')
    with os.fdopen(fd, 'w') as f:
        json.dump(recs, f)
    try:
        tres = tlc.run('Trace_Xml', 'Trace_Xml', env={'TRACE_FILE': path}, timeout=1800)
    finally:
        os.unlink(path)
    chk.add_tlc('Trace_Xml', tres)
    verdicts = {m[1]: (m[2], m[3]) for m in tlc.printed_tuples(tres.out, 'XML')}
    nfiles = 0
    seen = collections.Counter()
    for c, r, rec in zip(cases, results, recs):
        v = verdicts.get(c['id'])
        if v is None:
            chk.machinery('no XML line for %s' % c['id'])
            continue
        chk.traces += 1
        nfiles += len(rec['files'])
        seen['probe_worlds'] += bool(c.get('probes'))
        seen['import_failures_reported'] += sum(i['reported'] for i in rec['imports'])
        seen['runs_without_any_test'] += bool(c.get('project')) and not any(t['runs'] for t in rec['tests'])
        seen['relative_dir_chdir_runs'] += bool(c.get('reldir'))
        seen['layer_fault_worlds'] += bool(c.get('gated')) and not c.get('project')
        chk.nontrivial.add(json.dumps([[t.get('kind') for t in c['world']['tests'].values()],
                                       c['msg_classes'], c['args'],
                                       [t.get('name', '') for t in c['world']['tests'].values()]]))
        clause, arg = v
        if clause == 'DRIFT':
            chk.extra['drift'] = chk.extra.get('drift', 0) + 1
            chk.notes.append('DRIFT %s: testcase sequence of a report differs from the recording machine of XmlReport.tla' % c['id'])
        elif clause:
            sig = '%s|%s' % (clause, arg) if clause in ('C17:malformed', 'C17:wrong-identity', 'C17:run-aborted', 'C17:report-missing') else clause
            chk.violation(sig, '%s (%s): kinds %s message classes %s args %s'
                          % (clause, arg, [t.get('kind') for t in c['world']['tests'].values()],
                             c['msg_classes'], c['args']),
                          {'case': c, 'record': rec, 'xml_files': r.get('xml_files'),
                           'xml_dir': r.get('xml_dir'), 'stray_dir_where_the_tests_chdir_to': r.get('stray_dir'),
                           'crash_tb': r.get('crash_tb', ''), 'stdout': (r.get('stdout') or '')[-3000:]})
    chk.extra['report_files_parsed'] = nfiles
    chk.extra.update(seen)
