#!/bin/sh
# usage: tools/seed_sweep.sh "<seeds>" <ID> ...   -- runs the quick checks on the unchanged tree
# with several VERIF_SEED values (false-alarm hunt); evidence goes to a scratch directory
here="$(cd "$(dirname "$0")/.." && pwd)"; seeds="$1"; shift
E=$(mktemp -d /tmp/sweep-ev.XXXXXX); trap 'rm -rf "$E"' EXIT INT TERM
cd "$here"
for s in $seeds; do for id in "$@"; do
  out=$(VERIF_SEED=$s VERIF_EVIDENCE_DIR="$E" ./check $id --tier quick 2>&1 | grep -E "^(VIOLATION|OK|MACHINERY)" | cut -c1-220 | head -3 | tr '\n' ' ')
  echo "seed=$s $id: $out"
done; done
