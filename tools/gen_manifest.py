#!/usr/bin/env python3
"""Regenerates /verif/MANIFEST.json from the table below (kept valid at all
times; validated against /root/.vp/MANIFEST.schema.json when available)."""
import json
import os

HERE = os.path.dirname(os.path.abspath(__file__))
VERIF = os.path.dirname(HERE)

CHECKS = {}


# sentences added when a check was extended (DESIGN.md 11.8)
EXTRA = {
    'C08': ' What reaches the filters is checked too: Options.tla models get_options (argparse actions over defaults '
           'and arguments, legacy positional filters, the normalisation steps) and Trace_Options judges ~900 real '
           'get_options(argv, defaults) calls per run (pattern sets given = pattern sets that reach build_filtering_func).',
    'C09': ' Options.tla / OptionsMC: the normalisation pipeline of get_options is model-checked against the documented '
           'meaning of the raw -u / -f / --layer / --all / --at-level / --only-level switches (every layer kind, match '
           'relation and level) and bound to ~900 real get_options calls per run (Trace_Options).',
    'C15': ' --usecompiled / -k on their way through get_options are judged by Trace_Options (Options.tla).',
    'C20': ' DiGraphApi.tla models the DiGraph as an API history (add_nodes / add_neighbors / sccs taken fully or '
           'partially, in any order, on one object; a memoising implementation is one of the kinds of the model): every '
           'answer is judged against SccOracle for the graph at that moment; ~5 900 histories (~43 000 queries) on the '
           'real class per quick run, the StaleCache counterexample of TLC is replayed on the real class.',
    'C19': ' Threads.tla also covers threads that exist before the first test, low-level threads becoming known to '
           'threading during a test (Adopt), renames and equal names; TLC-enumerated schedules with these actions and the '
           'counterexamples of the deviation configs are replayed on the real runner.',
    'C18': ' The gc debug flags are modelled as bits with a caller pre-state (overlapping / disjoint with -G), and '
           '--gc-after-test with its analysis window inside stopTest is part of the option enumeration (GlobalState_gc.cfg).',
    'C17': ' XmlChar(cp) is the XML 1.0 Char production over code points in TLA+; every C0 / DEL-C1 code point and every '
           'boundary of the production is used in messages, tracebacks and names; import failures with filters that select '
           'nothing else, layer failures, --repeat 2 and -j 2 are part of the --xml runs.',
    'C14': ' Discovery.tla models --usecompiled (source preferred, one file per module, source-less modules, __init__.pyc '
           'packages); trees carry real .pyc files; the listing is an observation next to the import log.',
    'C06': ' Forced-schedule worlds have layers of increasing size; a names family compares the modes over look-alike '
           'layer names and test ids with line-separator characters.',
    'C13': ' StdStreams.tla also has the start state of a layer subprocess (sys.stderr rebound to sys.stdout); --buffer runs '
           'with layers in subprocesses (-j 2, resume) go through the command line, stream identity between tests is observed '
           'inside the children; part of the cases run with --xml, and with -D.',
    'C11': ' Bundles also contain the second of two runs in one process (seeded, and clock-seeded with -j: what the first run '
           'left in the process - environment, module-level random state, imported test modules that draw random numbers at '
           'import - is there for the second), listings under -j, and parametrised test instances that compare equal.',
    'C01': ' Profiles with failing layer tearDowns under -x, layer setUps failing half-way up a stack (random and directed) '
           'and --color / -D / --progress options were added.',
    'C04': ' The worlds use --color, --progress and -vvvv, compiler-made SyntaxErrors and awkward messages, tests that stand in '
           'for sys.stdout or patch the clock while they fail; the end-of-process tear-down clauses of C01 are owned by C04 too.',
    'C05': ' The worlds use -D (tests run through TestCase.debug), class fixtures (setUpClass that skips / raises) and more '
           '5-6 layer graphs.',
    'C16': ' C16 owns the end-of-process tear-down clauses; directed worlds: setUp failure over a base that cannot be torn '
           'down, failing tests that leave their own stream in place under --buffer.',
    'C07': ' Names are compared exactly up to CR / LF -> blank; a child dying after fd-2 text the parent cannot encode; errno '
           'classes of a failing Popen.',
    'C02': ' Runs in which nothing fails but layer tearDowns (final sweep, sweeps cut short by NotImplementedError). Spawn failures of several errno classes, failures in the first --repeat iteration only and -D runs (known '
           'finding) are part of the worlds; --color is an option of the core worlds.',
}


def add(pid, category, text, note, technique, design_ref, thorough=True):
    text = text + EXTRA.get(pid, '')
    CHECKS[pid] = {
        'property_id': pid,
        'quick_cmd': './check %s --tier quick' % pid,
        'evidence_file': 'evidence/%s.json' % pid,
        'replay_cmd_template': './check %s --replay {path}' % pid,
        'engine': 'tlc',
        'level_claimed': {'category': category, 'text': text,
                          'design_ref': design_ref},
        'level_note': note,
        'technique': technique,
    }
    if thorough:
        CHECKS[pid]['thorough_cmd'] = './check %s --tier thorough' % pid


TRUSTED = ('Trusted base: TLC 1.8 / SANY, the TLA+ modules under /verif/spec, '
           'the world interpreter and event log under /verif/harness (which '
           'only performs scripted actions and records them), CPython 3.12.1 '
           'and its stock unittest (reference result events are measured, not '
           'assumed). Bounded: small-scope hypothesis beyond the stated bounds.')

add('C01', 'model_checking',
    'TLC exhaustively checks that the implementation-shaped spec Runner.tla '
    '(run_tests / run_layer / tear_down_unneeded / setup_layer / resume) refines '
    'the layer-stack P-spec LayerStack.tla for all ordered-base DAGs up to 3 '
    '(thorough: 4) layers x fault placements x options; the real runner is then '
    'driven over the TLC-exported graph family with random hooks, kinds, faults '
    'and options (in-process, resumed children, -j N) and every recorded trace '
    'is validated by TLC against the same P-spec guards, clause by clause, and - for every run Runner.tla models - '
    'against Runner.tla itself: the deterministic behaviour of the I-spec from the recorded world must produce exactly '
    'the recorded events per process and the recorded summary / total lines (Trace_RunnerI; corrupted traces must be rejected).',
    TRUSTED, 'TLA+ spec + TLC model checking + TLC trace validation of real runs against P-spec and I-spec',
    'DESIGN.md 5/C01, 11.2')

add('C05', 'model_checking',
    'TLC checks that Runner.tla (TestResult.startTest/stopTest hook loops over '
    'order_by_bases(gather_layers(layer)), the addSkip fallback) keeps the per-test '
    'bracket of LayerStack.tla (bases first, exact mirror, balanced, nothing outside '
    'the stack) for all DAGs up to 3 layers with hook-less layers, outcome kinds and '
    '--repeat; the deviation config reproduces the unbalanced-skip defect as a TLC '
    'counterexample. Real runs over the exported DAG family with every outcome kind '
    '(1..3 tests per layer) are validated by TLC event by event.',
    TRUSTED + ' Whether stock unittest calls startTest for a decorator-skipped test is measured on the interpreter in use.',
    'TLA+ spec + TLC model checking + TLC trace validation of real runs', 'DESIGN.md 5/C05')
add('C04', 'model_checking',
    'Containment is checked on Runner.tla as refinement plus termination (every '
    'fault placement in layer setUp/tearDown still reaches Done with all layers torn '
    'down); real runs with every outcome kind, 1..3 result events per test, 15 '
    'exception classes incl. SystemExit, layer faults, --buffer on/off, -v 0..3, '
    'in-process / resumed / -j are validated by TLC: run_internal returned, summary '
    'present, every fault listed against its test or layer, C01 exit clauses hold.',
    TRUSTED, 'TLA+ spec + TLC model checking (safety + liveness) + TLC trace validation', 'DESIGN.md 5/C04')
add('C16', 'model_checking',
    'TLC checks StopHolds on Runner.tla (at most one bad test per process once -x is '
    'given, no further layer set up, final tear-down still reached) over DAGs x bad '
    'test positions x --repeat; the deviation config reproduces the repeat/stop '
    'defect. Real -x runs with the first bad outcome at first/middle/last positions, '
    'all bad kinds, --repeat and --shuffle are validated by TLC against the same clauses.',
    TRUSTED, 'TLA+ spec + TLC model checking + TLC trace validation of real runs', 'DESIGN.md 5/C16')

add('C02', 'model_checking',
    'Runner.tla is model-checked (design config: every fault placement reaches Done, the '
    'bad flag is set by exactly the listed causes); real runs - zero, one or several bad '
    'outcomes of every kind, layer setUp/tearDown failures, NotImplementedError, module '
    'import failure, spawn failure (Popen interposed), children dying in test phases / '
    'layer hooks / at import by exit 0 / exit 3 / SIGKILL / SIGSEGV, reports cut at byte '
    'offsets, stdout / stderr / fd-2 noise incl. header look-alikes, in-process / resumed '
    '/ -j N - are validated by TLC: exit status == bad(trace), and the verdict of the '
    'same world with and without noise is equal.',
    TRUSTED + ' bad(trace) is computed by TLC from the recorded events (what happened), not from the plan.',
    'TLA+ spec + TLC model checking + TLC trace validation of real runs (fault injection)', 'DESIGN.md 5/C02')
add('C12', 'model_checking',
    'TLC recomputes, from the recorded events of each real run and the measured unittest '
    'result events, the per-layer summary (ran / failures / errors / skipped per iteration), '
    'the totals and the two name lists (as bags, incl. failed layers) and compares them '
    'with the parsed report; the same worlds run in-process, with -j N and with a forced '
    'resume, and TLC compares totals and lists across the modes.',
    TRUSTED, 'TLA+ spec + TLC trace validation of real runs, cross-mode relation checked by TLC', 'DESIGN.md 5/C12')

add('C03', 'model_checking',
    'Selected(w,o) is defined in Selection.tla / Filter.tla (nearest declaration, level '
    'predicate, -t / -m / --layer acceptance, -u / -f); Runner.tla is model-checked for '
    'AllRun (every runnable test exactly once per iteration, in exactly one process). '
    'Every generated (world, options) is run as a bundle - --list-tests, sequential, -j N, '
    'forced resume - and TLC validates each trace (no unselected test, none twice, none '
    'missing, children only their layer, listing = selected set per layer, listing runs no '
    'code) and the bundle (listing order = executed order per layer, same executed set).',
    TRUSTED + ' Regex matching is an environment fact (re.search) passed to TLC as match bits.',
    'TLA+ spec + TLC trace validation of real runs, cross-mode relation checked by TLC', 'DESIGN.md 5/C03')

add('C08', 'model_checking',
    'TLC checks Filter!Accept against the literal statement and its corollaries (with the exact '
    'preconditions) for all lists <= 3 over 3 abstract patterns x all match relations; TLAPS proves '
    'the corollaries for lists of any length (4 obligations); the real build_filtering_func is run '
    'on every list <= 2 (thorough <= 3) from a pool of 17 signed regexes x 11 names, directly and '
    'through get_options for -t / -m / --layer, and TLC evaluates Accept for every record; end to '
    'end, --list-tests of a fixed world for every -t / --layer list <= 2 is validated against Selected.',
    TRUSTED + ' re.search is the environment relation; the empty candidate name is outside the quantifier.',
    'TLA+ spec + TLC exhaustive check + TLAPS lemmas + TLC-evaluated oracle on real calls', 'DESIGN.md 5/C08')
add('C09', 'model_checking',
    'TLC (SelectionMC.tla): for every declaration path of depth <= 3 (thorough 4) x levels x option '
    'vectors the hand-down recursion of tests_from_suite equals the nearest declaration, and the level '
    '/ unit switches have the documented boundary behaviour; the real runner is run on all 2^10 presence '
    'patterns of layer / level over (3 nested suites, class, test instance) with random values, siblings '
    'and option vectors; TLC computes the expected grouping and selection for every listing and run.',
    TRUSTED, 'TLA+ spec + TLC exhaustive check + TLC-evaluated oracle on real listings and runs', 'DESIGN.md 5/C09')
add('C10', 'model_checking',
    'TLC (LayerOrderMC.tla): the transcription of layer_sort_key / gather_layers / order_by_bases yields '
    'a valid order (once each, bases first, unit first) that is independent of the presentation order, for '
    'all ordered-base DAGs <= 3 layers (thorough 4) x namings x subsets x all input permutations; the real '
    'order_by_bases is called with every permutation of the input for class and instance layers under three '
    'PYTHONHASHSEED values, TLC checks validity and equality of all observations (and, as DRIFT, equality '
    'with the transcription); header order of real runs with permuted discovery order is validated too.',
    TRUSTED + ' String order of names enters as a rank fact.',
    'TLA+ spec + TLC exhaustive check + TLC-evaluated oracle on real calls and runs', 'DESIGN.md 5/C10')
add('C20', 'model_checking',
    'TLC checks the I-spec Tarjan.tla (one action per loop iteration of DiGraph.sccs, nondeterministic set '
    'iteration orders) against the mutual-reachability oracle for all digraphs on 3 nodes with every '
    'iteration order (thorough: all 65 536 on 4 nodes, canonical order), plus termination; the real sccs() '
    'is run on every digraph <= 3 nodes (thorough <= 4) and random ones to 9 nodes under varied construction '
    'histories, hashable / identity-keyed / identity-keyed-but-equal nodes, both modes; TLC evaluates the oracle.',
    TRUSTED, 'TLA+ spec + TLC model checking (safety + liveness) + TLC-evaluated oracle on real calls', 'DESIGN.md 5/C20')

add('C13', 'model_checking',
    'TLC (StdStreams.tla) enumerates every history of 2 tests, each any interleaving of <= 2 writes, <= 2 '
    '(thorough 3) result events of every kind (incl. a never-started skip) and redirections of a std stream by '
    'the test itself, with and without --buffer: NoLeak, Complete, Attributed, Restored, NeverReplaced, '
    'NotAborted; five deviation configs each produce a counterexample. Real in-process runs of every ordered '
    'pair (thorough: triples) of 16 outcome kinds with writes sprinkled over all phases (stdout / stderr, '
    'no newline, via .buffer), --buffer on / off, three kinds of original stream, are judged by TLC clause by '
    'clause from the measured write / event history, and the I-spec must predict the exact output sequence (DRIFT).',
    TRUSTED + ' Where a write sits relative to the result events of its test is measured under stock unittest.',
    'TLA+ spec + TLC model checking + TLC validation of real runs against P- and I-spec', 'DESIGN.md 5/C13')

add('C18', 'model_checking',
    'TLC (GlobalState.tla) checks Runner.run as a pipeline - catch_warnings, global_setup / late_setup / '
    'early_teardown / global_teardown of Coverage, Profiling, gc Threshold, gc Debug and Traceback, the per-test '
    'startTest / body / stopTest steps - for all 2^8 option subsets x 7 endings of the test phase x caller with / '
    'without own trace and profile hooks: every global restored at return and at raise, termination, mid-run state '
    'as predicted; seven deviation configs each give a counterexample. Real runs in a fresh interpreter each, started '
    'from a non-default caller state, over option subsets (thorough: all 2^7) x 10 endings: TLC compares the '
    'snapshots taken before, inside a test, and after the run (returned or raised).',
    TRUSTED + ' Named non-goals: doctest report flags, pdb.set_trace, the root logging handler.',
    'TLA+ spec + TLC model checking (safety + liveness) + TLC validation of real snapshots', 'DESIGN.md 5/C18')

add('C19', 'model_checking',
    'TLC (Threads.tla) checks the snapshot-difference mechanism of startTest / stopTest with an ident pool: 3 tests x '
    '3 threads x <= 3 start / end operations per test, threading or low-level API, ignored or not, threads ending in '
    'the same or any later test or never: Precise holds without ident reuse and, since fix 12a8a7f, with reuse among '
    'threading threads; the as-built config reproduces the remaining low-level reuse defect (known finding) and four '
    'deviation configs give counterexamples. The schedules TLC enumerates are executed by scripted tests on the real '
    'runner (threading / _thread / _thread touching threading, names matching or nearly matching the ignore patterns) '
    'and the reported blocks are validated by TLC against the P-spec and the ident-based I-spec.',
    TRUSTED + ' Whether the OS reuses a thread ident is observed, not forced.',
    'TLA+ spec + TLC model checking + TLC-generated schedules replayed on the real runner + TLC trace validation', 'DESIGN.md 5/C19')

add('C11', 'model_checking',
    'TLC (ShuffleMC.tla over Shuffle.tla): for 3 layers x 0..3 tests x every random stream x every kept-layer subset the '
    'Fisher-Yates loop of Shuffle.global_setup, action by action, equals the functional definition, is a per-layer '
    'permutation and consumes a stream segment that depends only on the sizes of the layers sorted before it (so '
    'filtering after shuffling, and a child repeating the computation, cannot change an order); the FilterFirst '
    'deviation gives a counterexample. Real bundles (world, seed) - --list-tests, sequential, -j N children, resumed '
    'children, --layer subsets, clock-seeded runs re-run with the reported seed - are judged by TLC: permutation, '
    'equality of all observations, seed report, and (DRIFT) equality with the Fisher-Yates order for the choice table.',
    TRUSTED + ' random.Random(seed).random() enters as the choice table floor(r_p * n); equality across CPython versions is not exercised (DESIGN 7).',
    'TLA+ spec + TLC exhaustive check + TLC-evaluated oracle on real runs in all modes', 'DESIGN.md 5/C11')

add('C14', 'model_checking',
    'Discovery.tla transcribes find_test_files_ / walk_with_symlinks / find_test_files / find_suites over a tree given as '
    'entries plus name facts (identifier, ignored, pattern matches, sort rank - measured with re in Python); TLC checks the '
    'definitions on every parent-closed subset of a 16-entry universe x root lists (DiscoveryMC.tla). Real runs on trees '
    'from a 32-entry universe x default / alternative patterns x repeated / nested / reversed roots (also below ignored '
    'directories) x -m lists x -s packages, each materialised on tmpfs in two creation orders with every .py file logging '
    'its own import: TLC compares the import sequence with Found / Imported (extra, missing, twice, filtered-but-imported, order).',
    TRUSTED + ' With overlapping roots a file has one module name per root; a file is treated as filtered out only if none of its names is accepted.',
    'TLA+ spec + TLC check of the definitions + TLC-evaluated oracle on real runs over generated trees', 'DESIGN.md 5/C14')
add('C15', 'model_checking',
    'Discovery.tla defines Searched / OrphansAll (safety envelope) / OrphansCore (completeness) / Removed (transcription of '
    'remove_stale_bytecode); TLC checks OrphansCore <= Removed <= OrphansAll, sources\' siblings / __pycache__ / --ignore_dir '
    'never touched, keep => nothing, on every parent-closed subset of the universe. Real --list-tests runs on trees over 19 '
    'file names (orphans, look-alikes, a directory named like a source) x 15 directories x 7 root lists x {none, -k, '
    '--usecompiled} x --path / --test-path, with the file system snapshotted (paths, hashes) before and after; TLC judges the diff.',
    TRUSTED, 'TLA+ spec + TLC check of the definitions + TLC-evaluated oracle on file-system diffs of real runs', 'DESIGN.md 5/C15')

add('C17', 'model_checking',
    'TLC (XmlReport.tla) checks the recording machine of XMLOutputFormattingWrapper (_record / writeXMLReports) for 2 tests '
    'x 11 outcome sequences x 2 classes x --repeat 2 - suite attributes = element counts, every passing test once per '
    'iteration, every bad event a testcase of its own test with the right child, termination - and the serialiser table over '
    'all character-class sequences <= 3; three deviation configs (two of them the repaired defects) give counterexamples. '
    'Real in-process --xml runs over 13 outcome kinds x messages built from 12 character classes x odd test names x '
    '--repeat / --buffer: every report file is parsed with expat and TLC compares files and recorded run clause by clause.',
    TRUSTED + ' The Unicode range is covered by class partition; doctest cases are not generated.',
    'TLA+ spec + TLC model checking + TLC validation of parsed report files of real runs', 'DESIGN.md 5/C17')

add('C07', 'model_checking',
    'TLC (Channel.tla) checks the child / pipe / parent protocol - stdout lines and fd-2 noise in either program order, '
    'close stdout, header, names, death at any point with the line in flight cut, bounded pipes, main thread + stderr drain '
    'thread + parser - for CompleteIsExact, FaultIsError, Reaped and NoHang under fairness; NoStderrThread (deadlock), '
    'TrustTruncated, SpawnFailureUnrecorded and the header look-alike environment give counterexamples. Every fate of the '
    'model is forced on the real runner (complete reports with up to 300 / 1000 failing ids in seven spellings, 1 MiB noise '
    'in five orders, binary and near-header noise, death by exit / signal / unwinding exception in every phase, report cut '
    'at byte offsets, spawn failure, -j and resume, 60 s bound) and TLC judges each run from the child\'s own event log.',
    TRUSTED + ' The fate of a child (completed / died / cut / not spawned) is read from its own event log, not from the plan.',
    'TLA+ spec + TLC model checking (safety + liveness) + spec-derived fault injection on the real runner + TLC validation', 'DESIGN.md 5/C07')

add('C06', 'model_checking',
    'TLC (Parallel.tla) explores every interleaving of the poll loop of resume_tests (start / reap / print / check), the '
    'worker threads (Popen, relay, done in finally, kill + reap) and the children for k = 3 (thorough 4) and N = 2, 3, with a '
    'rendezvous between children and with a failing Popen: AliveBound, Ordered, Complete and Term under per-process fairness; '
    'five deviation configs give counterexamples. For every N in 2..k+1 TLC enumerates the feasible finish orders and each one '
    'is forced on the real runner with file barriers (min(N,k) children parked at the same time, each released after the parent '
    'reaped the previous one), in all three verbosity classes, plus the rendezvous schedule and a spawn failure; TLC compares '
    'block order and content, live children at every Spawn, totals and lists with the sequential run of the same world.',
    TRUSTED + ' "Alive" is counted between Popen returning and the child being reaped in the parent (interposed in the bootstrap).',
    'TLA+ spec + TLC model checking (safety + liveness) + TLC-generated schedules forced on the real runner + TLC validation', 'DESIGN.md 5/C06')

NOT_YET = {
}

ALL = ['C%02d' % i for i in range(1, 21)]


def main():
    na = []
    for pid in ALL:
        if pid not in CHECKS:
            na.append({'property_id': pid,
                       'reason': NOT_YET.get(pid, 'check not built yet (construction in progress, see DESIGN.md 10); no claim is made')})
    man = {
        'version': 1,
        'setup_cmd': './setup.sh',
        'hooks': {
            'guard': 'ZOPE_TESTRUNNER_VERIF',
            'enable': 'no hooks are compiled in: checks import /repo/src directly (PYTHONPATH shim harness/boot) and observe through the world module, Popen interposition in harness/boot/zt.py and the runner output; ZOPE_TESTRUNNER_VERIF=1 is exported for completeness',
            'baseline_off_cmd': 'cd /repo && /venv/bin/python -m pytest -ra -q -p no:cacheprovider --timeout=900 --continue-on-collection-errors',
            'source_commits': [],
            'add_only': True,
        },
        'engines': [
            {'name': 'tlc', 'path': 'harness/tlc.py',
             'serves_properties': sorted(CHECKS),
             'kind_free_text': 'TLC 1.8 explicit-state model checker: exhaustive checking of the I-specs and batch trace validation of real executions (spec/Trace_*.tla)'},
            {'name': 'world-runner', 'path': 'harness/runlib.py',
             'serves_properties': sorted(CHECKS),
             'kind_free_text': 'drives the unmodified zope.testrunner (in-process Runner and CLI with children) over JSON worlds and records NDJSON event traces'},
        ],
        'checks': [CHECKS[p] for p in sorted(CHECKS)],
        'not_applicable': na,
        'notes': 'All properties are decided with explicit TLA+ specifications checked by TLC and bound to the code by trace validation / spec-generated inputs; see DESIGN.md.',
    }
    with open(os.path.join(VERIF, 'MANIFEST.json'), 'w') as f:
        json.dump(man, f, indent=1)
    try:
        import jsonschema
        with open('/root/.vp/MANIFEST.schema.json') as f:
            jsonschema.validate(man, json.load(f))
        print('MANIFEST.json valid; %d checks, %d not_applicable'
              % (len(CHECKS), len(na)))
    except ImportError:
        print('MANIFEST.json written (jsonschema not importable here)')


if __name__ == '__main__':
    main()
