#!/bin/sh
# usage: tools/thorough_smoke.sh <ID> ...  -- thorough tier of the given checks on the unchanged tree,
# three at a time, evidence to a scratch directory (a crash in a thorough-only branch shows here)
here="$(cd "$(dirname "$0")/.." && pwd)"
E=$(mktemp -d /tmp/thor-ev.XXXXXX); trap 'rm -rf "$E"' EXIT INT TERM
cd "$here"
for id in "$@"; do echo $id; done | xargs -P 3 -n 1 sh -c '
  t0=$(date +%s); out=$(VERIF_EVIDENCE_DIR='"$E"'/$0 timeout 2400 ./check $0 --tier thorough 2>&1 | grep -E "^(OK|VIOLATION|MACHINERY|Traceback|[A-Za-z]*Error)" | cut -c1-260 | head -4 | tr "\n" " ")
  echo "$0 ($(( $(date +%s) - t0 )) s): $out"'
