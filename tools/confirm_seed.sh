#!/bin/sh
# usage: tools/confirm_seed.sh <PID> <mN>  -- confirms an agent's seeded change in its
# scratch worktree /tmp/wt/<PID> and copies it to /verif/seeded/<PID>-<mN>/
pid="$1"; m="$2"; WT=${WT:-/tmp/wt/$pid}; D=$WT/_demo/$m
export PYTHONPATH=/tmp/wt/shim VERIF_REPO_SRC=$WT/src PYTHONDONTWRITEBYTECODE=1
cd $WT || exit 2
git checkout -q -- src
PYTHONWARNINGS=ignore /venv/bin/python $D/demo.py >/tmp/seed_demo_base.log 2>&1; base=$?
git apply $D/patch.diff || { echo "patch does not apply"; exit 2; }
PYTHONWARNINGS=ignore /venv/bin/python $D/demo.py >/tmp/seed_demo_mut.log 2>&1; mut=$?
pt=$(/venv/bin/python -m pytest -p no:cacheprovider -q --timeout=900 --continue-on-collection-errors 2>&1 | tail -1)
dt=$(/venv/bin/python -m zope.testrunner --test-path=src -c 2>&1 | grep -E "Ran .* tests" | sed 's/\x1b\[[0-9;]*m//g')
git checkout -q -- src
echo "demo unchanged rc=$base, with change rc=$mut; pytest: $pt; doctests: $dt"
if [ "$base" = 0 ] && [ "$mut" != 0 ]; then
  dest=/verif/seeded/$pid-$m; mkdir -p $dest
  cp $D/patch.diff $D/demo.py $dest/; [ -f $D/notes.md ] && cp $D/notes.md $dest/
  echo "$pt | $dt" > $dest/suites.txt
  echo "copied to $dest"
fi
