#!/usr/bin/env python3
"""Writes seeded/<id>/meta.json from the table below (what each seeded change
breaks, what it needs to manifest, what was run, which check catches it)."""
import json
import os

HERE = os.path.dirname(os.path.abspath(__file__))
SEEDED = os.path.join(os.path.dirname(HERE), 'seeded')

CONFIRM = ('tools/confirm_seed.sh in the agent\'s scratch worktree: demo.py exits 0 on the '
           'unchanged tree and non-zero with patch.diff applied; pytest still "81 passed" '
           '(with the namespace shim) and the upstream doctest suite still "Ran 90 tests with '
           '0 failures"; then tools/try_seed.sh (git apply to /repo, quick check, git checkout)')

T = {
 'C01-m1': ('C01', 'tear_down_unneeded: `del setup_layers[layer]` no longer runs when tearDown raised an ordinary exception',
            'a layer whose tearDown raises and that is torn down mid-run (followed by a layer not containing it); second symptom needs multiple inheritance so that a later layer needs it again',
            'C01 quick: C01:tearDown-not-set-up, C01:setUp-bases-missing', 'caught at once'),
 'C01-m2': ('C01', 'run_layer: after a failing layer setUp the stack is torn down with optional=True, swallowing NotImplementedError',
            'a layer whose setUp raises + a base whose tearDown raises NotImplementedError + a later unrelated layer',
            'C01 quick: C01:setUp-after-notimpl', 'caught at once'),
 'C04-m1': ('C04', 'TestResult.addSubTest re-installs the --buffer streams after a failing subtest',
            '--buffer, a test whose last result event is a failing subtest, last test of its layer',
            'C04 quick: C04:no-summary, C04:test-fault-not-recorded, C04:layer-*-fault-not-recorded', 'caught at once'),
 'C04-m2': ('C04', 'tb_format.print_exception forwards chain= to format_exception, which then crashes on chained exceptions',
            'a layer setUp/tearDown raising an exception with __cause__ / __context__',
            'C04 quick: C04:aborted|run-aborted:AttributeError@tb_format._iter_chain',
            'MISSED at first (worlds only raised plain exceptions); caught after layer and test faults got cause/context/ExceptionGroup chains (worldlib.raise_chained, c04.vary_exceptions)'),
 'C05-m1': ('C05', 'TestResult.testTearDown walks only the layers recorded by testSetUp, which records only layers defining testSetUp',
            'a layer with testTearDown but no testSetUp',
            'C05 quick: C05:unbalanced, C05:testTearDown-order',
            'MISSED at first (worlds gave layers both per-test hooks or none, P-spec had one flag); caught after LayerStack.tla got separate perUp / perDown flags and the bracket machine was rewritten for half-hooked layers'),
 'C05-m2': ('C05', 'addSkip fallback calls testSetUp only when _start_time does not exist yet',
            'decorator-skipped test that is not the first test of its TestResult, CPython >= 3.12.1',
            'C05 quick: C05:unbalanced|at:TTD-without-TSU:decorator-skipped-test-never-started', 'caught at once'),
 'C16-m1': ('C16', 'Runner.run_tests skips the stop check when run_layer returned 0 (layer setUp failed)',
            '-x, sequential, a layer whose setUp raises followed by another layer',
            'C16 quick: C16:layer-after-stop', 'caught at once'),
 'C16-m2': ('C16', 'repeat loop breaks on result.failures/errors instead of result.shouldStop (unexpected successes are not in either)',
            '-x --repeat N>=2 and an unexpected success as first bad outcome',
            'C16 quick: C16:test-after-stop', 'caught at once'),
 'C02-m1': ('C02', 'find.find_suites: `except BaseException` narrowed to `except Exception` around module import',
            'a test module whose import raises SystemExit(0/None) (e.g. sys.exit(0) when an optional dependency is missing)',
            'C02 quick: C02:verdict (exit status 0 although the module could not be imported)',
            'MISSED at first (import failures were only scripted as ordinary exceptions); caught after the import-failure family got SystemExit(0/None/3) and other classes'),
 'C02-m2': ('C02', 'spawn_layer_in_subprocess: report completeness check tightened to len(names) != nfail+nerr',
            'a layer run in a subprocess + any line on the child\'s fd 2 after its complete report (here: any fd-2 noise at all, since names = every line after the header)',
            'C02 quick: C02:verdict (failed although nothing went wrong), noise pairs', 'caught at once'),
 'C12-m1': ('C12', 'process.SubProcess.report prints error names before failure names while the parent still reads failures first',
            'a layer run in a subprocess with both a failure and an error, -v',
            'C12 quick: C12:failure-list, C12:modes-lists-differ', 'caught at once'),
 'C12-m2': ('C12', 'run_tests: failures/errors/skipped bookkeeping moved after the --repeat loop (only the last iteration counts)',
            '--repeat N>=2 and a bad or skipped outcome in a non-final iteration',
            'C12 quick: C12:failure-list, C12:total-failures, C12:total-skipped, C12:error-list, C12:total-errors', 'caught at once'),
 'C03-m1': ('C03', 'shuffle.Shuffle.global_setup: a resumed child shuffles only its own layer (fresh RNG stream position)',
            '--shuffle-seed S + a layer run in a child (-j N or resume) that is not first in sorted layer-name order, >= 2 tests',
            'C03 quick: C03:list-order-differs-from-run (bundle list / -j)', 'caught at once'),
 'C03-m2': ('C03', 'find.tests_from_suite prunes a whole TestSuite whose level exceeds --at-level (inner declarations can lower it)',
            'an outer suite with level K containing a class / inner suite / test declaring level k < K, --at-level N with k <= N < K',
            'C03 quick: C03:list-set, C03:missing', 'caught at once'),
 'C08-m1': ('C08', 'options.get_options drops empty patterns from -t / -m / --layer lists',
            "an empty pattern '' together with another positive pattern of the same option",
            "C08 quick: C08:accept|options_filter (patterns ['alpha', ''] reject 'beta'), C03:list-set end to end", 'caught at once'),
 'C08-m2': ('C08', "filter.build_filtering_func: fast path `if '.' in patterns: accept everything`",
            "the literal pattern '.' together with a '!'-pattern that matches",
            'C08 quick: C08:accept|filter, C08:accept|options_filter, C03:list-set end to end', 'caught at once'),
 'C09-m1': ('C09', "find.tests_from_suite: getattr(suite, 'level', None) or dlevel (level 0 is falsy and is inherited away)",
            'a level = 0 declaration inside a suite with another effective level + a level switch that tells them apart',
            'C09 quick: C03:list-set, C03:missing, C03:not-selected', 'caught at once'),
 'C09-m2': ('C09', 'filter.Filter.global_setup: --layer acceptance of the unit layer overrides --non-unit',
            '-f without -u plus a --layer pattern list that accepts zope.testrunner.layer.UnitTests',
            'C09 quick: C03:list-set', 'caught at once'),
 'C20-m1': ('C20', 'DiGraph.sccs: the stacked flag is cleared only for the root of a popped component',
            'an already emitted component with >= 2 nodes and a later visited node with an edge to a non-root member',
            'C20 quick: C20:not-partition, C20:cycle-missed, C20:wrong-class', 'caught at once'),
 'C20-m2': ('C20', 'DiGraph.sccs: self-loop test on the untransformed node objects (== instead of identity keys)',
            'identity-keyed graph, default mode, one-node component without self-loop whose node has an edge to a distinct but ==-equal object',
            'C20 quick: C20:acyclic-component-reported (identity-keyed nodes whose == is value based)',
            'caught at once; patch.diff was rebased by hand onto the C20 fix commit 2c4c49e (same line)'),
 'C13-m1': ('C13', 'TestResult._restoreStdStreams returns early when sys.stdout is not the capture buffer ("idempotency shortcut")',
            '--buffer and a test that has itself replaced sys.stdout (redirect in setUp, restored in tearDown / never) at the moment a result event or stopTest arrives',
            'C13 quick: C13:not-restored|between-tests, C13:lost',
            'MISSED at first (no scripted test touched the std streams itself); caught after worlds got redirect / unredirect actions and StdStreams.tla per-stream cur / saved state (deviation RestoreOnlyIfInstalled)'),
 'C13-m2': ('C13', 'TestResult.addSubTest re-arms the capture after a failing subtest; later output of the failing test is dropped by stopTest',
            '--buffer, a test with a failing subtest that writes afterwards without a further failure event',
            'C13 quick: C13:lost', 'caught at once'),
 'C18-m1': ('C18', 'Runner._enabled_warnings enters warnings.catch_warnings() only when the runner installs a filter itself',
            'no warnings= argument (interpreter started with -W / PYTHONWARNINGS, or embedding code) and code in the test phase that touches the warnings machinery (filterwarnings / simplefilter / showwarning)',
            'C18 quick: C18:not-restored|showwarning, C18:not-restored|warnFilters', 'caught at once'),
 'C18-m2': ('C18', 'TestResult.stopTest runs the layers\' testTearDown before restoring the --buffer streams',
            '--buffer, the capture still armed at stopTest (test skipped from its body / setUp, or KeyboardInterrupt) and a layer testTearDown that raises',
            'C18 quick: C18:not-restored|stdout (endings skipThenHookDown / kbintThenHookDown)', 'caught at once'),
 'C19-m1': ('C19', 'threadsupport.enumerate() starts from threading.enumerate() and only adds placeholders for unknown running idents (no intersection with sys._current_frames)',
            'a thread started with _thread.start_new_thread that touches threading.current_thread() (e.g. logs) and has finished before the test ends',
            'C19 quick: C19:missed, C19:spurious|finished-thread, C19:wrong-test', 'caught at once (worlds have the _thread_ct api variant)'),
 'C19-m2': ('C19', '--ignore-new-thread patterns compiled with filter.build_filtering_func (re.search, "!" negation) instead of re.match',
            'a leaked thread whose name contains an ignore pattern without starting with it (net-ign, xign)',
            'C19 quick: C19:missed', 'caught at once; patch.diff is rebased onto fix 12a8a7f (same lines), patch.orig.diff is the agent\'s patch against fae7978'),
 'C11-m1': ('C11', 'find.find_tests: a process started with --resume-layer X skips tests of other layers while collecting (looks like an optimisation; Shuffle runs between Find and Filter)',
            '--shuffle-seed S, >= 2 layers, a layer that is not first in sorted-name order with >= 2 tests, run in a child (-j N or resume)',
            'C11 quick: C11:mode-differs|j (and |resume)', 'caught at once'),
 'C11-m2': ('C11', 'Shuffle.seed becomes an uncached property: report() reads the clock a second time, the printed seed is not the one used',
            '--shuffle without --shuffle-seed, then a re-run / --list-tests with the reported seed',
            'C11 quick: C11:seed-not-reproducing|rerun-of-noseed', 'caught at once; patch.diff is rebased onto fix 2214b10 (same lines), patch.orig.diff is the agent\'s patch against fae7978'),
 'C14-m1': ('C14', 'find_test_files_ skips a search path "already covered" by an earlier walk; the helper mirrors only the identifier / IGNORE_FOLDERS pruning, not --ignore_dir',
            'nested search paths where the route from the outer to the inner one passes an identifier-named directory that is in --ignore_dir (or CVS / _darcs), outer path given first',
            'C14 quick: C14:missing',
            'MISSED at first (the only nested root was sub/, reachable from the outer walk); caught after nested roots below --ignore_dir / CVS / non-identifier directories were added'),
 'C14-m2': ('C14', 'find_test_files_: sorted(root2ext.values()) replaced by insertion order of the dict (filled by two loops: file-pattern matches first, tests-pattern matches second)',
            'a tests package that also contains a module matching the tests pattern but not the file pattern and sorting earlier (tests/ftests.py next to test_*.py with --tests-pattern ^f?tests$)',
            'C14 quick: C14:order', 'caught at once'),
 'C15-m1': ('C15', 'remove_stale_bytecode tests `file[:-1] in sources` where sources is a generator (exhausted by the first miss)',
            'a directory with an orphan followed (in sorted order) by compiled files that do have their source; or x.py + x.pyc + x.pyo',
            'C15 quick: C15:unsafe-delete', 'caught at once'),
 'C15-m2': ('C15', 'remove_stale_bytecode sorts the test paths and skips a path that startswith() an already scanned one (no os.sep)',
            'two search paths of which one\'s spelling extends the other\'s (lib and lib_extra), orphan in the longer one',
            'C15 quick: C15:orphan-kept',
            'MISSED at first (sibling roots were pkg / my-dir); caught after the root lists {pkg, pkg_extra} in both orders were added'),
 'C17-m1': ('C17', 'parse_unittest takes the testcase name as the last dotted part of the id instead of slicing off the class name',
            'a test whose own name contains a dot (table-driven classes with setattr-ed methods test_parse_1.0, test_parse_2.0)',
            'C17 quick: C17:wrong-identity|test, C17:pass-missing',
            'caught at once (name pool has dotted names); patch.diff is rebased onto fix 9b95e30 (same function), patch.orig.diff is the agent\'s patch against fae7978'),
 'C17-m2': ('C17', 'TestSuiteInfo.tests counts distinct test objects instead of recorded testcases',
            '--repeat N with --xml, or a test with two outcomes (body failure + cleanup error)',
            'C17 quick: C17:count', 'caught at once'),
 'C07-m1': ('C07', 'spawn_layer_in_subprocess decodes the child\'s stderr once and splits it as text (str.splitlines splits at U+2028 / U+2029 / U+0085 / VT / FF / FS-RS too)',
            'a failing test id (e.g. a subTest description) containing one of those characters; every following name shifts by one',
            'C07 quick: C07:lost|seps, C07:lost|mixed',
            'caught (id spellings include VT / FS / NEL / U+2028); a first, too broad version of fix 02e69d3 (child joining str.splitlines()) masked this change and altered such names itself - the fix was narrowed to \\r'),
 'C07-m2': ('C07', 'Runner.run: the feature report loop moved into the finally clause, so a layer subprocess that dies by an exception unwinding the stack still sends a well-formed "0 0 0" report',
            'a child leaving a layer setUp / tearDown through sys.exit(n) (also 0), MemoryError or KeyboardInterrupt',
            'C07 quick: C07:fault-not-recorded|died (family unwind:*); C02 quick: C02:verdict',
            'MISSED at first (children only died by os._exit / signals); caught after deaths by SystemExit / MemoryError / KeyboardInterrupt from layer hooks were added to C07 and C02'),
 'C06-m1': ('C06', 'resume_tests retires finished worker threads only from the front of running_threads',
            'more layers than N and a later-started child finishing while an earlier one is still running: its slot is not reused (finish order 2,3,1 with N=2 cannot happen)',
            'C06 quick: C06:no-progress|finish-order (the TLC-feasible order [2,3,1] for k=3, N=2 times out)', 'caught at once'),
 'C06-m2': ('C06', 'spawn_layer_in_subprocess: result.done = True moved into the `if child is not None` clean-up',
            'Popen raising OSError for one layer: done is never set for it and the output blocks of every later layer are dropped',
            'C06 quick: C06:block-lost|spawn-failure', 'caught at once'),
}


def main():
    for d, (prop, what, needs, detected, hist) in sorted(T.items()):
        dest = os.path.join(SEEDED, d)
        if not os.path.isdir(dest):
            print('missing', d)
            continue
        suites = ''
        p = os.path.join(dest, 'suites.txt')
        if os.path.exists(p):
            suites = open(p).read().strip()
        meta = {'id': d, 'property': prop, 'change': what,
                'needs_to_manifest': needs, 'existing_suites_with_change': suites,
                'what_was_run': CONFIRM, 'detected_by': detected, 'history': hist,
                'source': 'fresh sub-agent given only the property text and a scratch worktree'}
        with open(os.path.join(dest, 'meta.json'), 'w') as f:
            json.dump(meta, f, indent=1)
    print('meta written for', len(T))


if __name__ == '__main__':
    main()
