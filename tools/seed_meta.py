#!/usr/bin/env python3
"""Writes seeded/<id>/meta.json from the table below (what each seeded change
breaks, what it needs to manifest, what was run, which check catches it)."""
import json
import os

HERE = os.path.dirname(os.path.abspath(__file__))
SEEDED = os.path.join(os.path.dirname(HERE), 'seeded')

CONFIRM = ('tools/confirm_seed.sh in the agent\'s scratch worktree: demo.py exits 0 on the '
           'unchanged tree and non-zero with patch.diff applied; pytest still "81 passed" '
           '(with the namespace shim) and the upstream doctest suite still "Ran 90 tests with '
           '0 failures"; then tools/try_seed.sh (git apply to /repo, quick check, git checkout)')

T = {
 'C01-m1': ('C01', 'tear_down_unneeded: `del setup_layers[layer]` no longer runs when tearDown raised an ordinary exception',
            'a layer whose tearDown raises and that is torn down mid-run (followed by a layer not containing it); second symptom needs multiple inheritance so that a later layer needs it again',
            'C01 quick: C01:tearDown-not-set-up, C01:setUp-bases-missing', 'caught at once'),
 'C01-m2': ('C01', 'run_layer: after a failing layer setUp the stack is torn down with optional=True, swallowing NotImplementedError',
            'a layer whose setUp raises + a base whose tearDown raises NotImplementedError + a later unrelated layer',
            'C01 quick: C01:setUp-after-notimpl', 'caught at once'),
 'C04-m1': ('C04', 'TestResult.addSubTest re-installs the --buffer streams after a failing subtest',
            '--buffer, a test whose last result event is a failing subtest, last test of its layer',
            'C04 quick: C04:no-summary, C04:test-fault-not-recorded, C04:layer-*-fault-not-recorded', 'caught at once'),
 'C04-m2': ('C04', 'tb_format.print_exception forwards chain= to format_exception, which then crashes on chained exceptions',
            'a layer setUp/tearDown raising an exception with __cause__ / __context__',
            'C04 quick: C04:aborted|run-aborted:AttributeError@tb_format._iter_chain',
            'MISSED at first (worlds only raised plain exceptions); caught after layer and test faults got cause/context/ExceptionGroup chains (worldlib.raise_chained, c04.vary_exceptions)'),
 'C05-m1': ('C05', 'TestResult.testTearDown walks only the layers recorded by testSetUp, which records only layers defining testSetUp',
            'a layer with testTearDown but no testSetUp',
            'C05 quick: C05:unbalanced, C05:testTearDown-order',
            'MISSED at first (worlds gave layers both per-test hooks or none, P-spec had one flag); caught after LayerStack.tla got separate perUp / perDown flags and the bracket machine was rewritten for half-hooked layers'),
 'C05-m2': ('C05', 'addSkip fallback calls testSetUp only when _start_time does not exist yet',
            'decorator-skipped test that is not the first test of its TestResult, CPython >= 3.12.1',
            'C05 quick: C05:unbalanced|at:TTD-without-TSU:decorator-skipped-test-never-started', 'caught at once'),
 'C16-m1': ('C16', 'Runner.run_tests skips the stop check when run_layer returned 0 (layer setUp failed)',
            '-x, sequential, a layer whose setUp raises followed by another layer',
            'C16 quick: C16:layer-after-stop', 'caught at once'),
 'C16-m2': ('C16', 'repeat loop breaks on result.failures/errors instead of result.shouldStop (unexpected successes are not in either)',
            '-x --repeat N>=2 and an unexpected success as first bad outcome',
            'C16 quick: C16:test-after-stop', 'caught at once'),
}


def main():
    for d, (prop, what, needs, detected, hist) in sorted(T.items()):
        dest = os.path.join(SEEDED, d)
        if not os.path.isdir(dest):
            print('missing', d)
            continue
        suites = ''
        p = os.path.join(dest, 'suites.txt')
        if os.path.exists(p):
            suites = open(p).read().strip()
        meta = {'id': d, 'property': prop, 'change': what,
                'needs_to_manifest': needs, 'existing_suites_with_change': suites,
                'what_was_run': CONFIRM, 'detected_by': detected, 'history': hist,
                'source': 'fresh sub-agent given only the property text and a scratch worktree'}
        with open(os.path.join(dest, 'meta.json'), 'w') as f:
            json.dump(meta, f, indent=1)
    print('meta written for', len(T))


if __name__ == '__main__':
    main()
