#!/usr/bin/env python3
"""Regenerates the seeded-changes table of DESIGN.md (between the markers) from
seeded/*/meta.json."""
import glob
import json
import os
import re

HERE = os.path.dirname(os.path.abspath(__file__))
VERIF = os.path.dirname(HERE)


def main():
    rows = []
    metas = [json.load(open(f)) for f in sorted(glob.glob(os.path.join(VERIF, 'seeded', '*', 'meta.json')),
                                                  key=lambda p: (re.findall(r'C\d+', p)[-1], p))]
    missed = 0
    for m in metas:
        first = 'caught' if not m['history'].startswith('MISSED') else m['history']
        missed += m['history'].startswith('MISSED')
        rows.append('| %s | %s | %s | %s |' % (
            m['id'], m['change'].replace('|', '/')[:150], m['detected_by'].replace('|', '/')[:110],
            first.replace('|', '/')[:230]))
    quiet = [m['id'] for m in metas if m['detected_by'].startswith('not alarmed')]
    missed -= len([m for m in metas if m['id'] in quiet and m['history'].startswith('MISSED')])
    block = ('<!-- seeds:begin -->\n%d seeded changes (written by fresh sub-agents that saw only the property text and a '
             'scratch worktree; several were written independently twice), %d of them missed by the first '
             'version of the check that should catch them - each miss led to the extension named in the '
             'last column - and %d are caught now; the remaining %s are not '
             'alarmed on purpose: the last column says why the change does not violate the statement as read here.\n\n'
             '| change | what it does | caught by | first attempt |\n|---|---|---|---|\n%s\n<!-- seeds:end -->'
             % (len(metas), missed, len(metas) - len(quiet), '%d (%s)' % (len(quiet), ', '.join(quiet)), '\n'.join(rows)))
    p = os.path.join(VERIF, 'DESIGN.md')
    s = open(p).read()
    if '<!-- seeds:begin -->' in s:
        s = re.sub(r'<!-- seeds:begin -->.*<!-- seeds:end -->', lambda _m: block, s, flags=re.S)
    else:
        a = s.index('### 11.7 Seeded changes')
        b = s.index('Patches that touch lines changed by a later `fix:` commit')
        s = s[:a] + '### 11.7 Seeded changes (fresh sub-agents, property text + scratch worktree only) and what catches them\n\n' + block + '\n\n' + s[b:]
    open(p, 'w').write(s)
    print('%d seeds, %d missed at first' % (len(metas), missed))


if __name__ == '__main__':
    main()
