#!/bin/sh
# usage: tools/coverage_sweep.sh [ID ...]   -- runs quick checks with line coverage of
# /repo/src/zope/testrunner collected in every process the harness starts; report in /tmp/cov
# (a development aid: shows which code of the runner no check ever executes)
D=${COVDIR:-/tmp/cov}; rm -rf "$D"; mkdir -p "$D/data" "$D/evidence"
cat > "$D/rc" <<EOT
[run]
data_file = $D/data/.coverage
parallel = True
source = /repo/src/zope/testrunner
omit = */tests/*
core = sysmon
sigterm = True
EOT
cd /verif
ids="$@"; [ -z "$ids" ] && ids="C01 C02 C03 C04 C05 C06 C07 C08 C09 C10 C11 C12 C13 C14 C15 C16 C17 C18 C19 C20"
for id in $ids; do
  VERIF_COV_RC="$D/rc" VERIF_EVIDENCE_DIR="$D/evidence" ./check $id --tier quick 2>&1 | grep -E "^(VIOLATION|OK|KNOWN|MACHINERY)" | cut -c1-200
done
cd "$D/data" && /venv/bin/python -m coverage combine -q --rcfile="$D/rc" >/dev/null 2>&1
/venv/bin/python -m coverage report --rcfile="$D/rc" -m > "$D/report.txt" 2>&1
tail -30 "$D/report.txt"
