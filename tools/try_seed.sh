#!/bin/sh
# usage: tools/try_seed.sh <patch.diff> <ID> [<ID> ...]
# Applies the seeded change to a scratch COPY of /repo's working tree (never to
# /repo itself, so that other runs using /repo are not disturbed), runs the
# quick checks against that copy (VERIF_REPO_SRC) and removes the copy.
patch="$(readlink -f "$1")"; shift
T=$(mktemp -d /tmp/seedtree.XXXXXX)
trap 'rm -rf "$T"' EXIT INT TERM
cp -r /repo/src "$T/src"
find "$T" -name __pycache__ -type d -prune -exec rm -rf {} + 2>/dev/null
(cd "$T" && git apply "$patch") || { echo "patch does not apply"; exit 2; }
cd "$(dirname "$0")/.."
for id in "$@"; do
  out=$(VERIF_REPO_SRC="$T/src" VERIF_EVIDENCE_DIR="$T/evidence" ./check "$id" --tier "${TIER:-quick}" 2>&1 | grep -E "^(VIOLATION|OK|KNOWN|MACHINERY)" | cut -c1-260)
  echo "[$id] $out"
done
