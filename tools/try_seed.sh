#!/bin/sh
# usage: tools/try_seed.sh <patch.diff> <ID> [<ID> ...]   (applies the seeded
# change to /repo, runs the quick checks, always restores /repo)
patch="$1"; shift
cd /repo || exit 2
if [ -n "$(git status --porcelain)" ]; then echo "/repo not clean"; exit 2; fi
trap 'git -C /repo checkout -- . ; git -C /repo clean -fdq' EXIT INT TERM
git apply "$patch" || exit 2
cd /verif
for id in "$@"; do
  out=$(VERIF_EVIDENCE_DIR=/tmp/verif-seed-evidence ./check "$id" --tier "${TIER:-quick}" 2>&1 | grep -E "^(VIOLATION|OK|KNOWN|MACHINERY)" | cut -c1-260)
  echo "[$id] $out"
done
