#!/bin/sh
# usage: tools/try_many.sh "<seed>:<ID>[,<ID>...]" ...   e.g. C04-m8:C04,C01
# runs tools/try_seed.sh for each pair, three at a time; one summary line each
here="$(cd "$(dirname "$0")" && pwd)"
for spec in "$@"; do echo "$spec"; done | xargs -P 3 -n 1 sh -c '
  s="${0%%:*}"; ids=$(echo "${0#*:}" | tr "," " ")
  out=$('"$here"'/try_seed.sh '"$here"'/../seeded/$s/patch.diff $ids 2>&1 | sed -e "s/^\(\[C[0-9]*\]\) KNOWN-FINDING.*\(VIOLATION\|OK property\|MACHINERY\)/\1 \2/" | grep -o "^\[C[0-9]*\] \(VIOLATION[^(]*([^:]*:[^:]*\|OK\|MACHINERY[^:]*\|KNOWN\)" | sed -e "s/property=[A-Z0-9]* replay=[^ ]* *//" | tr "\n" " ")
  echo "$s: $out"'
