#!/bin/sh
# usage: tools/try_many.sh "<seed>:<ID>[,<ID>...]" ...   e.g. C04-m8:C04,C01
# runs tools/try_seed.sh for each pair, three at a time; one summary line each
here="$(cd "$(dirname "$0")" && pwd)"
for spec in "$@"; do echo "$spec"; done | xargs -P 3 -n 1 sh -c '
  s="${0%%:*}"; ids=$(echo "${0#*:}" | tr "," " ")
  out=$('"$here"'/try_seed.sh '"$here"'/../seeded/$s/patch.diff $ids 2>&1 | awk "
    /^\[C[0-9]+\]/ { id = \$1 }
    { if (match(\$0, /VIOLATION[^(]*\([^ ]*/)) { v = substr(\$0, RSTART, RLENGTH); sub(/VIOLATION[^(]*\(/, \"\", v); if (!(id in n)) n[id] = 0; if (n[id]++ < 3) r[id] = r[id] \" \" v }
      else if (\$0 ~ /OK property=/) r[id] = r[id] \" OK\"
      else if (\$0 ~ /MACHINERY/) r[id] = r[id] \" MACHINERY-FAILURE\" }
    END { for (i in r) printf \"%s%s  \", i, r[i] }")
  echo "$s: $out"'
