"""Evaluates pure functions of the real zope.testrunner on given inputs.
stdin: JSON list of jobs; stdout: JSON list of results (same order).
Only observations are returned; expected values are computed by TLC."""
import json
import os
import sys


def op_filter(job):
    from zope.testrunner.filter import build_filtering_func
    try:
        f = build_filtering_func(job['patterns'])
        return {'obs': [bool(f(n)) for n in job['names']]}
    except Exception as e:  # noqa
        return {'raised': type(e).__name__ + ': ' + str(e)}


def op_options_filter(job):
    """through the option parser: what do -t/-m/--layer lists become, and
    what does the predicate built from them accept"""
    from zope.testrunner.filter import build_filtering_func
    from zope.testrunner.options import get_options
    args = ['zt']
    for p in job['patterns']:
        args += [job['flag'], p]
    try:
        o = get_options(args, [])
        lst = {'-t': o.test, '-m': o.module, '--layer': o.layer}[job['flag']]
        if lst is None:
            return {'none': True}
        f = build_filtering_func(lst)
        return {'obs': [bool(f(n)) for n in job['names']], 'parsed': list(lst)}
    except BaseException as e:  # noqa
        return {'raised': type(e).__name__ + ': ' + str(e)}


def op_get_options(job):
    """get_options(argv, defaults) as the runner calls it; the projection of
    the result onto the vocabulary of Options.tla is a lookup (None -> empty,
    sys.maxsize -> the model's MaxLevel)"""
    from zope.testrunner.options import get_options
    try:
        o = get_options(list(job['argv']), list(job['defaults']))
    except BaseException as e:  # noqa
        return {'raised': type(e).__name__ + ': ' + str(e)}
    if getattr(o, 'fail', False):
        return {'raised': 'options.fail'}
    lay = o.layer
    return {'obs': {
        'test': list(o.test or []), 'module': list(o.module or []),
        'layer': list(lay) if lay else [],
        'atLevel': 1000000 if o.at_level == sys.maxsize else o.at_level,
        'onlyLevel': -1000 if o.only_level is None else o.only_level,
        'unit': bool(o.unit), 'nonUnit': bool(o.non_unit), 'keep': bool(o.keepbytecode),
        'verbose': int(o.verbose or 0), 'repeat': o.repeat, 'procs': o.processes}}


class _Inst:
    def __init__(self, name, bases, module):
        self.__name__ = name
        self.__bases__ = bases
        self.__module__ = module

    def __repr__(self):
        return '<layer %s>' % self.__name__


def build_layers(spec):
    """spec: {'order': [names in definition order], 'bases': {name: [names]},
    'kind': 'class'|'instance'|{name: kind}, 'unit': name or ''} -> {name: layer}"""
    from zope.testrunner.layer import UnitTests
    layers = {}
    for name in spec['order']:
        if name == spec.get('unit'):
            layers[name] = UnitTests
            continue
        bases = tuple(layers[b] for b in spec['bases'][name])
        kind = spec['kind'] if isinstance(spec['kind'], str) else spec['kind'][name]
        if kind == 'class':
            layers[name] = type(name, bases or (object,), {'__module__': 'm'})
        else:
            layers[name] = _Inst(name, bases, 'm')
    return layers


def op_order(job):
    """order_by_bases on the requested layers presented in the given orders"""
    from zope.testrunner.runner import order_by_bases
    try:
        layers = build_layers(job['graph'])
    except TypeError as e:       # no consistent MRO for this class graph
        return {'unbuildable': str(e)}
    back = {id(v): k for k, v in layers.items()}
    out = []
    for req in job['requests']:
        try:
            res = order_by_bases([layers[n] for n in req])
            out.append([back[id(x)] for x in res])
        except Exception as e:  # noqa
            out.append(['RAISED ' + type(e).__name__])
    return {'obs': out}


class _EqNode:
    """identity-keyed node whose == is value based (all instances equal):
    in the default make_hashable=id mode only identity may matter"""
    __hash__ = None

    def __init__(self, label):
        self.label = label

    def __eq__(self, other):
        return isinstance(other, _EqNode)


class _PlainNode:
    def __init__(self, label):
        self.label = label


def op_sccs(job):
    """DiGraph(...).sccs(trivial) for one scripted construction history"""
    from zope.testrunner.digraph import DiGraph
    mode = job['mode']
    labels = job['nodes'] + job.get('unknown', [])
    if mode == 'hashable':
        obj = {l: l for l in labels}
        g = DiGraph(make_hashable=None)
        back = lambda x: x                      # noqa: E731
    else:
        cls = _EqNode if mode == 'id-eq' else _PlainNode
        obj = {l: cls(l) for l in labels}
        g = DiGraph()
        back = lambda x: x.label                # noqa: E731
    try:
        if job.get('nodes_in_ctor'):
            g = DiGraph([obj[l] for l in job['nodes']],
                        **({'make_hashable': None} if mode == 'hashable' else {}))
        else:
            for chunk in job['add_order']:
                g.add_nodes([obj[l] for l in chunk])
        for node, nbs in job['neighbor_calls']:
            g.add_neighbors(obj[node], [obj[x] for x in nbs])
        out = [[back(x) for x in c] for c in g.sccs(job['trivial'])]
        return {'obs': out, 'raised': ''}
    except Exception as e:  # noqa
        return {'obs': [], 'raised': type(e).__name__}


def op_sccs_history(job):
    """An API history on ONE DiGraph object: mutators and sccs() queries in the
    scripted order.  steps: {'op': 'ctor'|'add_nodes', 'nodes': [...]} ('ctor'
    only as the first step: the nodes go through the constructor),
    {'op': 'add_neighbors', 'node': l, 'nbs': [...]},
    {'op': 'sccs', 'trivial': b, 'take': k or None, 'keep': b}: take at most k
    components from the generator (None: all of it), then drop it (close) or,
    with keep, leave it suspended and referenced to the end of the history (it
    is never resumed).  Returned per executed step: what was observed (for a
    query the components taken, in order, and whether the generator was seen
    to end); execution stops at the first step that raises."""
    from zope.testrunner.digraph import DiGraph
    mode = job['mode']
    labels = job['universe']
    if mode == 'hashable':
        obj = {l: l for l in labels}
        kw = {'make_hashable': None}
        back = lambda x: x                      # noqa: E731
    else:
        cls = _EqNode if mode == 'id-eq' else _PlainNode
        obj = {l: cls(l) for l in labels}
        kw = {}
        back = lambda x: x.label                # noqa: E731
    g = None
    kept = []
    out = []
    # argstyle 'scratch': the caller hands over ONE set object of its own that it
    # clears and refills for every call (the graph must not keep or edit it)
    scratch = set() if job.get('argstyle') == 'scratch' and mode == 'hashable' else None

    def arg(items):
        if scratch is None:
            return iter(items)
        scratch.clear()
        scratch.update(items)
        return scratch
    for s in job['steps']:
        o = {'raised': ''}
        try:
            if s['op'] == 'ctor':
                g = DiGraph(arg([obj[l] for l in s['nodes']]), **kw)
                out.append(o)
                continue
            if g is None:
                g = DiGraph(**kw)
            if s['op'] == 'add_nodes':
                g.add_nodes(arg([obj[l] for l in s['nodes']]))
            elif s['op'] == 'add_neighbors':
                g.add_neighbors(obj[s['node']], arg([obj[l] for l in s['nbs']]))
            else:
                o['obs'] = []
                o['exhausted'] = False
                it = g.sccs(s['trivial'])
                while s['take'] is None or len(o['obs']) < s['take']:
                    try:
                        c = next(it)
                    except StopIteration:
                        o['exhausted'] = True
                        break
                    o['obs'].append([back(x) for x in c])
                if s.get('keep'):
                    kept.append(it)
                else:
                    it.close()
                del it
        except Exception as e:  # noqa
            o = {'raised': type(e).__name__}
            if s['op'] == 'sccs':
                o.update(obs=[], exhausted=False)
            out.append(o)
            break
        out.append(o)
    return {'steps': out}


OPS = {k[3:]: v for k, v in list(globals().items()) if k.startswith('op_')}


def main():
    jobs = json.load(sys.stdin)
    real_stdout = os.fdopen(os.dup(1), 'w')
    devnull = os.open(os.devnull, os.O_WRONLY)
    os.dup2(devnull, 1)
    out = []
    for job in jobs:
        r = OPS[job['op']](job)
        r['id'] = job.get('id')
        out.append(r)
    json.dump(out, real_stdout)
    real_stdout.flush()


if __name__ == '__main__':
    main()
