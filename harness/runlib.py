"""Drive the real zope.testrunner on worlds and collect observations."""
import json
import os
import shutil
import subprocess
import sys
import tempfile
import time
from concurrent.futures import ThreadPoolExecutor

HERE = os.path.dirname(os.path.abspath(__file__))
VERIF = os.path.dirname(HERE)
BOOT = os.path.join(HERE, 'boot')
WORLD_DIR = os.path.join(HERE, 'world')
PY = os.environ.get('VERIF_PYTHON', '/venv/bin/python')
REPO_SRC = os.environ.get('VERIF_REPO_SRC', '/repo/src')
NCPU = int(os.environ.get('VERIF_JOBS', str(os.cpu_count() or 4)))

sys.path.insert(0, HERE)
import report as reportmod  # noqa: E402


BOOT_OTHER = os.path.join(HERE, 'boot_other')
OTHER_PYTHONS = {v: '/root/.pyenv/versions/%s/bin/python' % full
                 for v, full in (('3.9', '3.9.18'), ('3.10', '3.10.13'),
                                 ('3.11', '3.11.7'), ('3.13', '3.13.0'))
                 if os.path.exists('/root/.pyenv/versions/%s/bin/python' % full)}


def base_env(extra=None):
    env = dict(os.environ)
    env['PYTHONPATH'] = BOOT
    env['PYTHONWARNINGS'] = 'ignore'
    env['PYTHONDONTWRITEBYTECODE'] = '1'
    env['PYTHONHASHSEED'] = env.get('PYTHONHASHSEED', '0')
    env['VERIF_REPO_SRC'] = REPO_SRC
    env['ZOPE_TESTRUNNER_VERIF'] = '1'
    env.pop('VERIF_WORLD', None)
    env.pop('VERIF_LOG', None)
    env['COLUMNS'] = '200'
    if extra:
        env.update(extra)
    return env


_scratch_root = None


def scratch_root():
    global _scratch_root
    if _scratch_root is None:
        _scratch_root = tempfile.mkdtemp(prefix='verif-run-')
    return _scratch_root


def cleanup():
    global _scratch_root
    if _scratch_root and os.path.isdir(_scratch_root):
        shutil.rmtree(_scratch_root, ignore_errors=True)
    _scratch_root = None


def read_events(path):
    evs = []
    if not os.path.exists(path):
        return evs
    with open(path, 'rb') as f:
        for line in f:
            line = line.strip()
            if not line:
                continue
            try:
                evs.append(json.loads(line))
            except ValueError:
                evs.append({'e': 'Garbled', 'pid': 0, 'seq': 0, 'ns': 0})
    return evs


def run_cli(world, args, timeout=120, env_extra=None, interpose=True,
            keep_dir=None, python=None, path_dir=None, cwd=None):
    """One real CLI run (parent may spawn children). Returns observation."""
    d = keep_dir or tempfile.mkdtemp(prefix='w-', dir=scratch_root())
    wpath = os.path.join(d, 'world.json')
    lpath = os.path.join(d, 'events.ndjson')
    bdir = os.path.join(d, 'barriers')
    os.makedirs(bdir, exist_ok=True)
    with open(wpath, 'w') as f:
        json.dump(world, f)
    if os.path.exists(lpath):
        os.unlink(lpath)
    env = base_env({'VERIF_WORLD': wpath, 'VERIF_LOG': lpath,
                    'VERIF_BARRIER_DIR': bdir})
    if interpose:
        env['VERIF_INTERPOSE'] = '1'
    sf = world.get('env', {}).get('spawn_fail')
    if sf:
        env['VERIF_SPAWN_FAIL'] = json.dumps(sf)
        if world['env'].get('spawn_errno'):
            env['VERIF_SPAWN_ERRNO'] = world['env']['spawn_errno']
    if env_extra:
        env.update(env_extra)
    cmd = [python or PY, os.path.join(BOOT, 'zt.py'),
           '--path', path_dir or WORLD_DIR] + list(args)
    t0 = time.monotonic()
    timed_out = False
    try:
        p = subprocess.run(cmd, env=env, stdout=subprocess.PIPE,
                           stderr=subprocess.PIPE, timeout=timeout,
                           cwd=cwd or d, stdin=subprocess.DEVNULL)
        rc, out, err = p.returncode, p.stdout, p.stderr
    except subprocess.TimeoutExpired as e:
        timed_out = True
        rc, out, err = -999, e.stdout or b'', e.stderr or b''
        subprocess.run(['pkill', '-f', wpath], check=False)
    wall = time.monotonic() - t0
    res = {
        'rc': rc, 'timed_out': timed_out, 'wall': wall,
        'stdout': out.decode('utf-8', 'backslashreplace'),
        'stderr': err.decode('utf-8', 'backslashreplace'),
        'events': read_events(lpath), 'dir': d,
    }
    res['report'] = reportmod.parse(res['stdout'])
    if not keep_dir:
        shutil.rmtree(d, ignore_errors=True)
    return res


def run_cli_controlled(world, args, controller, timeout=120, env_extra=None):
    """Like run_cli, but the run is *steered*: while the runner works,
    controller(events_so_far, barrier_dir) is called again and again; it
    releases barriers (files) on which scripted tests / layer hooks wait, so a
    schedule computed by TLC is forced on the real processes."""
    d = tempfile.mkdtemp(prefix='w-', dir=scratch_root())
    wpath = os.path.join(d, 'world.json')
    lpath = os.path.join(d, 'events.ndjson')
    bdir = os.path.join(d, 'barriers')
    os.makedirs(bdir)
    with open(wpath, 'w') as f:
        json.dump(world, f)
    env = base_env({'VERIF_WORLD': wpath, 'VERIF_LOG': lpath,
                    'VERIF_BARRIER_DIR': bdir, 'VERIF_INTERPOSE': '1'})
    if env_extra:
        env.update(env_extra)
    cmd = [PY, os.path.join(BOOT, 'zt.py'), '--path', WORLD_DIR] + list(args)
    outf = open(os.path.join(d, 'stdout'), 'wb')
    errf = open(os.path.join(d, 'stderr'), 'wb')
    t0 = time.monotonic()
    p = subprocess.Popen(cmd, env=env, stdout=outf, stderr=errf, cwd=d,
                         stdin=subprocess.DEVNULL)
    timed_out = False
    while p.poll() is None:
        if time.monotonic() - t0 > timeout:
            timed_out = True
            p.kill()
            subprocess.run(['pkill', '-f', wpath], check=False)
            # let parked children go so that nothing lingers
            for n in world.get('env', {}).get('barriers', ()):
                open(os.path.join(bdir, n), 'w').close()
            break
        controller(read_events(lpath), bdir)
        time.sleep(0.01)
    p.wait()
    outf.close()
    errf.close()
    with open(os.path.join(d, 'stdout'), 'rb') as f:
        out = f.read()
    with open(os.path.join(d, 'stderr'), 'rb') as f:
        err = f.read()
    res = {'rc': -999 if timed_out else p.returncode, 'timed_out': timed_out,
           'wall': time.monotonic() - t0,
           'stdout': out.decode('utf-8', 'backslashreplace'),
           'stderr': err.decode('utf-8', 'backslashreplace'),
           'events': read_events(lpath), 'dir': d}
    res['report'] = reportmod.parse(res['stdout'])
    shutil.rmtree(d, ignore_errors=True)
    return res


def run_cli_many(jobs, workers=None, **kw):
    """jobs: list of (world, args[, kwargs]); parallel over processes."""
    def one(job):
        world, args = job[0], job[1]
        k = dict(kw)
        if len(job) > 2:
            k.update(job[2])
        return run_cli(world, args, **k)
    with ThreadPoolExecutor(max_workers=workers or NCPU) as ex:
        return list(ex.map(one, jobs))


def run_inproc_many(jobs, workers=None, chunk=None, timeout=600, python=None):
    """jobs: list of {id, world, args}; run through inproc_worker in
    parallel worker processes; returns results in job order.
    python: another CPython of the sandbox (cross-version clauses)."""
    workers = workers or NCPU
    py = python or PY
    benv = (lambda: base_env({'PYTHONPATH': BOOT_OTHER})) if python else base_env
    if not jobs:
        return []
    if chunk is None:
        chunk = max(1, min(40, (len(jobs) + workers - 1) // workers))
    chunks = [jobs[i:i + chunk] for i in range(0, len(jobs), chunk)]

    def one(ch):
        p = subprocess.run([py, os.path.join(HERE, 'inproc_worker.py')],
                           input=json.dumps(ch).encode(), env=benv(),
                           stdout=subprocess.PIPE, stderr=subprocess.PIPE,
                           timeout=timeout, cwd=scratch_root())
        if p.returncode != 0:
            # fall back to one-by-one so that one hard crash does not hide
            # the others; a job that kills the worker is reported as such
            out = []
            for job in ch:
                q = subprocess.run(
                    [py, os.path.join(HERE, 'inproc_worker.py')],
                    input=json.dumps([job]).encode(), env=benv(),
                    stdout=subprocess.PIPE, stderr=subprocess.PIPE,
                    timeout=timeout, cwd=scratch_root())
                if q.returncode == 0:
                    out.extend(json.loads(q.stdout))
                else:
                    out.append({'id': job['id'], 'failed': True,
                                'crashed': 'WORKER-DIED rc=%s' % q.returncode,
                                'crash_tb': q.stderr.decode('utf-8', 'replace')[-2000:],
                                'events': [], 'stdout': '', 'stderr': '',
                                'stdout_restored': False,
                                'stderr_restored': False,
                                'globals_changed': []})
            return out
        return json.loads(p.stdout)

    with ThreadPoolExecutor(max_workers=workers) as ex:
        parts = list(ex.map(one, chunks))
    results = [r for part in parts for r in part]
    for r in results:
        r['report'] = reportmod.parse(r.get('stdout', ''))
    return results


def compute_refs(worlds, workers=None, python=None):
    """Stock-unittest reference events for every test of every world."""
    jobs = [{'id': str(k), 'world': w, 'args': [], 'ref_only': True}
            for k, w in enumerate(worlds)]
    res = run_inproc_many(jobs, workers=workers, python=python)
    return [r['ref'] for r in res]


def run_worker(script, jobs, workers=None, chunk=None, timeout=900, env_extra=None,
               python=None):
    """Generic parallel driver: `script` (under harness/) reads a JSON list of
    jobs on stdin and writes a JSON list of results (same order) to stdout."""
    workers = workers or NCPU
    if not jobs:
        return []
    if chunk is None:
        chunk = max(1, (len(jobs) + workers - 1) // workers)
    chunks = [jobs[i:i + chunk] for i in range(0, len(jobs), chunk)]

    def one(ch):
        p = subprocess.run([python or PY, os.path.join(HERE, script)],
                           input=json.dumps(ch).encode(), env=base_env(env_extra),
                           stdout=subprocess.PIPE, stderr=subprocess.PIPE,
                           timeout=timeout, cwd=scratch_root())
        if p.returncode != 0:
            raise RuntimeError('worker %s failed rc=%s: %s' % (
                script, p.returncode, p.stderr.decode('utf-8', 'replace')[-2000:]))
        return json.loads(p.stdout)

    with ThreadPoolExecutor(max_workers=workers) as ex:
        parts = list(ex.map(one, chunks))
    return [r for part in parts for r in part]
