"""Directory-tree worlds for C14 / C15: materialise a tree, run the real
runner on it, observe imports and file-system changes, and compute the name
*facts* Discovery.tla needs (spelling facts via `re`, never expected results)."""
import hashlib
import json
import os
import re
import shutil
import stat
import subprocess
import tempfile
from concurrent.futures import ThreadPoolExecutor

import runlib

IDENT = re.compile(r'[_a-zA-Z]\w*$')                 # "names that are identifiers"
IGNORE_FOLDERS = {'.git', 'node_modules', '__pycache__'}
DEFAULT_IGNORE_DIR = ['.git', '.svn', 'CVS', '{arch}', '.arch-ids', '_darcs']
DEFAULT_TESTS = '^tests$'
DEFAULT_FILE = '^test'

PY_BODY = '''import os
with open(os.environ['VERIF_IMPORT_LOG'], 'a') as _f:
    _f.write(__name__ + '\\t' + os.path.abspath(__file__) + '\\n')
import unittest


class T(unittest.TestCase):
    def test_x(self):
        pass


def alt_suite():
    # only reachable through --suite-name alt_suite
    class T2(unittest.TestCase):
        def test_y(self):
            pass
    return unittest.TestSuite([T2('test_y')])
'''

# the compiled extension the runner's interpreter accepts under --usecompiled
# (find.strip_py_ext: ".pyc", or ".pyo" when running with -O; it never runs with -O here)
COMPILED_EXT = '.pyc'
_compiled_body = []


def compiled_body():
    """PY_BODY compiled by the interpreter that runs the runner
    (py_compile.compile(src, cfile=..., doraise=True)); the bytes do not depend
    on where the file is put, so one compilation serves every tree"""
    if not _compiled_body:
        d = tempfile.mkdtemp(prefix='verif-pyc-')
        try:
            src = os.path.join(d, 'body.py')
            with open(src, 'w') as f:
                f.write(PY_BODY)
            subprocess.run([runlib.PY, '-c',
                            'import py_compile, sys; py_compile.compile(sys.argv[1], cfile=sys.argv[2], '
                            'dfile="body.py", doraise=True)', src, os.path.join(d, 'body.pyc')],
                           check=True, env=runlib.base_env(), stdin=subprocess.DEVNULL)
            with open(os.path.join(d, 'body.pyc'), 'rb') as f:
                _compiled_body.append(f.read())
        finally:
            shutil.rmtree(d, ignore_errors=True)
    return _compiled_body[0]


def shm_root():
    base = '/dev/shm' if os.path.isdir('/dev/shm') and os.access('/dev/shm', os.W_OK) else None
    return tempfile.mkdtemp(prefix='verif-fs-', dir=base)


def closure(paths):
    """every path together with all its ancestor directories"""
    out = {}
    for p, kind in paths.items():
        out[p] = kind
        parts = p.split('/')
        for i in range(1, len(parts)):
            out['/'.join(parts[:i])] = 'dir'
    return out


def materialise(top, paths, order_key, contents=None, compiled=()):
    """paths: {relpath: 'file'|'dir'}; siblings are created in the order given
    by order_key (tmpfs lists directories in (reverse) creation order);
    compiled: the paths that are real, importable byte-code of PY_BODY."""
    paths = closure(paths)
    os.makedirs(top, exist_ok=True)
    for p in sorted(paths, key=lambda p: (p.count('/'), order_key(p))):
        full = os.path.join(top, p)
        if paths[p] == 'dir':
            os.makedirs(full, exist_ok=True)
        else:
            os.makedirs(os.path.dirname(full), exist_ok=True)
            if p in compiled:
                with open(full, 'wb') as f:
                    f.write(compiled_body())
                continue
            data = (contents or {}).get(p)
            if data is None:
                data = PY_BODY if p.endswith('.py') else 'data of %s\n' % p
            with open(full, 'w') as f:
                f.write(data)
    return paths


def name_facts(names, tests_pat=DEFAULT_TESTS, file_pat=DEFAULT_FILE, ignore_dir=()):
    ign = set(DEFAULT_IGNORE_DIR) | set(ignore_dir)
    ranked = sorted(names)
    facts = {}
    for n in names:
        stem = n[:-3] if n.endswith('.py') else n[:-len(COMPILED_EXT)] if n.endswith(COMPILED_EXT) else None
        facts[n] = {
            'ident': bool(IDENT.match(n)), 'ignF': n in IGNORE_FOLDERS, 'ignD': n in ign,
            'tdir': bool(re.search(tests_pat, n)), 'py': n.endswith('.py'),
            'stemT': bool(stem is not None and stem and re.search(tests_pat, stem)),
            'stemF': bool(stem is not None and stem and re.search(file_pat, stem)),
            'init': n == '__init__.py', 'comp': n[-4:] in ('.pyc', '.pyo'),
            'cext': n.endswith(COMPILED_EXT), 'initc': n == '__init__' + COMPILED_EXT,
            'sib': n[:-1], 'pyc': n == '__pycache__', 'rank': ranked.index(n),
            'bare': n in ('.pyc', '.pyo'),
        }
    return facts


def tree_record(paths, roots, mpats=(), keep=False, walk=None, root_pkgs=None, usecompiled=False,
                linkdirs=(), **pat):
    """paths (closed) -> the T record of Discovery.tla; roots: relpaths ('' = top);
    linkdirs: the directories that are symbolic links (an lstat fact)"""
    names = sorted({p.split('/')[-1] for p in paths})
    entries = {}
    for p, kind in paths.items():
        parent = '/'.join(p.split('/')[:-1])
        entries[p] = {'parent': parent, 'name': p.split('/')[-1], 'kind': kind, 'link': p in linkdirs}
    tests_pat = pat.get('tests_pat', DEFAULT_TESTS)

    root_pkgs = root_pkgs or {}

    def dotted(p, r):
        rel = p[len(r) + 1:] if r else p
        name = (rel[:-3] if rel.endswith('.py') else
                rel[:-len(COMPILED_EXT)] if rel.endswith(COMPILED_EXT) else rel).replace('/', '.')
        return (root_pkgs[r] + '.' + name) if root_pkgs.get(r) else name
    mm = {}
    for p, kind in paths.items():
        if kind == 'file':
            mm[p] = {r: [bool(re.search(m.lstrip('!') if m.startswith('!') else m, dotted(p, r)))
                         for m in mpats] for r in set(roots)}
    return {'entries': entries or {'_': {'parent': '_', 'name': '_', 'kind': 'none', 'link': False}},
            'names': name_facts(names + ['_'], **pat),
            'roots': list(roots),
            'rootPkg': [root_pkgs.get(r, '') for r in roots],
            'walkPkg': [root_pkgs.get(r, '') for r in (walk if walk is not None else roots)],
            'walk': list(walk if walk is not None else roots),
            'walkT': [bool(re.search(tests_pat, os.path.basename(r))) if r else False
                      for r in (walk if walk is not None else roots)],
            'mpats': [{'neg': m.startswith('!')} for m in mpats],
            'mmatch': mm or {'_': {'': []}}, 'keep': bool(keep), 'usecompiled': bool(usecompiled)}


def _hash(full):
    try:
        with open(full, 'rb') as fh:
            return hashlib.sha1(fh.read()).hexdigest()
    except OSError as e:
        return 'unreadable:%s' % e.errno


def entry_state(full):
    """what is compared before / after a run, per directory entry: type, the
    entry's own permission bits (lstat) and, for a file, its content; for a
    symbolic link its spelling and what it leads to (stat: type, permission
    bits, content of the file behind it - wherever that file lives)"""
    st = os.lstat(full)
    mode = '%04o' % stat.S_IMODE(st.st_mode)
    if stat.S_ISLNK(st.st_mode):
        try:
            tst = os.stat(full)
        except OSError:
            return 'link %s -> %s (dangling)' % (mode, os.readlink(full))
        if stat.S_ISDIR(tst.st_mode):
            return 'link %s dir %04o' % (mode, stat.S_IMODE(tst.st_mode))
        return 'link %s -> %s file %04o %s' % (mode, os.readlink(full), stat.S_IMODE(tst.st_mode), _hash(full))
    if stat.S_ISDIR(st.st_mode):
        return 'dir %s' % mode
    return 'file %s %s' % (mode, _hash(full))


def snapshot(top):
    out = {}
    for dp, dirs, files in os.walk(top):
        for n in dirs + files:
            full = os.path.join(dp, n)
            out[os.path.relpath(full, top)] = entry_state(full)
    return out


def run_runner(top, args, timeout=120, env_extra=None):
    log = top + '.importlog'
    open(log, 'w').close()
    env = runlib.base_env(dict({'VERIF_IMPORT_LOG': log}, **(env_extra or {})))
    cmd = [runlib.PY, os.path.join(runlib.BOOT, 'zt.py')] + list(args)
    try:
        p = subprocess.run(cmd, env=env, stdout=subprocess.PIPE, stderr=subprocess.PIPE,
                           timeout=timeout, cwd=os.path.dirname(top), stdin=subprocess.DEVNULL)
        rc, out, err = p.returncode, p.stdout.decode('utf-8', 'replace'), p.stderr.decode('utf-8', 'replace')
    except subprocess.TimeoutExpired:
        rc, out, err = -999, '', 'TIMEOUT'
    imported = []
    with open(log) as f:
        for line in f:
            mod, path = line.rstrip('\n').split('\t')
            imported.append((mod, os.path.relpath(path, top)))
    os.unlink(log)
    return {'rc': rc, 'stdout': out, 'stderr': err, 'imported': imported,
            'listed': listed_files(out, imported)}


def listed_files(out, imported):
    """--list-tests output projected onto files: every listed test is looked up
    (its printed id, whatever this interpreter's str(test) looks like) among
    the ids of the tests PY_BODY defines in the modules that logged an import"""
    ids = {}
    for mod, path in imported:
        for cls, meth in (('T', 'test_x'), ('alt_suite.<locals>.T2', 'test_y')):
            ids['%s (%s.%s.%s)' % (meth, mod, cls, meth)] = path
            ids['%s (%s.%s)' % (meth, mod, cls)] = path
    listed, inside = [], False
    for line in out.splitlines():
        if line.startswith('Listing ') and line.endswith(' tests:'):
            inside = True
        elif inside and line.startswith('  '):
            listed.append(ids.get(line.strip(), '?' + line.strip()))
        else:
            inside = False
    return listed


def run_case(case):
    """case: {id, paths, order, roots, args(top)->list, contents}; one fresh
    tree + one real run; returns observations"""
    base = shm_root()
    top = os.path.join(base, 'w')
    try:
        keyf = {'sorted': lambda p: p, 'reverse': lambda p: [-ord(c) for c in p],
                'hash': lambda p: hashlib.md5((case['id'] + p).encode()).hexdigest()}[case['order']]
        paths = materialise(top, case['paths'], keyf, case.get('contents'), set(case.get('compiled') or ()))
        # symlinked directories: the target lives outside the tree; logically
        # (for the walk, which follows such links) its content is below the link
        links = {}
        for k, (lp, sub) in enumerate(sorted((case.get('links') or {}).items())):
            ext = os.path.join(base, 'ext%d' % k)
            sp = materialise(ext, sub['paths'], keyf, sub.get('contents'))
            os.makedirs(os.path.dirname(os.path.join(top, lp)), exist_ok=True)
            os.symlink(ext, os.path.join(top, lp))
            links[lp] = ext
            paths.update(closure({lp: 'dir'}))
            for q, kind in sp.items():
                paths[lp + '/' + q] = kind

        # symlinked files (C15): {link path: {'target': relpath inside the tree
        # | None (dangling) | '<store>/name' (a file outside every search path),
        # 'mode': permission bits of the target}}; for os.walk - and for the
        # runner - such an entry is a file of its directory
        store = os.path.join(base, 'store')
        for lp, spec in sorted((case.get('flinks') or {}).items()):
            tgt = spec.get('target')
            if tgt is None:
                dest = os.path.join(base, 'nowhere', os.path.basename(lp))
            elif tgt.startswith('<store>/'):
                dest = os.path.join(store, tgt[len('<store>/'):])
                os.makedirs(store, exist_ok=True)
                with open(dest, 'w') as f:
                    f.write('stored %s\n' % tgt)
            else:
                dest = os.path.join(top, tgt)
            if tgt is not None and 'mode' in spec:
                os.chmod(dest, spec['mode'])
            os.makedirs(os.path.dirname(os.path.join(top, lp)), exist_ok=True)
            os.symlink(dest, os.path.join(top, lp))
            paths.update(closure({lp: 'file'}))

        def snap():
            out = snapshot(top)
            for lp, ext in links.items():
                for q, h in snapshot(ext).items():
                    out[lp + '/' + q] = h
            if os.path.isdir(store):
                out['<store>'] = entry_state(store)
                for q, h in snapshot(store).items():
                    out['<store>/' + q] = h
            return out
        before = snap()
        args = []
        pkgs = case.get('root_pkgs') or {}
        extra_env = {}
        for r in case['roots']:
            full = os.path.join(top, r) if r else top
            if pkgs.get(r):
                # --package-path: the directory is stitched into a package that
                # lives elsewhere on sys.path
                lib = os.path.join(base, 'lib')
                os.makedirs(os.path.join(lib, pkgs[r]), exist_ok=True)
                with open(os.path.join(lib, pkgs[r], '__init__.py'), 'w') as f:
                    f.write('__path__.append(%r)\n' % full)
                extra_env['PYTHONPATH'] = runlib.BOOT + os.pathsep + lib
                args += ['--package-path', full, pkgs[r]]
            else:
                args += [case.get('path_flag', '--path'), full]
        # "{top}..." in an argument stands for the tree's absolute location
        args += [a.replace('{top}', top) if a.startswith('{top}') else a for a in case['args']]
        res = run_runner(top, args, env_extra=extra_env)
        after = snap()
        res['paths'] = paths
        res['linkdirs'] = sorted(links)
        res['deleted'] = sorted(p for p in before if p not in after)
        res['changed'] = sorted([p for p in before if p in after and before[p] != after[p]] +
                                [p for p in after if p not in before])
        return res
    finally:
        shutil.rmtree(base, ignore_errors=True)


def run_cases(cases, workers=None):
    with ThreadPoolExecutor(max_workers=workers or runlib.NCPU) as ex:
        return list(ex.map(run_case, cases))
