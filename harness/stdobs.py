"""Projection of the runner's printed output onto the C13 vocabulary: the
sequence of failure/error report headers and of test-written tokens, in the
order they appear.  Pure observation."""
import re

import abstract

TOKEN = re.compile(r'QZ\d+Q')
HEADER = re.compile(r'^(Error|Failure) in test (.*)$', re.M)


def items(text, world):
    by_name = {abstract.test_name(world, t): t for t in world['tests']}
    found = []
    for m in HEADER.finditer(text):
        name = m.group(2)
        tid = by_name.get(name)
        if tid is None:
            m2 = re.match(r'^(.*\)) [\[(].*[\])]$', name)
            if m2:
                tid = by_name.get(m2.group(1))
        found.append((m.start(), {'k': 'H', 't': tid or '?' + name, 'tok': ''}))
    for m in TOKEN.finditer(text):
        found.append((m.start(), {'k': 'T', 't': '', 'tok': m.group(0)}))
    found.sort(key=lambda x: x[0])
    return [f[1] for f in found]
