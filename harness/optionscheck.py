"""Options.tla bound to the real get_options (shared by C08, C09, C15).

TLC model-checks OptionsMC (pipeline of get_options' normalisation steps, the
documented meaning of the raw switches against the code's reading of the
normalised options) and judges one record per real call of
zope.testrunner.options.get_options(argv, defaults).  The harness only spells
abstract tokens as command-line words (several spellings per token) and
projects the resulting namespace onto the spec's vocabulary."""
import itertools
import json
import os
import random
import tempfile

import runlib
import tlc

UNIT = 'zope.testrunner.layer.UnitTests'
TPATS = ['alpha', '!beta', '', '.', '^test_a', '!', 'a.b', 'x|y']
MPATS = ['tests', '!zzmod', 'pkg.sub', '.', '']
LPATS = ['L1', '!L1', 'L[12]', UNIT, '!' + UNIT, 'Unit', '', '.', 'L2']
INTS = [-1, 0, 1, 2, 3, 5]


def tok(k, v='', n=0):
    return {'k': k, 'v': v, 'n': n}


def alphabet():
    a = [tok('t', p) for p in TPATS[:4]] + [tok('m', p) for p in MPATS[:3]]
    a += [tok('layer', p) for p in LPATS[:5]]
    a += [tok('at', n=n) for n in (0, 2, -1)] + [tok('only', n=n) for n in (0, 1, 3)]
    a += [tok(k) for k in ('u', 'f', 'all', 'q', 'k', 'usecompiled', 'v')]
    a += [tok('N', n=2), tok('j', n=2)]
    return a


def random_tok(rng):
    r = rng.random()
    if r < 0.18:
        return tok('t', rng.choice(TPATS))
    if r < 0.30:
        return tok('m', rng.choice(MPATS))
    if r < 0.48:
        return tok('layer', rng.choice(LPATS))
    if r < 0.58:
        return tok('at', n=rng.choice(INTS))
    if r < 0.66:
        return tok('only', n=rng.choice(INTS))
    if r < 0.70:
        return tok('N', n=rng.choice([1, 2, 3]))
    if r < 0.74:
        return tok('j', n=rng.choice([1, 2, 3]))
    return tok(rng.choice(['u', 'f', 'all', 'q', 'k', 'usecompiled', 'v', 'v', 'u', 'f']))


SPELL = {
    't': [lambda t: ['-t', t['v']], lambda t: ['--test', t['v']], lambda t: ['--test=' + t['v']]],
    'm': [lambda t: ['-m', t['v']], lambda t: ['--module', t['v']], lambda t: ['--module=' + t['v']]],
    'layer': [lambda t: ['--layer', t['v']], lambda t: ['--layer=' + t['v']]],
    'at': [lambda t: ['-a', str(t['n'])], lambda t: ['--at-level', str(t['n'])],
           lambda t: ['--at-level=%d' % t['n']], lambda t: ['-a%d' % t['n']]],
    'only': [lambda t: ['--only-level', str(t['n'])], lambda t: ['--only-level=%d' % t['n']]],
    'N': [lambda t: ['-N', str(t['n'])], lambda t: ['--repeat', str(t['n'])], lambda t: ['-N%d' % t['n']]],
    'j': [lambda t: ['-j', str(t['n'])], lambda t: ['-j%d' % t['n']]],
    'u': [lambda t: ['-u'], lambda t: ['--unit']],
    'f': [lambda t: ['-f'], lambda t: ['--non-unit']],
    'all': [lambda t: ['--all']],
    'q': [lambda t: ['-q'], lambda t: ['--quiet']],
    'k': [lambda t: ['-k'], lambda t: ['--keepbytecode']],
    'usecompiled': [lambda t: ['--usecompiled']],
    'v': [lambda t: ['-v'], lambda t: ['--verbose']],
    'pos': [lambda t: [t['v']]],
}


def spell(toks, rng):
    """abstract tokens -> command-line words (a lookup with spelling variants);
    a pattern starting with '-' could be taken for an option: such values are
    always attached with '='"""
    out = []
    for t in toks:
        if t['k'] in ('at', 'only') and t['n'] < 0:
            # a separate word "-1" is taken for an option by argparse
            out += ['--%s=%d' % ({'at': 'at-level', 'only': 'only-level'}[t['k']], t['n'])]
            continue
        out += rng.choice(SPELL[t['k']])(t)
    return out


def make_cases(tier, seed):
    rng = random.Random(seed * 7919 + 77)
    alpha = alphabet()
    cases = []
    for n in (0, 1, 2):
        for c in itertools.product(alpha, repeat=n):
            if n == 2 and rng.random() > (0.35 if tier == 'quick' else 1.0):
                continue
            cases.append(([], list(c)))
    for d in alpha:
        for a in rng.sample(alpha, 6 if tier == 'quick' else len(alpha)):
            cases.append(([d], [a]))
    for _ in range(500 if tier == 'quick' else 6000):
        defs = [random_tok(rng) for _ in range(rng.choice([0, 0, 1, 2, 3]))]
        args = [random_tok(rng) for _ in range(rng.randint(0, 6))]
        cases.append((defs, args))
    out = []
    for i, (defs, args) in enumerate(cases):
        args = list(args)
        r = rng.random()
        pos = []
        if r < 0.25:
            p1 = rng.choice(['.', 'tests', 'pkg.sub', ''])
            pos = [tok('pos', p1)]
            if rng.random() < 0.6:
                pos.append(tok('pos', rng.choice(['alpha', 'test_x', ''])))
        at = rng.randint(0, len(args))
        args[at:at] = pos                     # positionals stay adjacent (argparse)
        out.append({'id': 'o%d' % i, 'defs': defs, 'args': args,
                    'argv': ['zt'] + spell(args, rng), 'defaults': spell(defs, rng)})
    return out


def run(chk, tier, seed, clauses, mc=True):
    """clauses: prefixes of the P-clause names this property owns (e.g. 'C09:')"""
    if mc:
        res = tlc.run('OptionsMC', 'OptionsMC_q' if tier == 'quick' else 'OptionsMC', timeout=1800)
        chk.add_tlc('OptionsMC', res)
        for dev in ('NoCancel', 'AllOnlyWithoutAtLevel', 'CompiledKeepsCleaning'):
            r = tlc.run('OptionsMC', 'OptionsMC_dev_' + dev, timeout=600)
            chk.add_tlc('OptionsMC_dev_' + dev, r, expect_ok=False)
            if not r.violation:
                chk.machinery('OptionsMC_dev_%s: the deviation did not produce a counterexample' % dev)
        for probe in ('Cancel', 'Legacy'):
            r = tlc.run('OptionsMC', 'OptionsMC_probe_' + probe, timeout=600)
            chk.add_tlc('OptionsMC_probe_' + probe, r, expect_ok=False)
            if not r.violation:
                chk.machinery('OptionsMC_probe_%s: not reached (vacuity)' % probe)
    cases = make_cases(tier, seed)
    jobs = [{'op': 'get_options', 'id': c['id'], 'argv': c['argv'], 'defaults': c['defaults']}
            for c in cases]
    out = runlib.run_worker('funcs_worker.py', jobs)
    judge(chk, cases, out, clauses)


def judge(chk, cases, out, clauses):
    recs = []
    byid = {}
    for c, r in zip(cases, out):
        byid[c['id']] = (c, r)
        if 'raised' in r:
            chk.violation('%soptions-raised' % clauses[0],
                          'get_options(%r, %r) raised: %s' % (c['argv'], c['defaults'], r['raised']),
                          {'options_case': c, 'result': r})
            continue
        pats = {t['v'] for t in c['defs'] + c['args'] if t['k'] == 'layer'} | set(r['obs']['layer']) | {UNIT}
        recs.append({'id': c['id'], 'defs': c['defs'], 'args': c['args'], 'obs': r['obs'],
                     'negs': sorted(p for p in pats if p.startswith('!')),
                     'strip': {p: p[1:] for p in pats if p.startswith('!')} or {'_': '_'}})
        chk.nontrivial.add(json.dumps([c['defs'], c['args']], sort_keys=True))
    chk.traces += len(recs)
    chk.evaluations += len(recs)
    fd, path = tempfile.mkstemp(prefix='verif-opt-', suffix='.json')
    with os.fdopen(fd, 'w') as f:
        json.dump(recs, f)
    try:
        res = tlc.run('Trace_Options', 'Trace_Options', env={'TRACE_FILE': path}, timeout=1200)
    finally:
        os.unlink(path)
    chk.add_tlc('Trace_Options', res)
    drift = 0
    for v in tlc.printed_tuples(res.out, 'OPTVERDICT'):
        rid, failed, dr = v[1], v[2], v[3]
        c, r = byid[rid]
        if failed:
            if any(failed.startswith(p) for p in clauses):
                chk.violation(failed + '|options',
                              'get_options(%r, defaults %r) -> %r' % (c['argv'], c['defaults'], r['obs']),
                              {'options_case': c, 'observed': r['obs'], 'clause': failed})
            else:
                chk.notes.append('options clause of another property failed: %s (%s)' % (failed, rid))
        elif dr:
            drift += 1
            if drift <= 3:
                chk.notes.append('DRIFT Options.tla field %s: argv %r defaults %r -> %r'
                                 % (dr, c['argv'], c['defaults'], r['obs']))
    chk.extra['options_records'] = len(recs)
    chk.extra['options_drift'] = drift
    if recs:
        chk.sample({'argv': cases[-1]['argv'], 'defaults': cases[-1]['defaults'],
                    'observed': out[-1].get('obs')})


def is_replay(path):
    try:
        with open(path) as f:
            return 'options_case' in json.load(f)
    except Exception:
        return False


def replay(chk, path, clauses):
    with open(path) as f:
        r = json.load(f)
    c = r['options_case']
    out = runlib.run_worker('funcs_worker.py', [{'op': 'get_options', 'id': c['id'],
                                                   'argv': c['argv'], 'defaults': c['defaults']}])
    judge(chk, [c], out, clauses)
