"""Runs many worlds inside one interpreter through the real Runner.

stdin: JSON list of jobs {id, world, args}; stdout: JSON list of results.
The harness' own stdout is fd-duplicated away so that whatever the runner
prints goes to a per-job temp file (a real file object: no getvalue()).
"""
import gc
import io
import json
import os
import sys
import tempfile
import threading
import traceback
import warnings

HERE = os.path.dirname(os.path.abspath(__file__))
sys.path.insert(0, os.path.join(HERE, 'world'))
import worldlib  # noqa: E402


snapshot_globals = worldlib.snapshot_globals


def _pre_trace(frame, event, arg):
    return None


def _pre_thread_trace(frame, event, arg):
    return None


def _pre_profile(frame, event, arg):
    return None


def apply_pre(pre):
    """the state the caller of the runner had (C18): non-default values so
    that 'restored' is distinguishable from 'reset to the default'"""
    if not pre:
        return
    if pre.get('gc_threshold'):
        gc.set_threshold(*pre['gc_threshold'])
    if pre.get('gc_debug'):
        gc.set_debug(pre['gc_debug'])
    if pre.get('gc_debug_flags'):
        # C18: the caller's debug flags by name (it may have on what -G names
        # as well, or DEBUG_SAVEALL, which --gc-after-test uses itself)
        v = 0
        for name in pre['gc_debug_flags']:
            v |= getattr(gc, name)
        gc.set_debug(v)
    if pre.get('warn_filter'):
        warnings.filterwarnings('ignore', message='verif-pre-existing-filter')
    if pre.get('tb_patch'):
        import traceback as tb
        orig_f, orig_p = tb.format_exception, tb.print_exception
        tb.format_exception = lambda *a, **k: orig_f(*a, **k)
        tb.print_exception = lambda *a, **k: orig_p(*a, **k)
    if pre.get('hooks') and pre['hooks'] != 'none':
        # 'both': sys and threading hooks (two different functions, so that a
        # mix-up is visible); 'sys': only sys.settrace (a debugger)
        sys.settrace(_pre_trace)
        if pre['hooks'] != 'sys':
            threading.settrace(_pre_thread_trace)
        sys.setprofile(_pre_profile)


def undo_pre():
    sys.settrace(None)
    threading.settrace(None)
    sys.setprofile(None)
    threading.setprofile(None)


class RefResult(__import__('unittest').TestResult):
    """Stock unittest result that records which result events arrive."""

    def __init__(self, log=None):
        super().__init__()
        self.ev = {}
        self.started = {}
        self.log = log

    def _add(self, test, kind):
        # a skip inside a subTest arrives for the _SubTest object
        tid = getattr(test, 'test_case', test)._verif_id
        self.ev.setdefault(tid, []).append(kind)
        if self.log is not None:
            self.log.emit('R', t=tid, kind=kind)

    def startTest(self, test):
        self.started[test._verif_id] = True
        super().startTest(test)

    def addSuccess(self, test):
        self._add(test, 'ok')

    def addFailure(self, test, err):
        self._add(test, 'F')

    def addError(self, test, err):
        self._add(test, 'E')

    def addSkip(self, test, reason):
        self._add(test, 'S')

    def addExpectedFailure(self, test, err):
        self._add(test, 'X')

    def addUnexpectedSuccess(self, test):
        self._add(test, 'U')

    def addSubTest(self, test, subtest, err):
        if err is not None:
            self._add(test, 'SF' if issubclass(err[0], test.failureException)
                      else 'SE')


def compute_ref(spec):
    """Environment fact: the result events stock unittest delivers for each
    scripted test on this interpreter (layers play no role)."""
    import copy
    spec = copy.deepcopy(spec)
    spec['ref_mode'] = True
    log = worldlib.EventLog(None)
    w = worldlib.World(spec, log)
    old = sys.stdout, sys.stderr
    sys.stdout, sys.stderr = io.StringIO(), io.StringIO()
    try:
        res = RefResult(log)
        for tid, t in w.tests.items():
            t.run(res)
    finally:
        sys.stdout, sys.stderr = old
    # the writes of every test in their position relative to its result
    # events (a fact about stock unittest on this interpreter)
    seq = {t: [] for t in w.tests}
    for e in log.mem:
        if e['e'] == 'Write' and e.get('t') in seq:
            seq[e['t']].append({'k': 'w', 'tok': e['tok'], 's': e['stream'],
                                'via': e['via'], 'v': '',
                                'own': bool(e.get('own')), 'dc': bool(e.get('dc'))})
        elif e['e'] in ('Redirect', 'Unredirect') and e.get('t') in seq:
            seq[e['t']].append({'k': 'r' if e['e'] == 'Redirect' else 'u',
                                'tok': '', 's': e['stream'], 'via': '', 'v': '',
                                'own': False, 'dc': False})
        elif e['e'] == 'R':
            seq[e['t']].append({'k': 'e', 'tok': '', 's': '', 'via': '',
                                'v': e['kind'], 'own': False, 'dc': False})
    return {'ev': {t: res.ev.get(t, []) for t in w.tests},
            'started': {t: bool(res.started.get(t)) for t in w.tests},
            'seq': seq}


def read_xml_reports(folder):
    """every report file parsed with a strict XML parser (expat); pure
    observation: well-formed or not, suite attributes, testcase elements"""
    import shutil
    from xml.etree import ElementTree as ET
    out = []
    rdir = os.path.join(folder, 'testreports')
    for fn in sorted(os.listdir(rdir)) if os.path.isdir(rdir) else []:
        rec = {'file': fn, 'wellformed': True, 'err': '', 'attrs': {}, 'cases': []}
        try:
            with open(os.path.join(rdir, fn), 'rb') as f:
                root = ET.fromstring(f.read())
            rec['attrs'] = {k: root.get(k, '') for k in ('tests', 'errors', 'failures', 'name')}
            rec['root'] = root.tag
            for tc in root.iter('testcase'):
                rec['cases'].append({'classname': tc.get('classname', ''),
                                     'name': tc.get('name', ''),
                                     'children': [ch.tag for ch in tc],
                                     'messages': [ch.get('message', '') for ch in tc]})
            rec['n_error'] = len(list(root.iter('error')))
            rec['n_failure'] = len(list(root.iter('failure')))
        except ET.ParseError as e:
            rec['wellformed'] = False
            rec['err'] = str(e)
        out.append(rec)
    shutil.rmtree(folder, ignore_errors=True)
    return out


def run_job(job, scratch):
    if job.get('ref_only'):
        return {'id': job['id'], 'ref': compute_ref(job['world'])}
    if job.get('chdir'):
        os.chdir(scratch)
    for d in job.get('mkdirs', ()):
        # C18: directories the run is pointed at (--profile-directory)
        os.makedirs(os.path.join(scratch, d), exist_ok=True)
    from zope.testrunner.runner import Runner
    spec = job['world']
    log = worldlib.EventLog(None)
    outpath = os.path.join(scratch, 'out.txt')
    errpath = os.path.join(scratch, 'err.txt')
    res = {'id': job['id']}
    old_out, old_err = sys.stdout, sys.stderr
    kind = job.get('stdout_kind', 'file')
    if kind == 'stringio':
        out = io.StringIO()
        err = io.StringIO()
    elif kind == 'merged':
        # one stream object for both: the relative order of what goes to
        # stdout and to stderr becomes observable
        out = err = open(outpath, 'w+', encoding='utf-8',
                         errors='backslashreplace')
    else:
        out = open(outpath, 'w+', encoding='utf-8', errors='backslashreplace')
        err = open(errpath, 'w+', encoding='utf-8', errors='backslashreplace')
    sys.stdout, sys.stderr = out, err
    worldlib.ORIG['stdout'], worldlib.ORIG['stderr'] = out, err
    world = None
    before = None
    try:
        try:
            world = worldlib.World(spec, log)
            log.emit('ProcStart', role='parent', resume='')
            args = ['zt'] + list(job['args'])
            if job.get('xml'):
                job['xml'] = os.path.join(scratch, 'xmlout')
                args += ['--xml', job['xml']]
            runner = Runner(args=args, found_suites=[world.suite],
                            script_parts=[os.path.join(HERE, 'boot', 'zt.py')],
                            cwd=scratch, warnings=job.get('warnings'))
            if 'stdin' in job:
                sys.stdin = io.StringIO(job['stdin'])
            apply_pre(job.get('pre'))
            before = snapshot_globals()
            runner.run()
            res['failed'] = bool(runner.failed)
            res['crashed'] = ''
            res['ran'] = runner.ran
        except BaseException as e:  # noqa -- this *is* the observation
            res['failed'] = True
            res['crashed'] = type(e).__name__
            res['crash_tb'] = traceback.format_exc()[-3000:]
        after = snapshot_globals()
        if job.get('pre'):
            undo_pre()
        res['before'], res['after'] = before or {}, after
        res['stdout_restored'] = sys.stdout is out
        res['stderr_restored'] = sys.stderr is err
        if before is not None:
            res['globals_changed'] = sorted(
                k for k in before if before[k] != after[k])
        else:
            res['globals_changed'] = []
        log.emit('ProcExit')
    finally:
        sys.stdout, sys.stderr = old_out, old_err
        if world is not None:
            world.threads.release_all()
            # hygiene: no thread of this job may still be running (and hand
            # its ident on) when the next job of this worker starts
            import time as _time
            t0 = _time.monotonic()
            while len(sys._current_frames()) > 1 and _time.monotonic() - t0 < 10:
                _time.sleep(0.002)
            # ... nor may threading remember a thread of this job (C19)
            world.threads.forget_ended()
    if kind == 'stringio':
        res['stdout'] = out.getvalue()
        res['stderr'] = err.getvalue()
    elif kind == 'merged':
        out.flush()
        out.seek(0)
        res['stdout'] = out.read()
        res['stderr'] = ''
        out.close()
    else:
        out.flush()
        err.flush()
        out.seek(0)
        err.seek(0)
        res['stdout'] = out.read()
        res['stderr'] = err.read()
        out.close()
        err.close()
    res['events'] = log.mem
    if job.get('xml'):
        res['xml_files'] = read_xml_reports(job['xml'])
    # hygiene between jobs
    gc.set_threshold(700, 10, 10)
    gc.set_debug(0)
    del gc.garbage[:]
    return res


def main():
    jobs = json.load(sys.stdin)
    real_stdout = os.fdopen(os.dup(1), 'w')
    # whatever scripted tests write to fd 1 / fd 2 directly must not end up
    # in the result channel
    devnull = os.open(os.devnull, os.O_WRONLY)
    os.dup2(devnull, 1)
    results = []
    with tempfile.TemporaryDirectory(prefix='verif-inproc-') as scratch:
        for job in jobs:
            results.append(run_job(job, scratch))
    json.dump(results, real_stdout)
    real_stdout.flush()


if __name__ == '__main__':
    main()
