"""Drives the real OutputFormatter along given call sequences (Progress.tla)
and records, after every call, last_width / test_width and what was written
(run-length encoded by character class: t text, s space, r CR, n LF).

stdin: JSON list of cases {id, W, v, p, layers: [[{len, paren, kind, gc, sl, secs}, ...], ...]}
stdout: JSON list of {id, ev: [...]}"""
import io
import json
import sys
import types


class Rec(io.TextIOBase):
    def __init__(self):
        self.chunks = []

    def write(self, s):
        self.chunks.append(s)
        return len(s)

    def flush(self):
        pass

    def isatty(self):
        return False

    def take(self):
        s = ''.join(self.chunks)
        self.chunks = []
        return s


def rle(s):
    out = []
    for ch in s:
        c = 'r' if ch == '\r' else 'n' if ch == '\n' else 's' if ch == ' ' else 't'
        if out and out[-1][0] == c:
            out[-1][1] += 1
        else:
            out.append([c, 1])
    return out


class FakeTest:
    def __init__(self, text):
        self.text = text

    def __str__(self):
        return self.text

    def id(self):
        return self.text

    def countTestCases(self):
        return 1


def name(ln, paren):
    """str(test) of exactly ln characters, ending in a visible character,
    with ' (' at position paren (if it fits)"""
    if paren is not None and 1 <= paren and paren + 4 <= ln:
        s = 'n' * paren + ' (' + 'm' * (ln - paren - 3) + ')'
    else:
        s = 'x' * ln
    assert len(s) == ln, (ln, paren, s)
    return s


def run_case(case):
    from zope.testrunner.formatter import OutputFormatter
    opts = types.SimpleNamespace(progress=case['p'], verbose=case['v'],
                                 resume_layer=None, processes=1)
    fmt = OutputFormatter(opts)
    fmt.max_width = case['W']
    rec = Rec()
    real_out, real_err = sys.stdout, sys.stderr
    sys.stdout = rec
    sys.stderr = io.StringIO()
    ev = []

    def note(e, **kw):
        kw.update(e=e, lw=fmt.last_width, tw=getattr(fmt, 'test_width', 0), out=rle(rec.take()))
        ev.append(kw)
    try:
        for tests in case['layers']:
            total = len(tests)
            for i, t in enumerate(tests):
                test = FakeTest(name(t['len'], t.get('paren')))
                fmt.start_test(test, i + 1, total)
                note('start', len=t['len'], k=i + 1, total=total)
                kind = t['kind']
                if kind == 'success':
                    fmt.test_success(test, t['secs'])
                    note('success', tl=len(fmt.format_seconds_short(t['secs'])))
                elif kind == 'skipped':
                    fmt.test_skipped(test, 'r' * t['sl'])
                    note('skipped', sl=t['sl'])
                else:
                    try:
                        raise ValueError('scripted')
                    except ValueError:
                        ei = sys.exc_info()
                    getattr(fmt, 'test_' + kind)(test, t['secs'], ei)
                    note('bad', tl=len(fmt.format_seconds_short(t['secs'])))
                fmt.stop_test(test, t['gc'])
                note('stop', gc=t['gc'])
            fmt.stop_tests()
            note('stoptests')
            fmt.summary(total, 0, 0, 0.01)
            note('lines')
    finally:
        sys.stdout, sys.stderr = real_out, real_err
    return {'id': case['id'], 'W': case['W'], 'v': case['v'], 'p': case['p'], 'ev': ev}


def main():
    cases = json.load(sys.stdin)
    json.dump([run_case(c) for c in cases], sys.stdout)


if __name__ == '__main__':
    main()
