"""Shared plumbing of the registered checks: evidence, known findings,
VIOLATION / KNOWN-FINDING lines, replay files, TLC bookkeeping."""
import json
import os
import sys
import time

HERE = os.path.dirname(os.path.abspath(__file__))
VERIF = os.path.dirname(HERE)
EVID = os.environ.get('VERIF_EVIDENCE_DIR') or os.path.join(VERIF, 'evidence')
REPLAYS = os.path.join(EVID, 'replays')
KNOWN = os.path.join(VERIF, 'known_findings.json')


def load_known():
    if not os.path.exists(KNOWN):
        return {'known': [], 'fixed': []}
    with open(KNOWN) as f:
        return json.load(f)


class Check:

    def __init__(self, prop, tier, seed, level='model_checking'):
        self.prop = prop
        self.tier = tier
        self.seed = seed
        self.level = level
        self.t0 = time.monotonic()
        self.states = 0
        self.transitions = 0
        self.tlc_runs = []
        self.traces = 0
        self.evaluations = 0
        self.nontrivial = set()
        self.samples = []
        self.violations = []      # (signature, what, replay path)
        self.known_hits = {}      # signature -> count
        self.notes = []
        self.assumptions = []
        self.extra = {}
        self.machinery_errors = []
        self.known = [k for k in load_known()['known']
                      if k['property'] == prop]
        self.rule = ''
        self.replaying = False
        self._cleaned = False

    # -- TLC bookkeeping
    def add_tlc(self, name, res, expect_ok=True):
        self.states += res.distinct
        self.transitions += res.generated
        cov0 = sorted(a for a, (d, t) in res.coverage.items() if t == 0)
        self.tlc_runs.append({'name': name, 'distinct': res.distinct,
                              'generated': res.generated, 'depth': res.depth,
                              'wall_s': round(res.wall, 2),
                              'actions_never_taken': cov0,
                              'cmd': res.cmd})
        if expect_ok and (not res.ok or res.violation):
            try:
                with open(os.path.join(os.environ.get('TMPDIR', '/tmp'),
                                       'verif-tlc-fail-%s-%s.log' % (self.prop, name.replace(' ', '_').replace('/', '_'))), 'w') as f:
                    f.write(res.out)
            except OSError:
                pass
            self.machinery_errors.append(
                'TLC run %s failed (rc=%s, timed_out=%s):\n%s'
                % (name, res.rc, res.timed_out, res.out[-3000:]))

    def machinery(self, msg):
        self.machinery_errors.append(msg)

    def sample(self, s, cap=6):
        if len(self.samples) < cap:
            self.samples.append(s)

    # -- verdicts
    def violation(self, signature, what, replay):
        """signature identifies (clause, deviation/trigger class)."""
        for k in self.known:
            if k['signature'] == signature:
                self.known_hits.setdefault(signature, [0, k['what']])[0] += 1
                return
        rdir = os.path.join(REPLAYS, self.prop, 're') if self.replaying \
            else os.path.join(REPLAYS, self.prop)
        os.makedirs(rdir, exist_ok=True)
        if not self._cleaned:
            # replay files of earlier runs are stale
            self._cleaned = True
            for fn in os.listdir(rdir):
                if fn.endswith('.json'):
                    os.unlink(os.path.join(rdir, fn))
        n = len(self.violations)
        path = os.path.join(rdir, 'v%03d.json' % n)
        replay = dict(replay)
        replay['property'] = self.prop
        replay['signature'] = signature
        replay['what'] = what
        if n < 50 or signature not in {v[0] for v in self.violations}:
            with open(path, 'w') as f:
                json.dump(replay, f, indent=1, default=str)
        self.violations.append((signature, what, path))

    def finish(self, coverage_extra=None):
        wall = time.monotonic() - self.t0
        cov = {
            'states': self.states, 'transitions': self.transitions,
            'traces_validated_against_impl': self.traces,
            'samples': self.samples or ['(none)'],
            'evaluations': max(self.evaluations, self.traces),
            'distinct_nontrivial': len(self.nontrivial),
            'rule': self.rule,
            'tlc_runs': self.tlc_runs,
            'known_findings_hit': {k: v[0] for k, v in self.known_hits.items()},
            'notes': self.notes,
        }
        cov.update(self.extra)
        if coverage_extra:
            cov.update(coverage_extra)
        ev = {'property_id': self.prop, 'tier': self.tier, 'seed': self.seed,
              'level': self.level, 'coverage': cov,
              'assumptions': self.assumptions, 'wall_s': round(wall, 2),
              'violations': len(self.violations)}
        os.makedirs(EVID, exist_ok=True)
        with open(os.path.join(EVID, self.prop + '.json'), 'w') as f:
            json.dump(ev, f, indent=1, default=str)
        for sig, (cnt, what) in sorted(self.known_hits.items()):
            print('KNOWN-FINDING: property=%s %s [%s; %d case(s) in this run]'
                  % (self.prop, what, sig, cnt))
        if self.machinery_errors:
            for m in self.machinery_errors[:5]:
                print('MACHINERY-FAILURE property=%s: %s' % (self.prop, m),
                      file=sys.stderr)
            return 2
        if self.violations:
            seen = set()
            for sig, what, path in self.violations:
                if sig in seen or len(seen) >= 12:
                    continue
                seen.add(sig)
                print('VIOLATION property=%s replay=%s  (%s: %s)'
                      % (self.prop, path, sig, what))
            return 1
        print('OK property=%s tier=%s states=%d traces=%d wall=%.1fs'
              % (self.prop, self.tier, self.states, self.traces, wall))
        return 0
