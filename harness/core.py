"""Core run machine: execute worlds on the real runner, validate the traces
with TLC against spec/Trace_Run.tla (P-specs of C01 C02 C03 C04 C05 C12 C16)."""
import json
import os
import tempfile

import abstract
import runlib
import tlc


def execute(cases, timeout=180, python=None):
    """cases: [{id, world, o, mode}] -> {id: result}."""
    refs = runlib.compute_refs([c['world'] for c in cases], python=python)
    for c, r in zip(cases, refs):
        c['ref'] = r
    inproc = [c for c in cases if c['mode'] == 'inproc']
    cli = [c for c in cases if c['mode'] == 'cli']
    out = {}
    if inproc:
        jobs = [{'id': c['id'], 'world': c['world'],
                 'args': abstract.concrete_args(c['o']),
                 'stdout_kind': c.get('stdout_kind', 'file')} for c in inproc]
        for c, r in zip(inproc, runlib.run_inproc_many(jobs, python=python)):
            out[c['id']] = r
    if cli:
        # cli_kw: e.g. a relative --path and the directory to start in
        jobs = [(c['world'], abstract.concrete_args(c['o']),
                 dict({'timeout': timeout}, **c.get('cli_kw', {}))) for c in cli]
        for c, r in zip(cli, runlib.run_cli_many(jobs)):
            out[c['id']] = r
    return out


def trace_record(case, res):
    o = case['o']
    w = abstract.abstract_world(case['world'], o, case['ref'])
    return {
        'id': case['id'],
        'w': w,
        'o': abstract.abstract_opts(o),
        'ev': abstract.abstract_events(res['events'], life=w['life']),
        'rep': abstract.abstract_report(res, cli=(case['mode'] == 'cli'),
                                        world=case['world']),
    }


def validate(records, module='Trace_Run', cfg='Trace_Run', workers=None,
             timeout=900):
    """Returns (verdicts {id: [[fam, clause], ...]}, tlc result)."""
    if not records:
        return {}, None
    fd, path = tempfile.mkstemp(prefix='verif-traces-', suffix='.json')
    with os.fdopen(fd, 'w') as f:
        json.dump(records, f)
    try:
        res = tlc.run(module, cfg, env={'TRACE_FILE': path}, workers=workers,
                      timeout=timeout)
    finally:
        os.unlink(path)
    verdicts = {}
    for v in tlc.printed_tuples(res.out, 'VERDICT'):
        verdicts[v[1]] = [list(x) for x in v[2]]
    return verdicts, res
