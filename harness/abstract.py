"""Projection of concrete worlds / options / event logs onto the vocabulary
of the TLA+ specifications (DESIGN.md 3).  Only *facts* are produced here
(structure, regex match bits, reference result events); every expected value
is computed by TLC from the specs."""
import re

UNIT_NAME = 'zope.testrunner.layer.UnitTests'
NO_LEVEL = -1000


def layer_real_name(l):
    # world convention: a layer whose key starts with 'zz_' lives in module
    # 'zzmod' (its dotted name sorts after the unit-test layer's)
    if l.startswith('zz_'):
        return 'zzmod.' + l
    if l.startswith('UnitTests'):
        # look-alike of the unit layer's name (matched by it as a regex)
        return 'zope_testrunner_layer.' + l
    return UNIT_NAME if l == '' else 'tests.' + l


def layer_abstract_name(real):
    if real == UNIT_NAME or real == '':
        return ''
    if real.startswith('tests.'):
        return real[len('tests.'):]
    if real.startswith('zzmod.'):
        return real[len('zzmod.'):]
    if real.startswith('zope_testrunner_layer.'):
        return real[len('zope_testrunner_layer.'):]
    return real


def effective_hooks(world):
    """life/per flags; class layers inherit hooks from their bases."""
    layers = world['layers']
    order = world.get('layer_order') or list(layers)
    own = {}
    for l in order:
        hooks = layers[l].get('hooks', ['setUp', 'tearDown', 'testSetUp',
                                        'testTearDown'])
        own[l] = set(hooks)
    eff = {}
    for l in order:
        e = set(own[l])
        if layers[l].get('kind', 'class') == 'class':
            for b in layers[l].get('bases', ()):
                e |= eff[b]
        eff[l] = e
    return eff


def test_name(world, tid):
    """str(test) of the TestCase as unittest spells it on 3.11+."""
    for c, cs in world['classes'].items():
        if tid in cs['tests']:
            m = world['tests'][tid].get('name', 'test_' + tid)
            p = world['tests'][tid].get('param')
            return '%s (tests.%s.%s)%s' % (m, c, m, '' if p is None else ' [%s]' % p)
    raise KeyError(tid)


def decoskip(world, tid):
    """Structural fact: unittest never calls this test method (decorated
    with unittest.skip, or its class is)."""
    if world['tests'][tid].get('deco') == 'skip':
        return True
    for c, cs in world['classes'].items():
        if tid in cs['tests'] and cs.get('cls_skip'):
            return True
    return False


def decl_paths(world):
    """For each test the declarations from the outermost suite to the test."""
    def d(node):
        return {'layer': node.get('layer') or '',
                'hasLevel': 'level' in node,
                'level': node.get('level', 0)}
    paths = {}
    order = []

    def leaf(tid, path):
        cname = next(c for c, cs in world['classes'].items()
                     if tid in cs['tests'])
        p = path + [d(world['classes'][cname]), d(world['tests'][tid])]
        paths[tid] = p
        order.append(tid)

    def walk(node, path):
        if 'test' in node:
            leaf(node['test'], path)
            return
        here = path + [d(node)]
        if 'cls' in node:
            for tid in world['classes'][node['cls']]['tests']:
                leaf(tid, here)
        for ch in node.get('children', ()):
            walk(ch, here)
    node = world.get('suite')
    if node is None:
        node = {'children': [{'cls': c} for c in world.get('classes', {})]}
    walk(node, [])
    return paths, order


def abstract_opts(o):
    """o: abstract option dict as produced by the generators (see
    concrete_args for the reverse direction)."""
    def pats(ps):
        return [{'neg': p.startswith('!')} for p in ps]
    return {
        # -D ends the run at the first failure or error, like -x
        'repeat': o.get('repeat', 1), 'stop': bool(o.get('stop') or o.get('pm')),
        'j': o.get('j', 1), 'list': bool(o.get('list')),
        'tpats': pats(o.get('t', ())), 'mpats': pats(o.get('m', ())),
        'lpats': pats(o.get('layer', ())),
        'unit': bool(o.get('unit')), 'nonUnit': bool(o.get('non_unit')),
        'onlyLevel': o.get('only_level', NO_LEVEL)
        if o.get('only_level') is not None else NO_LEVEL,
        'all': bool(o.get('all')), 'atLevel': o.get('at_level', 1),
        'buffer': bool(o.get('buffer')), 'verbose': o.get('verbose', 0),
        'shuffle': bool(o.get('shuffle')),
    }


def concrete_args(o):
    a = []
    v = o.get('verbose', 0)
    if v:
        a.append('-' + 'v' * v)
    if o.get('repeat', 1) != 1:
        a += ['--repeat', str(o['repeat'])]
    if o.get('stop'):
        a.append('-x')
    if o.get('j', 1) != 1:
        a += ['-j', str(o['j'])]
    if o.get('list'):
        a.append('--list-tests')
    for p in o.get('t', ()):
        a += ['-t', p]
    for p in o.get('m', ()):
        a += ['-m', p]
    for p in o.get('layer', ()):
        a += ['--layer', p]
    if o.get('unit'):
        a.append('-u')
    if o.get('non_unit'):
        a.append('-f')
    if o.get('only_level') is not None:
        a += ['--only-level', str(o['only_level'])]
    if o.get('all'):
        a.append('--all')
    if 'at_level' in o:
        a += ['--at-level', str(o['at_level'])]
    if o.get('buffer'):
        a.append('--buffer')
    if o.get('color'):
        a.append('-c')
    if o.get('progress'):
        a.append('-p')
    if o.get('pm'):
        a.append('-D')
    if o.get('shuffle'):
        a.append('--shuffle')
    if o.get('shuffle_seed') is not None:
        a += ['--shuffle-seed', str(o['shuffle_seed'])]
    if o.get('xml'):
        a += ['--xml', o['xml']]
    a += list(o.get('extra', ()))
    return a


def strip_neg(p):
    return p[1:] if p.startswith('!') else p


def abstract_world(world, o, ref):
    layers = list(world.get('layer_order') or world['layers'])
    eff = effective_hooks(world)
    paths, order = decl_paths(world)

    def mv(pats, name):
        return [bool(re.search(strip_neg(p), name)) for p in pats]
    w = {
        'layers': layers,
        'bases': {l: list(world['layers'][l].get('bases', ())) for l in layers},
        'life': {l: ('setUp' in eff[l] and 'tearDown' in eff[l]) for l in layers},
        'perUp': {l: 'testSetUp' in eff[l] for l in layers},
        'perDown': {l: 'testTearDown' in eff[l] for l in layers},
        'tests': order,
        'decl': paths,
        'tmatch': {t: mv(o.get('t', ()), test_name(world, t)) for t in order},
        'mmatch': {t: mv(o.get('m', ()), 'tests') for t in order},
        'lmatch': {l: mv(o.get('layer', ()), layer_real_name(l)) for l in layers},
        'umatch': mv(o.get('layer', ()), UNIT_NAME),
        'ref': {t: ref['ev'].get(t, []) for t in order},
        'startCalled': {t: bool(ref['started'].get(t)) for t in order},
        'decoSkip': {t: decoskip(world, t) for t in order},
        'importFails': world.get('import', 'ok') != 'ok'
        and not (isinstance(world.get('import'), dict)
                 and world['import'].get('only_child')),
    }
    # TLC cannot index an empty JSON object; keep a dummy key
    for k in ('bases', 'life', 'perUp', 'perDown', 'lmatch'):
        if not w[k]:
            w[k] = {'_': [] if k in ('bases', 'lmatch') else False}
    for k in ('decl', 'tmatch', 'mmatch', 'ref', 'startCalled', 'decoSkip'):
        if not w[k]:
            w[k] = {'_': []}
    return w


EV_MAP = {'LsetUpBegin': 'SUB', 'LsetUpEnd': 'SUE', 'LtearDownBegin': 'TDB',
          'LtearDownEnd': 'TDE', 'LtestSetUp': 'TSU', 'LtestTearDown': 'TTD',
          'T': 'T', 'ProcStart': 'PS', 'ProcExit': 'PX', 'Crash': 'CRASH',
          'Spawn': 'SP', 'ReportCut': 'CUT', 'Write': 'LOOK'}


def looks_like_header(tok):
    """Environment fact about a line of text: would the parent's report
    parser take it for the 'ran nfail nerr' header?"""
    try:
        a, b, c = map(int, tok.strip().split())
    except ValueError:
        return False
    return True


def abstract_events(events, life=None):
    """life: {layer: has both setUp and tearDown}; the set-up / tear-down
    events of a layer with only one of the two hooks are marked x (such a layer
    is unobservable for the stack discipline, like a hook-less one).
    Group by process (parent first, children by first event time), keep
    per-process order (seq), map to the uniform record TLC consumes."""
    by_pid = {}
    first = {}
    for e in events:
        if e['e'] not in EV_MAP:
            continue
        if e['e'] == 'Write' and not (
                e.get('via') == 'fd' and e.get('stream') == 'stderr'
                and e.get('nl') and looks_like_header(e.get('tok', ''))):
            continue
        by_pid.setdefault(e['pid'], []).append(e)
        first.setdefault(e['pid'], e['ns'])

    def role(pid):
        for e in by_pid[pid]:
            if e['e'] == 'ProcStart':
                return 0 if e.get('role') == 'parent' else 1
        return 1
    pids = sorted(by_pid, key=lambda p: (role(p), first[p]))
    # what a cut report lost, per process: only its final line end, or data
    lost = {}
    for pid in pids:
        lost[pid] = ''.join(e.get('lost', '?') for e in by_pid[pid] if e['e'] == 'ReportCut')
    out = []
    for pid in pids:
        evs = sorted(by_pid[pid], key=lambda e: e['seq'])
        for e in evs:
            k = EV_MAP[e['e']]
            rec = {'e': k, 'l': '', 't': '', 's': '', 'it': 0, 'x': False}
            if life is not None and k in ('SUB', 'SUE', 'TDB', 'TDE'):
                # a layer with only one of setUp / tearDown is unobservable
                # for the stack discipline (its faults still count)
                rec['x'] = not life.get(e['l'], True)
            if k == 'PS':
                rec['s'] = e.get('role', '')
                rec['l'] = layer_abstract_name(e.get('resume', ''))
            elif k in ('SUB', 'TDB', 'TSU', 'TTD'):
                rec['l'] = e['l']
            elif k in ('SUE', 'TDE'):
                rec['l'] = e['l']
                rec['s'] = e['s']
            elif k == 'SP':
                rec['l'] = layer_abstract_name(e.get('l', ''))
                rec['s'] = e.get('s', '')
            elif k == 'CUT':
                if any(x['e'] == 'CUT' for x in out[-8:]) and rec['e'] == 'CUT' and \
                        out and out[-1]['e'] == 'CUT':
                    continue            # one CUT event per process
                # only a line end was lost: the final one, if the process went
                # on (every later write would have been logged as lost too);
                # if it died there, the line end may be any line's (nothing
                # written before it: certainly not the report's last)
                if lost[pid] != '\n':
                    rec['s'] = 'data'
                elif not e.get('die'):
                    rec['s'] = 'eol'
                else:
                    rec['s'] = 'maybe' if e.get('at') else 'data'
            elif k == 'T':
                rec['t'] = e['t']
                rec['s'] = e['ph']
                rec['it'] = e.get('it', 0)
            out.append(rec)
    return out


def parse_listed(world, names):
    """Map the lines of a 'Tests with failures/errors' list back to what they
    name: test ids, failed layer hooks, subprocess errors, or unparseable."""
    by_name = {}
    if world is not None:
        for t in world['tests']:
            by_name[test_name(world, t)] = t
            # CPython < 3.11 spells str(test) as "name (module.Class)"
            for c, cs in world['classes'].items():
                if t in cs['tests']:
                    m = world['tests'][t].get('name', 'test_' + t)
                    p = world['tests'][t].get('param')
                    by_name.setdefault('%s (tests.%s)%s' % (m, c, '' if p is None else ' [%s]' % p), t)
    ids, layers, other = [], [], []
    for n in names:
        m = re.match(r'^Layer: (.+)\.(setUp|tearDown)$', n)
        if m:
            layers.append([layer_abstract_name(m.group(1)), m.group(2)])
            continue
        if n in by_name:
            ids.append(by_name[n])
            continue
        m = re.match(r'^(.*\)) [\[(].*[\])]$', n)
        if m and m.group(1) in by_name:
            ids.append(by_name[m.group(1)])
            continue
        other.append(n)
    return ids, layers, other


def abstract_report(res, cli=False, world=None):
    rep = res['report']
    if cli:
        crashed = ''
        if res.get('timed_out'):
            crashed = 'TIMEOUT'
        elif res['rc'] not in (0, 1):
            crashed = 'rc=%s' % res['rc']
        elif 'Traceback (most recent call last)' in res.get('stderr', ''):
            crashed = 'traceback-on-stderr'
        failed = res['rc'] != 0
    else:
        crashed = res.get('crashed', '')
        failed = bool(res.get('failed'))
    listing = []
    list_unknown = 0
    for lname, names in rep.get('listing', ()):
        ids, _lay, oth = parse_listed(world, names)
        listing.append([layer_abstract_name(lname), ids])
        list_unknown += len(oth)
    fids, flay, foth = parse_listed(world, rep['failures'])
    eids, elay, eoth = parse_listed(world, rep['errors'])
    return {
        'crashed': crashed, 'failed': failed,
        'hasSummary': bool(rep['summaries']) or rep['total'] is not None,
        'summaries': [[layer_abstract_name(s[0])] + s[1:]
                      for s in rep['summaries']],
        'hasTotal': rep['total'] is not None,
        'total': rep['total'] or [0, 0, 0, 0],
        'failures': rep['failures'], 'errors': rep['errors'],
        'hasFailList': rep['has_fail_list'], 'hasErrList': rep['has_err_list'],
        'layers': [layer_abstract_name(x) for x in rep['layers']],
        'failIds': fids, 'errIds': eids,
        'failLayers': flay, 'errLayers': elay,
        'failOther': len(foth), 'errOther': len(eoth),
        'subprocErrs': len([x for x in eoth if x.startswith('subprocess')]),
        'peers': [],
        'listing': listing, 'listUnknown': list_unknown,
        'hasListing': bool(rep.get('listing')),
    }
