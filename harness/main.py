"""Entry point of every registered check (DESIGN.md 9)."""
import argparse
import importlib
import os
import sys
import traceback

HERE = os.path.dirname(os.path.abspath(__file__))
VERIF = os.path.dirname(HERE)
sys.path.insert(0, HERE)
sys.path.insert(0, os.path.join(VERIF, 'checks'))

if len(sys.argv) > 1 and sys.argv[1].upper().startswith('X'):
    # extensions of the specification beyond the listed properties keep their
    # evidence apart from evidence/<property id>.json
    os.environ.setdefault('VERIF_EVIDENCE_DIR', os.path.join(VERIF, 'extra', 'evidence'))

import checklib  # noqa: E402
import runlib  # noqa: E402


def main():
    ap = argparse.ArgumentParser()
    ap.add_argument('prop')
    ap.add_argument('--tier', default=os.environ.get('VERIF_TIER', 'quick'))
    ap.add_argument('--replay')
    a = ap.parse_args()
    seed = int(os.environ.get('VERIF_SEED', '0') or 0)
    prop = a.prop.upper()
    mod = importlib.import_module(prop.lower())
    chk = checklib.Check(prop, a.tier, seed)
    chk.replaying = bool(a.replay)
    if not a.replay:
        # replay files of earlier runs are stale
        rdir = os.path.join(checklib.REPLAYS, prop)
        if os.path.isdir(rdir):
            for fn in os.listdir(rdir):
                if fn.endswith('.json'):
                    os.unlink(os.path.join(rdir, fn))
    try:
        mod.run(chk, a.tier, seed, replay=a.replay)
        rc = chk.finish()
    except Exception:
        traceback.print_exc()
        chk.machinery('exception in the check itself')
        try:
            chk.finish()
        except Exception:
            pass
        rc = 2
    finally:
        runlib.cleanup()
    sys.exit(rc)


if __name__ == '__main__':
    main()
