"""On-disk materialisation of a world: `--path <this dir>` + $VERIF_WORLD."""
import atexit
import os
import sys

import worldlib

_spec, _log = worldlib.load_world_from_env()
worldlib.ORIG['stdout'] = sys.stdout
worldlib.ORIG['stderr'] = sys.stderr
_role = 'child' if worldlib.is_child() else 'parent'
_rl = ''
if _role == 'child':
    _i = sys.argv.index('--resume-layer')
    _rl = sys.argv[_i + 1]
_log.emit('ProcStart', role=_role, resume=_rl)


def _at_exit():
    # lines written to fd 2 when the interpreter shuts down - in a layer
    # subprocess that is *after* its report (atexit handlers, helper
    # processes that inherited the descriptor, shutdown noise)
    _lines = list(_spec.get('env', {}).get('fd2_at_exit', ()))
    for _k, _line in enumerate(_lines):
        if _role == 'child':
            # fd2_at_exit_nonl: the very last line has no line end
            _end = '' if (_spec['env'].get('fd2_at_exit_nonl') and _k == len(_lines) - 1) else '\n'
            os.write(2, (_line + _end).encode('utf-8', 'surrogateescape'))
    _log.emit('ProcExit')


atexit.register(_at_exit)

_env = _spec.get('env', {})
if _env.get('import_random'):
    # a test module that draws random numbers while it is imported (test data)
    import random as _random
    _drawn = [_random.random() for _ in range(_env['import_random'])]

# C07: cut the child's report (written to the *original* stderr captured by
# SubProcess.global_setup after this import) at a byte offset / inject noise.
if _role == 'child' and ('stderr_cut' in _env or 'stderr_pre' in _env
                         or 'stderr_kill_after' in _env):
    class _CutStderr:
        def __init__(self, real):
            self._real = real
            self._n = 0
            self.encoding = getattr(real, 'encoding', 'utf-8')

        def write(self, s):
            cut = _env.get('stderr_cut')
            data = s.encode('utf-8', 'surrogateescape')
            if cut is None:
                os.write(2, data)
                return len(s)
            room = max(0, cut - self._n)
            self._n += len(data)
            if room:
                os.write(2, data[:room])
            if len(data) > room:
                # bytes of the report are being dropped: the report IS cut
                if self._cut_logged < 8:
                    self._cut_logged += 1
                    _log.emit('ReportCut', at=cut, die=bool(_env.get('die_at_cut')),
                              lost=data[room:][:60].decode('latin-1'))
                if _env.get('die_at_cut'):
                    worldlib.crash(_env['die_at_cut'])
            return len(s)

        _cut_logged = 0

        def flush(self):
            pass

        def fileno(self):
            return 2

        def __getattr__(self, k):
            return getattr(self._real, k)

    for _line in _env.get('stderr_pre', ()):
        os.write(2, _line.encode('utf-8', 'surrogateescape'))
    sys.stderr = _CutStderr(sys.stderr)

_imp = _spec.get('import', 'ok')
if isinstance(_imp, dict):
    if not (_imp.get('only_child') and _role != 'child') and \
            (not _imp.get('layer') or _imp.get('layer') == _rl):
        if 'crash' in _imp:
            _log.emit('Crash', how=_imp['crash'], where='import')
            worldlib.crash(_imp['crash'])
        if _imp.get('raise') == 'SystemExit':
            raise SystemExit(_imp.get('code'))
        if _imp.get('raise'):
            raise worldlib.EXC[_imp['raise']]('import failed')
elif _imp == 'raise':
    raise worldlib.WorldError('import failed')

_world = worldlib.World(_spec, _log, module_name=__name__)
globals().update(_world.ns)
_log.emit('Imported', module=__name__)
