"""Third home of world layers: a layer whose key starts with 'UnitTests' names
this module as its __module__: its dotted name (zope_testrunner_layer.UnitTestsX)
is matched by the unit layer's name read as a regular expression."""
import tests


def __getattr__(name):
    return getattr(tests, name)
