"""Second home of world layers: a layer whose key starts with 'zz_' names this
module as its __module__, so that its dotted name sorts after
zope.testrunner.layer.UnitTests; layer subprocesses resolve it here."""
import tests


def __getattr__(name):
    return getattr(tests, name)
