"""Generic *world* interpreter (DESIGN.md 3.2).

A world is a JSON document; this module turns it into layers, TestCase classes
and a suite tree whose every observable step writes one event line to the
event log (DESIGN.md 3.3).  Nothing here computes an expected result: the code
only *does* what the world says and *logs* what it did.

Used in two ways:
  * on disk:  tests.py (next to this file) builds the world named by
    $VERIF_WORLD at import time -> children spawned by the runner see it too;
  * in process: runlib builds it and passes ``found_suites`` to Runner.
"""
import io
import json
import os
import signal
import sys
import threading
import time
import unittest

try:
    import _thread
except ImportError:  # pragma: no cover
    _thread = None


# ---------------------------------------------------------------- event log

class EventLog:
    """Append-only NDJSON log; one os.write per event (O_APPEND => atomic)."""

    def __init__(self, path=None):
        self.path = path
        self.fd = None
        self.seq = 0
        self.lock = threading.Lock()
        self.mem = None
        if path is None:
            self.mem = []

    def emit(self, e, **kw):
        with self.lock:
            self.seq += 1
            rec = {'e': e, 'pid': os.getpid(), 'seq': self.seq,
                   'ns': time.monotonic_ns()}
            rec.update(kw)
            if self.mem is not None:
                self.mem.append(rec)
                return
            if self.fd is None:
                self.fd = os.open(self.path,
                                  os.O_WRONLY | os.O_APPEND | os.O_CREAT, 0o644)
            os.write(self.fd, (json.dumps(rec) + '\n').encode('utf-8'))


# process-wide facts the harness sets before the run (identity of the streams)
ORIG = {'stdout': None, 'stderr': None}


def is_child():
    return '--resume-layer' in sys.argv


def stream_state(which):
    cur = getattr(sys, which)
    if ORIG[which] is None:
        return 'unknown'
    return 'orig' if cur is ORIG[which] else 'other'


# ---------------------------------------------------------------- globals

def snapshot_globals():
    """Interpreter-global state the runner may touch (C18), as comparable
    strings keyed by the names used in spec/GlobalState.tla."""
    import gc
    import traceback as tb
    import warnings
    return {
        'gcThreshold': repr(gc.get_threshold()),
        'gcDebug': repr(gc.get_debug()),
        'tbFormat': 'id%d' % id(tb.format_exception),
        'tbPrint': 'id%d' % id(tb.print_exception),
        'sysTrace': repr(sys.gettrace()),
        'thrTrace': repr(getattr(threading, '_trace_hook', None)),
        'settraceFn': 'id%d' % id(sys.settrace),
        # CPython >= 3.12: cProfile registers as a sys.monitoring tool
        'sysProfile': repr((sys.getprofile(),
                            sys.monitoring.get_tool(sys.monitoring.PROFILER_ID)
                            if hasattr(sys, 'monitoring') else None)),
        'warnFilters': repr([repr(f) for f in warnings.filters]),
        'showwarning': 'id%d' % id(warnings.showwarning),
        'stdout': 'id%d' % id(sys.stdout),
        'stderr': 'id%d' % id(sys.stderr),
        # the debug flags once more, as the names of the bits that are set
        # (environment fact: the gc module's own constants)
        'gcDebugBits': gc_debug_bits(),
    }


GC_BITS = ('DEBUG_STATS', 'DEBUG_COLLECTABLE', 'DEBUG_UNCOLLECTABLE',
           'DEBUG_SAVEALL')


def gc_debug_bits(value=None):
    """C18: gc.get_debug() as the sorted names of the flags that are set
    (a lookup in the gc module's constants; bits without a name show up
    as 'bit<n>')."""
    import gc
    v = gc.get_debug() if value is None else value
    out = []
    for name in GC_BITS:
        bit = getattr(gc, name)
        if v & bit:
            out.append(name)
            v &= ~bit
    n = 0
    while v:
        if v & 1:
            out.append('bit%d' % n)
        v >>= 1
        n += 1
    return sorted(out)


class CycleNode:
    """C18 (--gc-after-test): an object that refers to itself, i.e. cyclic
    garbage once the test is over.  Whoever prints it gets the collector's
    debug flags of that moment logged (event GcRepr; `inwin`: it is printed
    by runner.repr_lines, i.e. by the cycle analysis of TestResult.stopTest
    under -vvvv --gc-after-test).  how: 'ok' | 'error' (repr raises an
    ordinary exception) | 'kbint' (the user hits Ctrl-C while the garbage is
    being printed)."""

    def __init__(self, log, tid, how):
        self.log, self.tid, self.how = log, tid, how
        self.me = self

    def __repr__(self):
        import gc
        names = set()
        f = sys._getframe(1)
        while f is not None:
            names.add(f.f_code.co_name)
            f = f.f_back
        self.log.emit('GcRepr', t=self.tid, debug=gc.get_debug(),
                      bits=gc_debug_bits(), inwin='repr_lines' in names,
                      how=self.how)
        if self.how == 'error':
            raise ValueError('scripted repr error ' + self.tid)
        if self.how == 'kbint':
            raise KeyboardInterrupt()
        return '<CycleNode %s>' % self.tid


# ---------------------------------------------------------------- exceptions

class WorldError(Exception):
    pass


class UnhashableError(Exception):
    """An exception that defines == and therefore is not hashable."""

    def __eq__(self, other):
        return isinstance(other, UnhashableError) and self.args == other.args

    __hash__ = None


class OddError(LookupError):
    """An Exception subclass with an awkward str()."""

    def __str__(self):
        return self.args[0] if self.args else ''


EXC = {
    'ValueError': ValueError, 'KeyError': KeyError, 'TypeError': TypeError,
    'RuntimeError': RuntimeError, 'OSError': OSError,
    'ZeroDivisionError': ZeroDivisionError, 'WorldError': WorldError,
    'OddError': OddError, 'UnhashableError': UnhashableError,
    'AttributeError': AttributeError,
    'StopIteration': StopIteration, 'SystemExit': SystemExit,
    'KeyboardInterrupt': KeyboardInterrupt, 'Exception': Exception,
    'NotImplementedError': NotImplementedError,
    'AssertionError': AssertionError, 'UnicodeError': UnicodeError,
    'SyntaxError': SyntaxError, 'IndentationError': IndentationError,
    'ImportError': ImportError, 'RecursionError': RecursionError,
    'BlockingIOError': BlockingIOError, 'EOFError': EOFError,
    'LookupError': LookupError, 'ArithmeticError': ArithmeticError,
}


def _compiled_syntax_error(msg):
    """a SyntaxError as the compiler raises it (file name, line, offset, text):
    format_exception_only prints a '  File "...", line N' line for it"""
    try:
        compile('def f(:\n    pass\n', '<generated: %s>' % msg[:20], 'exec')
    except SyntaxError as e:
        return e


EXC['CompiledSyntaxError'] = _compiled_syntax_error


def raise_chained(exc, msg, chain=None):
    """raise exc(msg), optionally with __cause__ / __context__ set"""
    if chain == 'cause':
        try:
            {}['inner']
        except KeyError as e:
            raise exc(msg) from e
    elif chain == 'context':
        try:
            {}['inner']
        except KeyError:
            raise exc(msg)
    elif chain == 'cause_self':
        e = exc(msg)
        raise e from e
    elif chain == 'cause_cycle':
        # replica raised from primary, primary raised from replica
        primary = exc(msg)
        try:
            raise KeyError('replica') from primary
        except KeyError as replica:
            raise primary from replica
    elif chain == 'cause_group':
        raise exc(msg) from ExceptionGroup('grp', [ValueError('a'), KeyError('b')])
    raise exc(msg)


def raise_in_frame(text, exc):
    """raise the exception object exc from a frame whose function name and
    file name ('<text>') contain `text`, so that the formatted traceback
    carries these characters (C17; actions 'fail' / 'error' with key 'tb')"""
    ns = {}
    exec(compile('def f(e):\n    raise e\n', '<verif-tb>', 'exec'), ns)
    ns['f'].__code__ = ns['f'].__code__.replace(
        co_name=text, co_filename='<%s>' % text)
    ns['f'](exc)


# ---------------------------------------------------------------- barriers

def _barrier_dir():
    return os.environ.get('VERIF_BARRIER_DIR', '')


def barrier_signal(name):
    d = _barrier_dir()
    if d:
        with open(os.path.join(d, name), 'w'):
            pass


def barrier_wait(name, timeout=120.0):
    d = _barrier_dir()
    if not d:
        return True
    p = os.path.join(d, name)
    t0 = time.monotonic()
    while not os.path.exists(p):
        if time.monotonic() - t0 > timeout:
            return False
        time.sleep(0.005)
    return True


# ---------------------------------------------------------------- crashing

def crash(how):
    try:
        sys.stdout.flush()
    except Exception:       # closed already (the child's report phase)
        pass
    if how == 'exit0':
        os._exit(0)
    elif how == 'exit3':
        os._exit(3)
    elif how == 'kill':
        os.kill(os.getpid(), signal.SIGKILL)
        time.sleep(60)
    elif how == 'segv':
        signal.signal(signal.SIGSEGV, signal.SIG_DFL)
        os.kill(os.getpid(), signal.SIGSEGV)
        time.sleep(60)
    elif how == 'sysexit':
        raise SystemExit(7)
    elif how == 'sysexit0':
        raise SystemExit(0)
    elif how == 'memerr':
        raise MemoryError('scripted')
    elif how == 'kbint':
        raise KeyboardInterrupt()
    raise WorldError('unknown crash kind %r' % (how,))


# ---------------------------------------------------------------- threads

class ThreadBook:
    """Threads started by scripted tests (or, ``test == ''``, while the world
    is being built: "at import time"), keyed by the world's thread name.

    Every thread blocks on its own command queue until it is told what to do
    to itself - become known to ``threading`` (``adopt``), take another name
    (``rename``) or end (``None``) - and acknowledges each command through an
    Event: no sleeps as synchronisation."""

    def __init__(self, log):
        self.log = log
        self.events = {}      # key -> queue of commands for the thread
        self.idents = {}
        self.threads = {}
        self.started = {}

    def start(self, test, key, api, tname, hook=False):
        # hook: started by a per-test layer hook after ``test`` was over
        import queue
        q = self.events[key] = queue.Queue()
        started = self.started[key] = threading.Event()

        names = {}

        def body():
            self.idents[key] = threading.get_ident()
            if api == '_thread_ct':
                # a low-level thread that touches threading: threading keeps a
                # _DummyThread for it that stays "alive" after it has ended
                names[key] = threading.current_thread().name
            started.set()
            while True:
                cmd = q.get()
                if cmd is None:
                    return
                kind, arg, res, done = cmd
                try:
                    if kind == 'adopt':
                        # what logging, a library callback ... do: ask
                        # threading who is running; a thread threading has
                        # never seen is registered as "Dummy-N" on the spot
                        res['name'] = threading.current_thread().name
                    elif kind == 'rename':
                        threading.current_thread().name = arg
                        res['name'] = threading.current_thread().name
                except BaseException as e:  # noqa -- reported by the caller
                    res['error'] = repr(e)
                done.set()

        if api in ('_thread', '_thread_ct'):
            _thread.start_new_thread(body, ())
        else:
            kw = {}
            if tname:
                kw['name'] = tname
            t = threading.Thread(target=body, daemon=True, **kw)
            self.threads[key] = t
            t.start()
        started.wait(30)
        name = ''
        if api == '_thread_ct':
            name = names.get(key, '')
        elif api != '_thread':
            name = self.threads[key].name
        else:
            name = 'Dummy-%s' % self.idents[key]
        self.log.emit('ThreadStart', t=test, thread=key,
                      ident=self.idents.get(key, 0), api=api, name=name,
                      hook=bool(hook))

    def _tell(self, key, kind, arg=None):
        """hand a command to the (blocked) thread and wait until it is done"""
        q = self.events.get(key)
        if q is None:
            return None
        res = {}
        done = threading.Event()
        q.put((kind, arg, res, done))
        if not done.wait(30):
            res['error'] = 'no answer from thread %s' % key
        return res

    def adopt(self, test, key):
        """a running low-level thread calls threading.current_thread()"""
        res = self._tell(key, 'adopt')
        if res is None:
            return
        self.log.emit('ThreadName', t=test, thread=key, how='adopt',
                      ident=self.idents.get(key, 0),
                      name=res.get('name', ''), error=res.get('error', ''))

    def rename(self, test, key, tname, by='self'):
        """a running thread known to threading gets another name: assigned
        by the test to the Thread object it holds, or by the thread itself"""
        t = self.threads.get(key)
        if by == 'test' and t is not None:
            t.name = tname
            res = {'name': t.name}
        else:
            res = self._tell(key, 'rename', tname)
            if res is None:
                return
        self.log.emit('ThreadName', t=test, thread=key, how='rename',
                      ident=self.idents.get(key, 0),
                      name=res.get('name', ''), error=res.get('error', ''))

    def release(self, test, key):
        q = self.events.get(key)
        if q is None:
            return
        q.put(None)
        ident = self.idents.get(key)
        t = self.threads.get(key)
        if t is not None:
            t.join(30)
        t0 = time.monotonic()
        while ident in sys._current_frames():
            if time.monotonic() - t0 > 30:
                break
            time.sleep(0.001)
        self.log.emit('ThreadEnd', t=test, thread=key, ident=ident or 0)

    def release_all(self):
        for key in list(self.events):
            self.events[key].put(None)

    def forget_ended(self):
        """hygiene between the jobs of one worker process: CPython <= 3.12
        keeps the object threading made up for an adopted low-level thread
        for ever, and a thread of the next job that is handed the same ident
        would be born under that old name"""
        active = getattr(threading, '_active', None)
        lock = getattr(threading, '_active_limbo_lock', None)
        if active is None or lock is None:  # pragma: no cover
            return
        running = set(sys._current_frames())
        mine = set(self.idents.values())
        with lock:
            for ident in list(active):
                if ident not in running and ident in mine:
                    del active[ident]


# ---------------------------------------------------------------- the world

class World:

    def __init__(self, spec, log, module_name='tests'):
        self.spec = spec
        self.log = log
        self.module_name = module_name
        self.layers = {}
        self.classes = {}
        self.tests = {}
        self.threads = ThreadBook(log)
        self.iter_count = {}
        self.own_stream = {}     # stream name -> the test's own object
        self.saved_stream = {}   # stream name -> what the test saved
        self.tampered = set()    # streams the test put a saved object back into
        self.ns = {}
        self._build_layers()
        self._build_classes()
        self.suite = self._build_suite(spec.get('suite'))
        self.ns['test_suite'] = lambda: self.suite
        # C19: threads that exist before the first test - started while the
        # world (the test module) is being built, i.e. at import time
        if not spec.get('ref_mode'):
            for a in spec.get('pre_threads', ()):
                self.threads.start('', a['name'], a.get('api', 'threading'),
                                   a.get('tname'))

    # -- layers

    def _hook(self, lname, hook):
        world = self
        lspec = self.spec['layers'][lname]

        def run(actual_name):
            behaviour = lspec.get(hook, 'ok')
            if hook in ('testSetUp', 'testTearDown'):
                world.log.emit('L' + hook, l=actual_name,
                               out=stream_state('stdout'),
                               err=stream_state('stderr'), s=behaviour)
                world._layer_writes(lspec, hook)
                if hook == 'testSetUp' and lspec.get('hook_threads'):
                    world._hook_threads(lspec)
                world._behave(behaviour, hook)
                return
            world.log.emit('L' + hook + 'Begin', l=actual_name,
                           out=stream_state('stdout'),
                           err=stream_state('stderr'))
            world._layer_writes(lspec, hook)
            try:
                world._behave(behaviour, hook)
            except NotImplementedError:
                world.log.emit('L' + hook + 'End', l=actual_name, s='notimpl')
                raise
            except BaseException:
                world.log.emit('L' + hook + 'End', l=actual_name, s='raise')
                raise
            world.log.emit('L' + hook + 'End', l=actual_name, s='ok')
        return run

    def _hook_threads(self, lspec):
        """C19: the layer's testSetUp starts scripted threads - each at the
        first call after the test named by 'after' was the last one to run
        ('': before the first test); startTest calls the hook before it
        looks which threads exist"""
        if self.spec.get('ref_mode'):
            return
        last = getattr(self, '_last_tid', '')
        for a in lspec['hook_threads']:
            if a.get('after', '') == last and a['name'] not in self.threads.events:
                self.threads.start(last, a['name'], a.get('api', 'threading'),
                                   a.get('tname'), hook=True)

    def _layer_writes(self, lspec, hook):
        for w in lspec.get('writes', {}).get(hook, ()):
            self._write(w)

    def _behave(self, behaviour, where):
        if behaviour == 'ok':
            return
        if isinstance(behaviour, dict) and 'exc' in behaviour:
            raise_chained(EXC[behaviour['exc']], 'layer %s raised' % where,
                          behaviour.get('chain'))
        if isinstance(behaviour, dict):
            if behaviour.get('only_child') and not is_child():
                return
            if 'crash' in behaviour:
                self.log.emit('Crash', how=behaviour['crash'], where=where)
                crash(behaviour['crash'])
            if 'barrier_wait' in behaviour:
                self.log.emit('Wait', t='', name=behaviour['barrier_wait'])
                barrier_wait(behaviour['barrier_wait'])
                return
            behaviour = behaviour.get('then', 'ok')
            if behaviour == 'ok':
                return
        if behaviour == 'raise':
            raise WorldError('layer %s failed' % where)
        if behaviour == 'notimpl':
            raise NotImplementedError
        if behaviour in EXC:
            raise EXC[behaviour]('layer %s raised' % where)
        raise WorldError('bad behaviour %r' % (behaviour,))

    def _build_layers(self):
        order = self.spec.get('layer_order') or list(self.spec['layers'])
        for lname in order:
            lspec = self.spec['layers'][lname]
            bases = tuple(self.layers[b] for b in lspec.get('bases', ()))
            hooks = lspec.get('hooks', ['setUp', 'tearDown', 'testSetUp',
                                        'testTearDown'])
            # (convention: 'zz_*' layers claim to live in module zzmod)
            lmod = ('zzmod' if lname.startswith('zz_') else
                    'zope_testrunner_layer' if lname.startswith('UnitTests') else self.module_name)
            if lspec.get('kind', 'class') == 'class':
                d = {'__module__': lmod}
                for h in hooks:
                    run = self._hook(lname, h)

                    def mk(run=run):
                        def hook(cls):
                            run(cls.__name__)
                        return classmethod(hook)
                    d[h] = mk()
                layer = type(lname, bases or (object,), d)
            else:
                layer = (_FalsyInstanceLayer if lspec.get('falsy') else _InstanceLayer)(
                    lspec.get('pyname', lname), bases, lmod)
                for h in hooks:
                    run = self._hook(lname, h)
                    setattr(layer, h, (lambda run=run, n=lname: run(n)))
            self.layers[lname] = layer
            self.ns[lname] = layer

    # -- tests

    def _build_classes(self):
        for cname, cspec in self.spec.get('classes', {}).items():
            d = {'__module__': self.module_name}
            if cspec.get('layer'):
                d['layer'] = self.layers[cspec['layer']]
            if 'level' in cspec:
                d['level'] = cspec['level']
            world = self

            def setUp(self_):
                world._phase(self_, 'setUp')

            def tearDown(self_):
                world._phase(self_, 'tearDown')

            d['setUp'] = setUp
            d['tearDown'] = tearDown
            if cspec.get('setUpClass'):
                def setUpClass(cls, how=cspec['setUpClass'], cname=cname):
                    world.log.emit('ClassFixture', c=cname, how=how)
                    if how == 'skip':
                        raise unittest.SkipTest('class fixture skips ' + cname)
                    if how == 'raise':
                        raise ValueError('class fixture of ' + cname)
                d['setUpClass'] = classmethod(setUpClass)

            # parametrised instances: several tests of one class and method
            # (equal for unittest, which compares class and method name) that
            # differ in a parameter shown by str() and id()
            def __str__(self_):
                base = unittest.TestCase.__str__(self_)
                p = getattr(self_, '_verif_param', None)
                return base if p is None else '%s [%s]' % (base, p)

            def id_(self_):
                base = unittest.TestCase.id(self_)
                p = getattr(self_, '_verif_param', None)
                return base if p is None else '%s[%s]' % (base, p)
            d['__str__'] = __str__
            d['id'] = id_
            for tid in cspec['tests']:
                tspec = self.spec['tests'][tid]
                mname = tspec.get('name', 'test_' + tid)
                fn = self._make_method(tid, tspec)
                fn.__name__ = mname if mname.isidentifier() else 'test_x'
                deco = tspec.get('deco')
                if deco == 'skip':
                    fn = unittest.skip('deco-skip ' + tid)(fn)
                elif deco == 'xfail':
                    fn = unittest.expectedFailure(fn)
                d[mname] = fn
            if cspec.get('cls_skip'):
                cls = unittest.skip('class-skip')(
                    type(cname, (unittest.TestCase,), d))
            else:
                cls = type(cname, (unittest.TestCase,), d)
            self.classes[cname] = cls
            self.ns[cname] = cls
            for tid in cspec['tests']:
                tspec = self.spec['tests'][tid]
                mname = tspec.get('name', 'test_' + tid)
                t = cls(mname)
                t._verif_id = tid
                if tspec.get('param') is not None:
                    t._verif_param = tspec['param']
                if tspec.get('layer'):
                    t.layer = self.layers[tspec['layer']]
                if 'level' in tspec:
                    t.level = tspec['level']
                self.tests[tid] = t

    def _build_doctests(self):
        """doctest cases (C17): world['doctests'][id] = {name, source}; they are
        appended to the default suite after the classes"""
        import doctest
        out = []
        for did, d in self.spec.get('doctests', {}).items():
            parser = doctest.DocTestParser()
            dt = parser.get_doctest(d['source'], {}, d['name'], '/nowhere/%s.txt' % did, 0)
            case = doctest.DocTestCase(dt, optionflags=doctest.ELLIPSIS)
            case._verif_id = did
            self.tests[did] = case
            out.append(case)
        return out

    def _make_method(self, tid, tspec):
        world = self

        def method(self_):
            for i, cl in enumerate(tspec.get('cleanups', ())):
                self_.addCleanup(world._cleanup, self_, i)
            world._phase(self_, 'body')
        return method

    def _cleanup(self, test, i):
        tid = test._verif_id
        tspec = self.spec['tests'][tid]
        self.log.emit('T', t=tid, ph='cleanup%d' % i,
                      it=self.iter_count.get(tid, 0),
                      out=stream_state('stdout'), err=stream_state('stderr'))
        self._actions(test, tspec['cleanups'][i])

    def _phase(self, test, phase):
        tid = test._verif_id
        tspec = self.spec['tests'][tid]
        self._last_tid = tid     # (C19: what a later layer hook started came after it)
        if phase == 'setUp':
            self.iter_count[tid] = self.iter_count.get(tid, 0) + 1
            self.own_stream.clear()
            self.saved_stream.clear()
            self.tampered.clear()
        self.log.emit('T', t=tid, ph=phase, it=self.iter_count.get(tid, 0),
                      out=stream_state('stdout'), err=stream_state('stderr'))
        self._actions(test, tspec.get(phase, ()))

    def _write(self, w, tid=''):
        stream = getattr(sys, w.get('stream', 'stdout'))
        tok = w['tok']
        text = tok + ('\n' if w.get('nl', True) else '')
        via = w.get('via', 'text')
        self.log.emit('Write', t=tid, stream=w.get('stream', 'stdout'), via=via,
                      tok=tok if len(tok) <= 200 else tok[:40] + '...(%d)' % len(tok),
                      nl=bool(w.get('nl', True)),
                      own=stream is self.own_stream.get(w.get('stream', 'stdout'), 0),
                      dc=w.get('stream', 'stdout') in self.tampered)
        if via == 'buffer' and getattr(stream, 'buffer', None) is None:
            via = 'text'         # a stream without a binary layer (StringIO)
        if via == 'buffer':
            try:
                stream.flush()   # keep the text layer's pending output in order
            except Exception:
                pass
            # rawhex: bytes that are not valid UTF-8 after the token
            stream.buffer.write(text.encode('utf-8') +
                                bytes.fromhex(w.get('rawhex', '')))
            try:
                stream.buffer.flush()
            except Exception:
                pass
        elif via == 'fd':
            os.write(2 if w.get('stream') == 'stderr' else 1,
                     tok.encode('utf-8') + bytes.fromhex(w.get('rawhex', '')) +
                     (b'\n' if w.get('nl', True) else b''))
        else:
            # no flush: a test does not flush its prints either, and a capture
            # stream that holds text back must not be helped along
            stream.write(text)

    def _actions(self, test, actions):
        tid = test._verif_id
        for a in actions:
            if isinstance(a, str):
                a = {'a': a}
            if a.get('only_child') and not is_child():
                continue
            if a.get('only_parent') and is_child():
                continue
            if a.get('only_iter') and self.iter_count.get(tid, 1) != a['only_iter']:
                # (--repeat: the test misbehaves in one iteration only)
                continue
            kind = a['a']
            if self.spec.get('ref_mode') and kind == 'write':
                # reference run: where the write sits relative to the result
                # events is a fact about unittest; nothing is written
                self.log.emit('Write', t=tid, stream=a.get('stream', 'stdout'),
                              via=a.get('via', 'text'), tok=a['tok'],
                              nl=bool(a.get('nl', True)),
                              own=False,
                              dc=a.get('stream', 'stdout') in self.tampered)
                continue
            if self.spec.get('ref_mode') and kind in (
                    'tstart', 'trelease', 'tadopt', 'trename', 'crash', 'signal',
                    'wait', 'sleep',
                    'snap', 'fiddle', 'kbint'):
                continue
            if kind == 'ok':
                continue
            elif kind in ('fail', 'error') and 'tb' in a:
                raise_in_frame(a['tb'], (
                    test.failureException if kind == 'fail' else
                    EXC[a.get('exc', 'ValueError')])(
                        a.get('msg', 'scripted %s %s' % (kind, tid))))
            elif kind == 'fail':
                test.fail(a.get('msg', 'scripted failure ' + tid))
            elif kind == 'error':
                raise_chained(EXC[a.get('exc', 'ValueError')],
                              a.get('msg', 'scripted error ' + tid),
                              a.get('chain'))
            elif kind == 'skip':
                test.skipTest(a.get('msg', 'scripted skip ' + tid))
            elif kind == 'sysexit':
                raise SystemExit(a.get('code', 5))
            elif kind == 'kbint':
                raise KeyboardInterrupt()
            elif kind == 'standin_stdout':
                # the test puts a minimal stand-in (write / writelines, no flush) in place of
                # sys.stdout for its own duration, a cleanup puts the stream back
                if not self.spec.get('ref_mode'):
                    class _WriteOnly:
                        def __init__(self, real):
                            self._real = real

                        def write(self, text):
                            return self._real.write(text)

                        def writelines(self, lines):
                            # (the colourising formatter writes its reports with writelines)
                            return self._real.writelines(lines)
                    saved = sys.stdout
                    sys.stdout = _WriteOnly(saved)
                    test.addCleanup(setattr, sys, 'stdout', saved)
            elif kind == 'mock_time':
                # the test patches the clock with a bare mock until its cleanups run
                if not self.spec.get('ref_mode'):
                    from unittest import mock
                    patcher = mock.patch('time.time')
                    patcher.start()
                    test.addCleanup(patcher.stop)
            elif kind == 'chdir':
                # the test changes the working directory and does not go back
                if not self.spec.get('ref_mode'):
                    import tempfile
                    os.chdir(tempfile.gettempdir())
            elif kind == 'write':
                self._write(a, tid)
            elif kind == 'snap':
                self.log.emit('Snap', t=tid, g=snapshot_globals())
            elif kind == 'fiddle':
                # the test changes warnings state for itself
                import warnings
                if a.get('what') == 'showwarning':
                    warnings.showwarning = lambda *a_, **k_: None
                else:
                    warnings.simplefilter('ignore', ResourceWarning)
            elif kind == 'cycle':
                # the test leaves cyclic garbage behind (C18, --gc-after-test)
                # (kept alive by the test instance, whose __dict__ the runner
                # clears in stopTest: garbage from then on, not earlier)
                if not self.spec.get('ref_mode'):
                    node = CycleNode(self.log, tid, a.get('repr', 'ok'))
                    setattr(test, '_verif_cycle_%d' % id(node), node)
                    self.log.emit('Cycle', t=tid, how=a.get('repr', 'ok'))
            elif kind == 'rmtree':
                # C18: a directory the run was given (--profile-directory)
                # disappears while the tests run
                if not self.spec.get('ref_mode'):
                    import shutil
                    shutil.rmtree(a['path'], ignore_errors=True)
                    self.log.emit('Rmtree', t=tid, path=a['path'])
            elif kind == 'nested':
                # C18: the test performs an in-process run itself
                if not self.spec.get('ref_mode'):
                    _nested_run(self.log, tid, a)
            elif kind == 'redirect':
                # the test replaces a std stream with an object of its own
                x = a.get('stream', 'stdout')
                if x not in self.saved_stream:
                    self.saved_stream[x] = getattr(sys, x)
                    self.own_stream[x] = io.StringIO()
                    if not self.spec.get('ref_mode'):
                        setattr(sys, x, self.own_stream[x])
                    self.log.emit('Redirect', t=tid, stream=x)
            elif kind == 'unredirect':
                x = a.get('stream', 'stdout')
                if x in self.saved_stream:
                    if not self.spec.get('ref_mode'):
                        setattr(sys, x, self.saved_stream[x])
                    del self.saved_stream[x]
                    del self.own_stream[x]
                    self.tampered.add(x)
                    self.log.emit('Unredirect', t=tid, stream=x)
            elif kind == 'subtest':
                with test.subTest(i=a.get('i', 0)):
                    self.log.emit('T', t=tid, ph='subtest%s' % a.get('i', 0),
                                  it=self.iter_count.get(tid, 0),
                                  out=stream_state('stdout'),
                                  err=stream_state('stderr'))
                    self._actions(test, a.get('do', ()))
            elif kind == 'tstart':
                self.threads.start(tid, a['name'], a.get('api', 'threading'),
                                   a.get('tname'))
            elif kind == 'trelease':
                self.threads.release(tid, a['name'])
            elif kind == 'tadopt':
                self.threads.adopt(tid, a['name'])
            elif kind == 'trename':
                self.threads.rename(tid, a['name'], a['tname'],
                                    a.get('by', 'self'))
            elif kind == 'crash':
                self.log.emit('Crash', how=a['how'], t=tid)
                crash(a['how'])
            elif kind == 'signal':
                barrier_signal(a['name'])
            elif kind == 'wait':
                self.log.emit('Wait', t=tid, name=a['name'])
                ok = barrier_wait(a['name'], a.get('timeout', 120.0))
                if not ok:
                    self.log.emit('BarrierTimeout', t=tid, name=a['name'])
            elif kind == 'sleep':
                time.sleep(a['s'])
            elif kind == 'stop':
                # ask the current result object to stop (used by C16 probes)
                pass
            else:
                raise WorldError('unknown action %r' % (a,))

    # -- suites

    def _build_suite(self, node):
        if node is None:
            # default: one suite per class, in class order
            node = {'children': [{'cls': c}
                                 for c in self.spec.get('classes', {})]}
        suite = self._suite(node)
        for case in self._build_doctests():
            suite.addTest(case)
        return suite

    def _suite(self, node):
        if 'test' in node:
            return self.tests[node['test']]
        suite = unittest.TestSuite()
        if 'cls' in node:
            for tid in self.spec['classes'][node['cls']]['tests']:
                suite.addTest(self.tests[tid])
        for ch in node.get('children', ()):
            suite.addTest(self._suite(ch))
        if node.get('layer'):
            suite.layer = self.layers[node['layer']]
        if 'level' in node:
            suite.level = node['level']
        return suite


class _InstanceLayer:

    def __init__(self, name, bases, module):
        self.__name__ = name
        self.__bases__ = bases
        self.__module__ = module

    def __repr__(self):
        return '<InstanceLayer %s>' % self.__name__


class _FalsyInstanceLayer(_InstanceLayer):
    """a layer object that is falsy (e.g. a container of resources that is
    still empty when the tests are discovered)"""

    def __len__(self):
        return 0


_NESTED_SRC = '''\
import unittest


class Inner(unittest.TestCase):

    def test_a(self):
        print('inner test_a')

    def test_b(self):
        print('inner test_b')
        if %(fail)r:
            self.fail('scripted inner failure')
'''


def _nested_run(log, tid, a):
    """C18: a test of the outer run calls zope.testrunner.run_internal on a
    tiny project of its own (a scratch directory, a tests pattern that only
    matches its one module).  a: {args: [...], warnings: str|None, fail: bool};
    events NestBegin / NestEnd carry the globals the inner run found / left."""
    import shutil
    import tempfile
    import zope.testrunner
    d = tempfile.mkdtemp(prefix='verif-nested-')
    name = 'vnestinner%d' % (abs(hash(d)) % 100000)
    try:
        with open(os.path.join(d, name + '.py'), 'w') as f:
            f.write(_NESTED_SRC % {'fail': bool(a.get('fail'))})
        args = ['zt', '--path', d, '--tests-pattern', '^%s$' % name] + \
            [x.replace('@NESTDIR@', d) for x in a.get('args', ())]
        log.emit('NestBegin', t=tid, g=snapshot_globals())
        how = ''
        try:
            failed = zope.testrunner.run_internal(
                [], args, cwd=d, warnings=a.get('warnings'))
        except BaseException as e:
            how = type(e).__name__
            log.emit('NestEnd', t=tid, raised=how, failed=True,
                     g=snapshot_globals())
            raise
        log.emit('NestEnd', t=tid, raised='', failed=bool(failed),
                 g=snapshot_globals())
    finally:
        sys.modules.pop(name, None)
        shutil.rmtree(d, ignore_errors=True)


def load_world_from_env():
    path = os.environ['VERIF_WORLD']
    with open(path) as f:
        spec = json.load(f)
    log = EventLog(os.environ.get('VERIF_LOG') or None)
    return spec, log
