"""Bootstrap for CLI runs of the real runner (DESIGN.md 3.1).

Kept in a neutral directory so that ``script_parts`` (what children are
spawned with) does not put zope/testrunner/ on sys.path.  Optionally
interposes on subprocess.Popen to record parent-side facts (Spawn / Reaped /
spawn failure) -- no hook inside zope.testrunner is needed for these.
"""
import json
import os
import sys
import threading
import time

_LOG = os.environ.get('VERIF_LOG')
_lock = threading.Lock()
_seq = [0]


def _emit(e, **kw):
    if not _LOG:
        return
    with _lock:
        _seq[0] += 1
        rec = {'e': e, 'pid': os.getpid(), 'seq': 1000000 + _seq[0],
               'ns': time.monotonic_ns()}
        rec.update(kw)
        fd = os.open(_LOG, os.O_WRONLY | os.O_APPEND | os.O_CREAT, 0o644)
        try:
            os.write(fd, (json.dumps(rec) + '\n').encode())
        finally:
            os.close(fd)


def _interpose():
    import subprocess
    real = subprocess.Popen
    fail_layers = set(json.loads(os.environ.get('VERIF_SPAWN_FAIL', '[]')))
    # which way the start fails (the operating system's reasons differ in
    # exception class: BlockingIOError, FileNotFoundError, PermissionError ...)
    import errno as _errno
    fail_errno = getattr(_errno, os.environ.get('VERIF_SPAWN_ERRNO', 'ENOMEM'))

    class Popen(real):
        def __init__(self, args, *a, **kw):
            layer = ''
            if isinstance(args, (list, tuple)) and '--resume-layer' in args:
                layer = args[list(args).index('--resume-layer') + 1]
            self._verif_layer = layer
            if layer and (layer in fail_layers or '*' in fail_layers):
                _emit('Spawn', l=layer, child=0, s='fail')
                raise OSError(fail_errno, os.strerror(fail_errno) + ' (scripted)')
            try:
                real.__init__(self, args, *a, **kw)
            except BaseException:
                if layer:
                    _emit('Spawn', l=layer, child=0, s='fail')
                raise
            if layer:
                _emit('Spawn', l=layer, child=self.pid, s='ok')

        def _verif_note(self):
            # the child has been reaped (returncode known) -- whichever of
            # wait / poll / communicate noticed it first
            if self._verif_layer and self.returncode is not None and \
                    not getattr(self, '_verif_reaped', False):
                self._verif_reaped = True
                _emit('Reaped', l=self._verif_layer, child=self.pid,
                      rc=self.returncode)

        def wait(self, *a, **kw):
            rc = real.wait(self, *a, **kw)
            self._verif_note()
            return rc

        def poll(self):
            rc = real.poll(self)
            self._verif_note()
            return rc

    subprocess.Popen = Popen


if os.environ.get('VERIF_INTERPOSE') and '--resume-layer' not in sys.argv:
    _interpose()

if __name__ == '__main__':
    import zope.testrunner
    _n = int(os.environ.get('VERIF_RUN_TIMES', '0') or 0)
    if _n > 1 and '--resume-layer' not in sys.argv:
        # several runs, one after the other, in this one process (what a run
        # leaves behind in the process - environment, module-level state,
        # imported test modules - is there for the next one); RunBoundary
        # events separate their traces
        _failed = False
        for _i in range(_n):
            _failed = zope.testrunner.run_internal([], list(sys.argv))
            _emit('RunBoundary', n=_i + 1)
        sys.exit(int(bool(_failed)))
    zope.testrunner.run()
