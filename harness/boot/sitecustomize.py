"""Namespace shim (see DESIGN.md 3.1).

The editable install's ``-nspkg.pth`` creates module ``zope`` with
``__path__ == ['/repo/src/zope']`` only, hiding ``site-packages/zope``
(zope.interface, zope.exceptions).  sitecustomize runs after .pth processing,
so we extend ``zope.__path__`` with every ``<sys.path entry>/zope`` directory.
Nothing in zope.testrunner is touched.
"""
import os
import sys

REPO_SRC = os.environ.get('VERIF_REPO_SRC', '/repo/src')


def _fix():
    if REPO_SRC not in sys.path:
        sys.path.insert(0, REPO_SRC)
    mod = sys.modules.get('zope')
    if mod is None:
        return
    path = list(getattr(mod, '__path__', []))
    want = [os.path.join(REPO_SRC, 'zope')]
    for entry in sys.path:
        cand = os.path.join(entry, 'zope')
        if os.path.isdir(cand):
            want.append(cand)
    for cand in want:
        if cand not in path:
            path.append(cand)
    # the working tree always wins
    path.sort(key=lambda p: 0 if p == os.path.join(REPO_SRC, 'zope') else 1)
    try:
        mod.__path__ = path
    except Exception:
        pass


def _cov():
    # tools/coverage_sweep.sh: line coverage of the code under test while the
    # checks run (never set by a registered check)
    rc = os.environ.get('VERIF_COV_RC')
    if rc:
        os.environ['COVERAGE_PROCESS_START'] = rc
        try:
            import coverage
            coverage.process_startup()
        except Exception:
            pass


_cov()
_fix()
