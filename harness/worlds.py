"""World generators (inputs only; no expected results)."""
import itertools
import json
import os
import random

OUTCOMES = {
    'pass': {},
    'fail': {'body': ['fail']},
    'error': {'body': [{'a': 'error'}]},
    'skip_deco': {'deco': 'skip'},
    'skip_setup': {'setUp': ['skip']},
    'skip_body': {'body': ['skip']},
    'xfail': {'deco': 'xfail', 'body': ['fail']},
    'uxsuccess': {'deco': 'xfail'},
    'subfail': {'body': [{'a': 'subtest', 'i': 0, 'do': ['fail']},
                         {'a': 'subtest', 'i': 1, 'do': ['ok']},
                         {'a': 'subtest', 'i': 2, 'do': [{'a': 'error'}]}]},
    # a skip raised inside a subTest: addSkip arrives mid-test, for the
    # _SubTest object, and the test goes on
    'subskip': {'body': [{'a': 'subtest', 'i': 0, 'do': ['skip']},
                         {'a': 'subtest', 'i': 1, 'do': ['ok']}]},
    'subskip_fail': {'body': [{'a': 'subtest', 'i': 0, 'do': ['skip']},
                              {'a': 'subtest', 'i': 1, 'do': ['fail']}]},
    'td_error': {'tearDown': [{'a': 'error'}]},
    'two_events': {'body': [{'a': 'error'}],
                   'tearDown': [{'a': 'error', 'exc': 'KeyError'}]},
    'cleanup_error': {'cleanups': [[{'a': 'error'}]]},
    'fail_cleanup': {'body': ['fail'], 'cleanups': [[{'a': 'error'}]]},
    'setup_error': {'setUp': [{'a': 'error'}]},
    'sysexit': {'body': ['sysexit']},
    'odd_exc': {'body': [{'a': 'error', 'exc': 'OddError', 'msg': ''}]},
}
SINGLE_EVENT_BAD = ['fail', 'error', 'uxsuccess', 'td_error', 'cleanup_error',
                    'setup_error', 'sysexit']
MULTI_EVENT = ['subfail', 'two_events', 'fail_cleanup', 'subskip_fail']
GOOD = ['pass', 'skip_deco', 'skip_setup', 'skip_body', 'xfail', 'subskip']


def load_graphs(path):
    with open(path) as f:
        return json.load(f)


def make_world(wid, graph, rng, *, kinds='class', hooks='all', faults=None,
               tests_per_layer=(1, 2), unit_tests=(0, 1), outcomes=('pass',),
               owners=None, names=None):
    """graph: {'n': n, 'bases': [[...]]} (1-based node numbers).
    kinds: 'class' | 'instance' | 'mixed';  hooks: 'all' | 'random';
    faults: dict layername -> {'setUp':..,'tearDown':..} or callable."""
    n = graph['n']
    names = names or ['L%d' % (i + 1) for i in range(n)]
    layers = {}
    order = []
    dummies = {}
    for i in range(n):
        lname = names[i]
        bases = [names[b - 1] for b in graph['bases'][i]]
        if kinds == 'mixed':
            # instance layers may sit on class layers, never the reverse
            kind = 'instance' if (rng.random() < 0.4 or any(
                layers[b]['kind'] == 'instance' for b in bases)) else 'class'
        else:
            kind = kinds
            if any(layers[b]['kind'] == 'instance' for b in bases):
                kind = 'instance'
        if kind == 'class':
            # Python refuses class graphs without a consistent MRO; such
            # graphs are only realisable with instance layers
            try:
                dummies[lname] = type(lname, tuple(dummies[b] for b in bases)
                                      or (object,), {})
            except TypeError:
                kind = 'instance'
        if hooks == 'all':
            hk = ['setUp', 'tearDown', 'testSetUp', 'testTearDown']
        else:
            hk = []
            r = rng.random()
            if r < 0.7:
                hk += ['setUp', 'tearDown']
            elif r < 0.78:
                hk += [rng.choice(['setUp', 'tearDown'])]
            r = rng.random()
            if r < 0.5:
                hk += ['testSetUp', 'testTearDown']
            elif r < 0.75:
                hk += [rng.choice(['testSetUp', 'testTearDown'])]
        spec = {'kind': kind, 'bases': bases, 'hooks': hk}
        if kind == 'instance' and rng.random() < 0.15:
            spec['falsy'] = True         # a layer object whose truth value is False
        if faults:
            f = faults(lname) if callable(faults) else faults.get(lname, {})
            spec.update(f)
        layers[lname] = spec
        order.append(lname)
    if owners is None:
        owners = [l for l in order if rng.random() < 0.7] or order[-1:]
    # two different layer objects may carry the same dotted name (instances
    # made by one factory); only for layers that own no tests - tests are
    # grouped by layer *name*
    # (same bases too: the twins are told apart by identity alone).  They are
    # made as two extra root layers under one instance layer that owns tests.
    hosts = [l for l in owners if layers[l]['kind'] == 'instance']
    if hosts and rng.random() < 0.12:
        host = rng.choice(hosts)
        for t in ('Lt1', 'Lt2'):
            layers[t] = {'kind': 'instance', 'bases': [], 'pyname': 'twin',
                         'hooks': ['setUp', 'tearDown', 'testSetUp', 'testTearDown']
                         if hooks == 'all' or rng.random() < 0.7 else ['testSetUp', 'testTearDown']}
            # (their hooks do not fail: a failure report could only name "twin")
        at = rng.randint(0, len(layers[host]['bases']))
        layers[host]['bases'] = layers[host]['bases'][:at] + ['Lt1', 'Lt2'] + layers[host]['bases'][at:]
        order = ['Lt1', 'Lt2'] + order
    classes = {}
    tests = {}
    k = 0
    for l in [''] + list(owners):
        lo, hi = unit_tests if l == '' else tests_per_layer
        cnt = rng.randint(lo, hi)
        if cnt == 0:
            continue
        cname = 'T%s' % (l or 'U')
        ids = []
        for _ in range(cnt):
            k += 1
            tid = 't%d' % k
            kind = rng.choice(list(outcomes))
            tests[tid] = dict(OUTCOMES[kind], kind=kind)
            ids.append(tid)
        classes[cname] = {'tests': ids}
        if l:
            classes[cname]['layer'] = l
    return {'id': wid, 'layers': layers, 'layer_order': order,
            'classes': classes, 'tests': tests}


def fault_vector(rng, p_su=0.12, p_td=0.12, p_ni=0.15):
    def f(lname):
        d = {}
        if rng.random() < p_su:
            # (NotImplementedError has a meaning for tearDown only: from a
            # setUp it is a failure like any other)
            d['setUp'] = 'raise' if rng.random() < 0.75 else 'notimpl'
        r = rng.random()
        if r < p_td:
            d['tearDown'] = 'raise'
        elif r < p_td + p_ni:
            d['tearDown'] = 'notimpl'
        return d
    return f


def permuted_names(rng, n):
    names = ['L%d' % (i + 1) for i in range(n)]
    rng.shuffle(names)
    return names


def dotted_names(rng, n):
    """layer names that differ only where one of them has a dot (a name used
    as a regular expression would confuse them)"""
    names = ['La.b', 'La_b', 'LaXb', 'La.b.c', 'L2', 'La-b'][:max(n, 2)]
    rng.shuffle(names)
    return names[:n]
