"""Parse the runner's text output into a Report record (DESIGN.md 3.3).

Pure observation: nothing here knows what the numbers *should* be.
"""
import re

RE_RUNNING = re.compile(r'^Running (.+) tests:$')
RE_SUMMARY = re.compile(
    r'^  Ran (\d+) tests with (\d+) failures, (\d+) errors(?: and|,) (\d+) skipped in ')
RE_TOTAL = re.compile(
    r'^Total: (\d+) tests, (\d+) failures, (\d+) errors(?: and|,) (\d+) skipped in ')
RE_SETUP = re.compile(r'^  Set up (\S+) ?(in |$)')
RE_TEARDOWN = re.compile(r'^  Tear down (\S+) ?(in |\.\.\. not supported|$)')
RE_LISTING = re.compile(r'^Listing (.+) tests:$')
RE_SEED = re.compile(r'^Tests were shuffled using seed number (-?\d+)\.$')
RE_ITER = re.compile(r'^Iteration (\d+)$')


RE_ANSI = re.compile(r'\x1b\[[0-9;]*m')


def parse(text):
    # --color output: the same lines with SGR sequences around the words
    text = RE_ANSI.sub('', text)
    lines = text.split('\n')
    rep = {
        'layers': [],          # per "Running" header, in order
        'summaries': [],       # every summary line in order: [layer, ran, f, e, s]
        'total': None,
        'failures': [], 'errors': [],
        'has_fail_list': False, 'has_err_list': False,
        'listing': [],         # [layer, [names]]
        'seed': None,
        'threads': [],         # [test line, thread repr line]
        'setups': [], 'teardowns': [],
        'leftover_banner': False,
        'import_problems': [],
        'comm_failures': 0,
    }
    cur = None
    mode = None
    i = 0
    n = len(lines)
    while i < n:
        ln = lines[i]
        m = RE_RUNNING.match(ln)
        if m:
            cur = m.group(1)
            rep['layers'].append(cur)
            mode = None
            i += 1
            continue
        m = RE_SUMMARY.match(ln)
        if m:
            rep['summaries'].append([cur or ''] + [int(x) for x in m.groups()])
            mode = None
            i += 1
            continue
        m = RE_TOTAL.match(ln)
        if m:
            rep['total'] = [int(x) for x in m.groups()]
            mode = None
            i += 1
            continue
        m = RE_LISTING.match(ln)
        if m:
            rep['listing'].append([m.group(1), []])
            mode = 'listing'
            i += 1
            continue
        m = RE_SEED.match(ln)
        if m:
            rep['seed'] = m.group(1)
            mode = None
            i += 1
            continue
        if ln == 'Tests with errors:':
            mode = 'errors'
            rep['has_err_list'] = True
            i += 1
            continue
        if ln == 'Tests with failures:':
            mode = 'failures'
            rep['has_fail_list'] = True
            i += 1
            continue
        if ln == 'Test-modules with import problems:':
            mode = 'import_problems'
            i += 1
            continue
        if ln == 'Tearing down left over layers:':
            rep['leftover_banner'] = True
            mode = None
            i += 1
            continue
        if ln.startswith('Could not communicate with subprocess'):
            rep['comm_failures'] += 1
        if ln.endswith('The following test left new threads behind:'):
            if i + 2 < n:
                rep['threads'].append([lines[i + 1], lines[i + 2]])
            i += 3
            continue
        m = RE_SETUP.match(ln)
        if m:
            rep['setups'].append(m.group(1))
        m = RE_TEARDOWN.match(ln)
        if m:
            rep['teardowns'].append(m.group(1))
        if mode in ('errors', 'failures'):
            if ln.startswith('   '):
                rep[mode].append(ln[3:])
                i += 1
                continue
            elif ln == '':
                i += 1
                continue
            mode = None
        elif mode == 'listing':
            if ln.startswith('  '):
                rep['listing'][-1][1].append(ln[2:])
                i += 1
                continue
            mode = None
        elif mode == 'import_problems':
            if ln.startswith('  '):
                rep['import_problems'].append(ln[2:])
                i += 1
                continue
            mode = None
        i += 1
    return rep
