"""TLC driver: model-check a config, validate trace batches, parse output."""
import os
import re
import shutil
import subprocess
import tempfile
import time

HERE = os.path.dirname(os.path.abspath(__file__))
SPEC_DIR = os.path.join(os.path.dirname(HERE), 'spec')
JAR = '/opt/veriftools/tla/tla2tools.jar'
DEPS = '/opt/veriftools/tla/CommunityModules-deps.jar'

RE_STATES = re.compile(
    r'^(\d+) states generated, (\d+) distinct states found, (\d+) states left')
RE_DEPTH = re.compile(r'The depth of the complete state graph search is (\d+)')
RE_COV = re.compile(r'^<(\w+) line (\d+), col \d+ to line \d+, col \d+ of module (\w+)>: (\d+):(\d+)')
RE_COV_INIT = re.compile(r'^<(\w+) line (\d+), col \d+ to line \d+, col \d+ of module (\w+)>: (\d+)$')


class TLCResult(dict):
    __getattr__ = dict.get


def run(module, cfg=None, workers=None, env=None, timeout=900,
        coverage=False, simulate=None, depth=None, seed=None, extra=(),
        jvm=(), deadlock=None, spec_dir=None):
    """Run TLC on spec/<module>.tla with spec/<cfg>.cfg.  A run that dies
    without a verdict (JVM could not start / was killed: memory pressure when
    many checks run at once) is repeated once."""
    res = _run(module, cfg, workers, env, timeout, coverage, simulate, depth,
               seed, extra, jvm, deadlock, spec_dir)
    if not res.ok and not res.violation and not res.timed_out and \
            'Parsing or semantic analysis failed' not in res.out and \
            'is equal to FALSE' not in res.out:
        time.sleep(5)
        res = _run(module, cfg, workers, env, timeout, coverage, simulate,
                   depth, seed, extra, jvm, deadlock, spec_dir)
    return res


def _run(module, cfg, workers, env, timeout, coverage, simulate, depth, seed,
         extra, jvm, deadlock, spec_dir):
    spec_dir = spec_dir or SPEC_DIR
    meta = tempfile.mkdtemp(prefix='verif-tlc-')
    # (TLC leaves an empty tlc-<n> directory in java.io.tmpdir on every run)
    cmd = ['java', '-XX:+UseParallelGC', '-Xmx6g', '-Xss64m', '-Djava.io.tmpdir=' + meta] + list(jvm) + [
        '-cp', JAR + ':' + DEPS, 'tlc2.TLC',
        '-metadir', meta, '-noGenerateSpecTE']
    if workers is None:
        workers = os.cpu_count() or 4
    cmd += ['-workers', str(workers)]
    if cfg:
        cmd += ['-config', cfg if cfg.endswith('.cfg') else cfg + '.cfg']
    if coverage:
        cmd += ['-coverage', '1']
    if simulate:
        cmd += ['-simulate', simulate]
    if depth:
        cmd += ['-depth', str(depth)]
    if seed is not None:
        cmd += ['-seed', str(seed)]
    if deadlock is False:
        cmd += ['-deadlock']
    cmd += list(extra)
    cmd += [module if module.endswith('.tla') else module + '.tla']
    e = dict(os.environ)
    e.pop('JAVA_TOOL_OPTIONS', None)
    if env:
        e.update({k: str(v) for k, v in env.items()})
    t0 = time.monotonic()
    timed_out = False
    try:
        p = subprocess.run(cmd, cwd=spec_dir, env=e, stdout=subprocess.PIPE,
                           stderr=subprocess.STDOUT, timeout=timeout)
        out = p.stdout.decode('utf-8', 'replace')
        rc = p.returncode
    except subprocess.TimeoutExpired as ex:
        timed_out = True
        out = (ex.stdout or b'').decode('utf-8', 'replace')
        rc = -999
        subprocess.run(['pkill', '-f', meta], check=False)
    finally:
        shutil.rmtree(meta, ignore_errors=True)
    wall = time.monotonic() - t0
    res = TLCResult(rc=rc, out=out, wall=wall, timed_out=timed_out,
                    generated=0, distinct=0, depth=0, coverage={},
                    cmd=' '.join(cmd[cmd.index('tlc2.TLC'):]))
    for line in out.splitlines():
        m = RE_STATES.match(line)
        if m:
            res['generated'] = int(m.group(1))
            res['distinct'] = int(m.group(2))
        m = RE_DEPTH.search(line)
        if m:
            res['depth'] = int(m.group(1))
        m = RE_COV.match(line)
        if m:
            key = m.group(1)
            d, t = int(m.group(4)), int(m.group(5))
            old = res['coverage'].get(key, (0, 0))
            res['coverage'][key] = (old[0] + d, old[1] + t)
    res['ok'] = (rc == 0 and not timed_out)
    res['violation'] = ('Error: Invariant' in out or 'is violated' in out
                        or 'Error: Deadlock' in out
                        or 'Temporal properties were violated' in out
                        or 'was violated' in out)
    return res


def printed_tuples(out, tag):
    """Extract PrintT(<<"tag", ...>>) lines robustly (bracket matching;
    16-worker output may interleave on a line boundary only)."""
    res = []
    needle = re.compile(r'<<\s*"%s"' % re.escape(tag))
    i = 0
    while True:
        m = needle.search(out, i)
        if not m:
            break
        j = m.start()
        depth = 0
        k = j
        in_str = False
        while k < len(out):
            c = out[k]
            if in_str:
                if c == '\\':
                    k += 1
                elif c == '"':
                    in_str = False
            elif c == '"':
                in_str = True
            elif out.startswith('<<', k):
                depth += 1
                k += 1
            elif out.startswith('>>', k):
                depth -= 1
                k += 1
                if depth == 0:
                    break
            k += 1
        res.append(parse_value(out[j:k + 1]))
        i = k + 1
    return res


def parse_value(s):
    """Parse a TLC-printed value: <<..>>, {..}, "str", ints, TRUE/FALSE,
    records [a |-> 1], functions (a :> 1 @@ b :> 2)."""
    v, pos = _pv(s, 0)
    return v


def _ws(s, i):
    while i < len(s) and s[i] in ' \n\r\t':
        i += 1
    return i


def _pv(s, i):
    i = _ws(s, i)
    if s.startswith('<<', i):
        i += 2
        items = []
        i = _ws(s, i)
        if s.startswith('>>', i):
            return items, i + 2
        while True:
            v, i = _pv(s, i)
            items.append(v)
            i = _ws(s, i)
            if s.startswith('>>', i):
                return items, i + 2
            assert s[i] == ',', (s[i:i + 20], s)
            i += 1
    if s[i] == '{':
        i += 1
        items = []
        i = _ws(s, i)
        if s[i] == '}':
            return set(), i + 1
        while True:
            v, i = _pv(s, i)
            items.append(_freeze(v))
            i = _ws(s, i)
            if s[i] == '}':
                return set(items), i + 1
            assert s[i] == ','
            i += 1
    if s[i] == '[':
        i += 1
        rec = {}
        while True:
            i = _ws(s, i)
            m = re.match(r'\w+', s[i:])
            key = m.group(0)
            i += len(key)
            i = _ws(s, i)
            assert s.startswith('|->', i)
            i += 3
            v, i = _pv(s, i)
            rec[key] = v
            i = _ws(s, i)
            if s[i] == ']':
                return rec, i + 1
            assert s[i] == ','
            i += 1
    if s[i] == '(':
        i += 1
        fn = {}
        while True:
            k, i = _pv(s, i)
            i = _ws(s, i)
            assert s.startswith(':>', i)
            i += 2
            v, i = _pv(s, i)
            fn[_freeze(k)] = v
            i = _ws(s, i)
            if s[i] == ')':
                return fn, i + 1
            assert s.startswith('@@', i)
            i += 2
    if s[i] == '"':
        j = i + 1
        buf = []
        while s[j] != '"':
            if s[j] == '\\':
                j += 1
                buf.append({'n': '\n', 't': '\t'}.get(s[j], s[j]))
            else:
                buf.append(s[j])
            j += 1
        return ''.join(buf), j + 1
    m = re.match(r'-?\d+', s[i:])
    if m:
        return int(m.group(0)), i + len(m.group(0))
    m = re.match(r'\w+', s[i:])
    if m:
        w = m.group(0)
        if w == 'TRUE':
            return True, i + 4
        if w == 'FALSE':
            return False, i + 5
        return w, i + len(w)
    raise ValueError('cannot parse TLC value at %r' % s[i:i + 40])


def _freeze(v):
    if isinstance(v, list):
        return tuple(_freeze(x) for x in v)
    if isinstance(v, set):
        return frozenset(_freeze(x) for x in v)
    if isinstance(v, dict):
        return tuple(sorted((k, _freeze(x)) for k, x in v.items()))
    return v


def sany(module, spec_dir=None):
    spec_dir = spec_dir or SPEC_DIR
    p = subprocess.run(['java', '-cp', JAR + ':' + DEPS, 'tla2sany.SANY',
                        module if module.endswith('.tla') else module + '.tla'],
                       cwd=spec_dir, stdout=subprocess.PIPE,
                       stderr=subprocess.STDOUT)
    out = p.stdout.decode('utf-8', 'replace')
    ok = p.returncode == 0 and 'Fatal' not in out and \
        '*** Errors' not in out and 'Parsing or semantic analysis failed' not in out
    return ok, out
