"""Namespace shim for the *other* CPython interpreters of the sandbox
(/root/.pyenv/versions/3.x): they have no zope packages of their own, so the
namespace package `zope` is assembled from the working tree and from the
pure-Python parts of /venv's site-packages (zope.interface falls back to its
Python implementation, zope.exceptions is pure Python).  Used for the
cross-version clauses of C11 / C05 only."""
import os
import sys
import types

REPO_SRC = os.environ.get('VERIF_REPO_SRC', '/repo/src')
SITE = os.environ.get('VERIF_ZOPE_SITE', '/venv/lib/python3.12/site-packages')
os.environ.setdefault('PURE_PYTHON', '1')

if REPO_SRC not in sys.path:
    sys.path.insert(0, REPO_SRC)
mod = types.ModuleType('zope')
mod.__path__ = [os.path.join(REPO_SRC, 'zope'), os.path.join(SITE, 'zope')]
sys.modules['zope'] = mod
try:
    import pkg_resources  # noqa: F401
except Exception:
    stub = types.ModuleType('pkg_resources')
    stub.declare_namespace = lambda name: None
    sys.modules['pkg_resources'] = stub
