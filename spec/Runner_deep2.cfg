SPECIFICATION Spec
CONSTANTS
  MaxN = 3
  MaxFaults = 1
  MaxTests = 2
  TestKinds = {"good","bad","skipdeco"}
  Repeats = {1,2}
  Stops = {TRUE,FALSE}
  Modes = {"seq","par"}
  HookModes = {"all"}
  Logging = FALSE
  Deviations = {}
CHECK_DEADLOCK FALSE
INVARIANT Refines
INVARIANT AllRun
INVARIANT StopHolds
INVARIANT FreshChildren
