CONSTANTS NT = 3 NTh = 3 NI = 3 ReuseIdents = FALSE Deviations = {"SnapshotFromPrevStop"} MaxOps = 3 Apis = {"threading", "lowlevel"}
          NPre = 1 Names = {1, 2, 3} IgnNames = {3} DummyIgn = {TRUE, FALSE} MaxX = 2
          KeepHist = TRUE RenameSame = FALSE NHook = 1
SPECIFICATION Spec
INVARIANT Precise
CHECK_DEADLOCK FALSE
