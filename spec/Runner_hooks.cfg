SPECIFICATION Spec
CONSTANTS
  MaxN = 2
  MaxFaults = 1
  MaxTests = 2
  TestKinds = {"good","bad","skipdeco"}
  Repeats = {1,2}
  Stops = {FALSE}
  Modes = {"seq","par"}
  HookModes = {"some"}
  Logging = FALSE
  Deviations = {}
CHECK_DEADLOCK FALSE
INVARIANT Refines
INVARIANT AllRun
INVARIANT StopHolds
INVARIANT FreshChildren
