CONSTANTS NTests = 2 Deviations = {"ProfilerOffAtDump"} PreChoices = {"none"}
CONSTANTS OptUniverse = {"gc", "coverage", "profile", "buffer", "x"}
CONSTANTS PreDebugChoices = {{}} GChoices = {{"DEBUG_UNCOLLECTABLE"}} V4Choices = {FALSE}
CONSTANTS NestChoices = {FALSE} InnerOptUniverse = {} InnerEndings = {} MaxNest = 0
SPECIFICATION Spec
INVARIANT Restored
INVARIANT HooksRestored
INVARIANT MidAsPredicted
CHECK_DEADLOCK FALSE
