CONSTANTS MaxArgs = 2 MaxDefs = 1 Dev = {"NoCancel"}
SPECIFICATION Spec
INVARIANT Clauses
INVARIANT UnitSwitches
INVARIANT LevelSwitches
CHECK_DEADLOCK FALSE
