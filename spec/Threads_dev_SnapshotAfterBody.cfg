CONSTANTS NT = 3 NTh = 3 NI = 3 ReuseIdents = FALSE Deviations = {"SnapshotAfterBody"} MaxOps = 3 Apis = {"threading", "lowlevel"}
SPECIFICATION Spec
INVARIANT Precise
CHECK_DEADLOCK FALSE
