SPECIFICATION Spec
CONSTANTS
  N = 3
  Orders = "canonical"
  Trivials = {TRUE, FALSE}
  WithNoEntry = FALSE
  Deviations = {}
PROPERTY Termination
CHECK_DEADLOCK FALSE
