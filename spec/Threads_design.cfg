CONSTANTS NT = 3 NTh = 3 NI = 3 ReuseIdents = FALSE Deviations = {} MaxOps = 3 Apis = {"threading", "lowlevel"}
          NPre = 1 Names = {1, 3} IgnNames = {3} DummyIgn = {TRUE, FALSE} MaxX = 2
          KeepHist = FALSE RenameSame = FALSE NHook = 0
SPECIFICATION Spec
INVARIANT Precise
CHECK_DEADLOCK FALSE
