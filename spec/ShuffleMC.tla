------------------------------ MODULE ShuffleMC ------------------------------
(* Exhaustive check of Shuffle.tla: NL layers with 0..MaxS tests each, every *)
(* random stream (each number one of R equally spaced values), every subset  *)
(* of layers kept by --layer / run in a child.                               *)
(*  - the loop, action by action (Step), ends in the functional result       *)
(*  - every layer's order is a permutation of its tests (never across)       *)
(*  - a layer's order depends only on its own tests and the stream from      *)
(*    StartPos on, and StartPos only on the sizes of the layers sorted       *)
(*    before it - so filtering *after* shuffling (what the code does, and    *)
(*    what a child does: same arguments, same discovery) cannot change it    *)
(*  - deviation "FilterFirst" (shuffle only the kept layers: a child that    *)
(*    restricts itself to its layer first, or Filter moved before Shuffle)   *)
(*    must give a counterexample                                             *)
EXTENDS Shuffle, TLC

CONSTANTS NL, MaxS, R, Deviations

Layers == [k \in 1..NL |-> k]
TestsOf(sizes) == [l \in 1..NL |-> [x \in 1..sizes[l] |-> <<l, x>>]]
Need(sizes) == StartPos(Layers, TestsOf(sizes), NL) + Consumed(sizes[NL]) - 1
Choice(r) == [n \in 1..MaxS |-> (r * n) \div R]     \* floor((r/R) * n)

VARIABLES sizes, keep, stream, li, i, arr, pos, res
vars == <<sizes, keep, stream, li, i, arr, pos, res>>

Init == /\ sizes \in [1..NL -> 0..MaxS]
        /\ keep \in (SUBSET (1..NL)) \ {{}}
        /\ stream = <<>>
        /\ li = 1 /\ pos = 1 /\ res = <<>>
        /\ arr = TestsOf(sizes)[1] /\ i = sizes[1] - 1

(* the environment produces the next random number when the loop needs it *)
Draw(r) == /\ li <= NL /\ i >= 1 /\ Len(stream) < pos
           /\ stream' = Append(stream, Choice(r))
           /\ UNCHANGED <<sizes, keep, li, i, arr, pos, res>>

(* one Fisher-Yates iteration *)
Step == /\ li <= NL /\ i >= 1 /\ Len(stream) >= pos
        /\ arr' = Swap(arr, i + 1, stream[pos][i + 1] + 1)
        /\ i' = i - 1 /\ pos' = pos + 1
        /\ UNCHANGED <<sizes, keep, stream, li, res>>

(* the layer is done: store it, go to the next layer in sorted order *)
NextLayer == /\ li <= NL /\ i < 1
             /\ res' = Append(res, arr)
             /\ li' = li + 1
             /\ IF li < NL THEN /\ arr' = TestsOf(sizes)[li + 1] /\ i' = sizes[li + 1] - 1
                ELSE /\ arr' = <<>> /\ i' = 0
             /\ UNCHANGED <<sizes, keep, stream, pos>>

Next == Step \/ NextLayer \/ \E r \in 0..(R - 1) : Draw(r)
Spec == Init /\ [][Next]_vars

Done == li > NL
T == TestsOf(sizes)
KeptSeq == SelectSeq(Layers, LAMBDA l : l \in keep)

LoopIsFunction == Done => \A l \in 1..NL : res[l] = ShuffleAll(Layers, T, stream)[l]
Permutation == Done => \A l \in 1..NL : IsPerm(res[l], T[l])
PositionRule == Done => \A l \in 1..NL :
                  res[l] = FY(T[l], stream, StartPos(Layers, T, l))[1]
AllConsumed == Done => pos = Need(sizes) + 1
(* what a filtered run / a child shows for a kept layer *)
FilteredView(l) == IF "FilterFirst" \in Deviations
                   THEN IF Need(sizes) = 0 THEN T[l]
                        ELSE ShuffleAll(KeptSeq, T, stream)[l]
                   ELSE ShuffleAll(Layers, T, stream)[l]
FilterIndependent == Done => \A l \in keep : FilteredView(l) = res[l]
=============================================================================
