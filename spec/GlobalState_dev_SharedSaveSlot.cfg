CONSTANTS NTests = 2 Deviations = {"SharedSaveSlot"} PreChoices = {"none"}
CONSTANTS OptUniverse = {"gc", "buffer", "warnings"}
CONSTANTS PreDebugChoices = {{}} GChoices = {{"DEBUG_UNCOLLECTABLE"}} V4Choices = {FALSE}
CONSTANTS NestChoices = {TRUE, FALSE} InnerOptUniverse = {"gc", "buffer"}
CONSTANTS InnerEndings = {"normal", "kbint"} MaxNest = 1
SPECIFICATION Spec
INVARIANT Restored
INVARIANT HooksRestored
INVARIANT MidAsPredicted
CHECK_DEADLOCK FALSE
