------------------------------ MODULE Progress ------------------------------
(* I-spec + P-spec of what OutputFormatter (formatter.py) writes to the       *)
(* terminal per test: dots / names at -v, and with --progress one line that   *)
(* is rewritten for every test.  Not one of the listed properties: this       *)
(* module extends the specification to the runner's text interface.           *)
(*                                                                            *)
(* One action per formatter method, in the order TestResult calls them:       *)
(*   StartTest -> (Success | Skipped | Bad) -> StopTest ... -> StopTests      *)
(* State of the code: last_width, test_width.  State of the world: a terminal *)
(* of W columns with deferred wrap (a character written in column W moves to  *)
(* a new line first), every cell tagged with the number of the test whose     *)
(* output put a visible character there (0 = blank).                          *)
(*                                                                            *)
(* The transition functions F* are pure (options record o = [v, p, w, dev],   *)
(* state record s = [lastW, testW, term, k]) so that Trace_Progress.tla can   *)
(* fold them over the calls recorded from the real formatter.                 *)
(*                                                                            *)
(* P-properties (what a user watching the terminal relies on):                *)
(*   NoResidue  once the entry of test k is on the line, nothing of an        *)
(*              earlier test is visible on that line                          *)
(*   NoWrapV1   at -v 0 / 1 the progress line never wraps (dots without        *)
(*              --progress simply fill the lines)                             *)
(*   CleanEnd   after the last test the cursor is at the start of a blank     *)
(*              line and no progress entry is left standing above it          *)
(*   Covers     (inductive reason) last_width covers everything visible       *)
EXTENDS Naturals, Sequences, FiniteSets

CONSTANTS W,          \* terminal width (formatter.max_width)
          VSet,       \* verbosities (0..3) to explore
          PSet,       \* --progress settings to explore
          N,          \* tests per layer
          Layers,     \* number of layers run one after the other (same formatter object)
          NameLens,   \* lengths of str(test)
          TimeLen,    \* length of format_seconds_short(...)
          SkipLen,    \* length of the skip reason
          GcCounts,   \* values of gccount passed to stop_test
          Deviations

(* "    %d/%d (%.1f%%)": 11 + digits(k) + digits(n) + digits of the integer   *)
(* part of the percentage (n <= 1000: no rounding up into another digit)      *)
Digits(x) == IF x < 10 THEN 1 ELSE IF x < 100 THEN 2 ELSE IF x < 1000 THEN 3 ELSE 4
ProgLen(k, n) == 11 + Digits(k) + Digits(n) + Digits((100 * k) \div n)

(* length of getShortDescription(test, room) for len(str(test)) = len         *)
(* (room >= 5: narrower terminals are outside the model)                      *)
ShortLen(len, room) == LET r == room - 1 IN 1 + (IF len > r THEN r ELSE len)

(* ----- the terminal: <<col, cells, wrapped>> on w columns ------------------*)
Blank(w) == [i \in 0..(w - 1) |-> 0]
Term0(w) == <<0, Blank(w), FALSE>>
(* write n visible characters (tag t) or n spaces (tag 0) *)
Put(w, term, n, t) ==
  LET c == term[1] IN
  IF n = 0 THEN term
  ELSE IF c + n <= w
  THEN <<c + n, [i \in 0..(w - 1) |-> IF i >= c /\ i < c + n THEN t ELSE term[2][i]], term[3]>>
  ELSE LET ov == c + n - w                     \* characters that go to later lines
           r == ov - w * ((ov - 1) \div w)     \* ... of which on the last one (1..w)
       IN <<r, [i \in 0..(w - 1) |-> IF i < r THEN t ELSE 0], TRUE>>
CR(term) == <<0, term[2], term[3]>>
NL(w, term) == <<0, Blank(w), term[3]>>
Erase(w, term, n) == CR(Put(w, CR(term), n, 0))
MaxVisible(w, term) ==
  IF term[2] = Blank(w) THEN 0
  ELSE 1 + CHOOSE i \in 0..(w - 1) : term[2][i] # 0 /\ \A j \in (i + 1)..(w - 1) : term[2][j] = 0

(* ----- the formatter: pure transition functions ----------------------------*)
Has(o, d) == d \in o.dev

(* start_test(test, tests_run = k1, total_tests = total), len = len(str(test)) *)
FStart(o, s, len, k1, total) ==
  LET t0 == IF o.p /\ s.lastW > 0 THEN Erase(o.w, s.term, s.lastW) ELSE s.term
      pl == ProgLen(k1, total)
      t1 == IF o.p THEN Put(o.w, t0, pl, k1) ELSE t0
      w1 == IF o.p THEN pl ELSE 0
      room == o.w - w1 - (IF Has(o, "RoomOffByOne") THEN 0 ELSE 1)
      d == ShortLen(len, room)
      t2 == IF o.p /\ o.v = 1 THEN Put(o.w, t1, d, k1)
            ELSE IF ~o.p /\ o.v = 1 THEN Put(o.w, t1, 1, k1)        \* a dot
            ELSE t1
      w2 == IF o.p /\ o.v = 1 /\ ~Has(o, "ForgetDescWidth") THEN w1 + d ELSE w1
      t3 == IF o.v > 1 THEN Put(o.w, Put(o.w, t2, 1, 0), len, k1) ELSE t2
      w3 == IF o.v > 1 THEN w2 + len + 1 ELSE w2
  IN [s EXCEPT !.term = t3, !.testW = w3, !.k = k1]

(* test_success: " (%s)" at -vvv; tl = length of the time string *)
FSuccess(o, s, tl) ==
  IF o.v > 2 THEN [s EXCEPT !.term = Put(o.w, s.term, tl + 3, s.k), !.testW = s.testW + tl + 3 + 1]
  ELSE s

(* test_skipped: " (skipped: %s)" / " (skipped)" *)
FSkipped(o, s, sl) ==
  LET n == IF o.v > 2 THEN sl + 12 ELSE IF o.v > 1 THEN 10 ELSE 0 IN
  IF n > 0 THEN [s EXCEPT !.term = Put(o.w, s.term, n, s.k), !.testW = s.testW + n + 1] ELSE s

(* test_error / test_failure: the traceback goes on below whatever is on the line *)
FBad(o, s, tl) ==
  [s EXCEPT !.term = NL(o.w, IF o.v > 2 THEN Put(o.w, s.term, tl + 3, s.k) ELSE s.term),
            !.testW = 0, !.lastW = 0]

(* stop_test(test, gccount): "!" / " [%d]" *)
FStop(o, s, gc) ==
  LET n == IF gc > 0 /\ o.v > 0 THEN (IF o.v = 1 THEN 1 ELSE 3 + Digits(gc)) ELSE 0
      t1 == Put(o.w, s.term, n, s.k)
      wd == s.testW + n
  IN [s EXCEPT !.testW = wd,
               !.lastW = IF o.p THEN wd ELSE s.lastW,
               !.term = IF ~o.p /\ o.v > 1 THEN NL(o.w, t1) ELSE t1]

(* stop_tests: <<line left behind (cells), next state>> *)
FStopTests(o, s) ==
  LET t1 == IF o.p /\ s.lastW > 0 /\ ~Has(o, "NoFinalErase") THEN Erase(o.w, s.term, s.lastW) ELSE s.term
      t2 == IF o.v = 1 \/ o.p THEN NL(o.w, t1) ELSE t1
  IN <<t1[2], [s EXCEPT !.term = t2]>>

(* ----- P-clauses on a state (shared with Trace_Progress) -------------------*)
NoResidueAt(o, s) == (o.p /\ ~s.term[3]) => \A i \in 0..(o.w - 1) : s.term[2][i] \in {0, s.k}
CoversAt(o, s) == (o.p /\ ~s.term[3]) => s.lastW >= MaxVisible(o.w, s.term)

(* ----- the machine ---------------------------------------------------------*)
VARIABLES v, p,      \* options.verbose, options.progress (fixed during a run)
          st,        \* [lastW, testW, term, k]
          layer, phase,
          dirtyEnd   \* history: stop_tests left a progress entry standing on the line above

vars == <<v, p, st, layer, phase, dirtyEnd>>
O == [v |-> v, p |-> p, w |-> W, dev |-> Deviations]

Init ==
  /\ v \in VSet /\ p \in PSet
  /\ st = [lastW |-> 0, testW |-> 0, term |-> Term0(W), k |-> 0]
  /\ layer = 1 /\ phase = "idle" /\ dirtyEnd = FALSE

StartTest(len) ==
  /\ phase \in {"idle", "stopped"} /\ st.k < N
  /\ st' = FStart(O, [st EXCEPT !.testW = 0], len, st.k + 1, N)
  /\ phase' = "started"
  /\ UNCHANGED <<layer, dirtyEnd>>

Success == phase = "started" /\ st' = FSuccess(O, st, TimeLen) /\ phase' = "reported" /\ UNCHANGED <<layer, dirtyEnd>>
Skipped == phase = "started" /\ st' = FSkipped(O, st, SkipLen) /\ phase' = "reported" /\ UNCHANGED <<layer, dirtyEnd>>
Bad == phase = "started" /\ st' = FBad(O, st, TimeLen) /\ phase' = "reported" /\ UNCHANGED <<layer, dirtyEnd>>

StopTest(gc) ==
  /\ phase = "reported" /\ st' = FStop(O, st, gc) /\ phase' = "stopped" /\ UNCHANGED <<layer, dirtyEnd>>

StopTests ==
  /\ phase \in {"stopped", "idle"}
  /\ LET r == FStopTests(O, st) IN
       /\ st' = r[2]
       /\ dirtyEnd' = (dirtyEnd \/ (p /\ r[1] # Blank(W)))
  /\ phase' = "done"
  /\ UNCHANGED layer

(* "  Ran n tests ...", tear-down and set-up lines: complete lines *)
NextLayer ==
  /\ phase = "done" /\ layer < Layers
  /\ layer' = layer + 1 /\ phase' = "idle"
  /\ st' = [st EXCEPT !.k = 0, !.term = NL(W, Put(W, st.term, 5, N + 1))]
  /\ UNCHANGED dirtyEnd

Finish == phase = "done" /\ layer = Layers /\ UNCHANGED <<st, layer, phase, dirtyEnd>>

Step ==
  \/ \E len \in NameLens : StartTest(len)
  \/ Success \/ Skipped \/ Bad
  \/ \E gc \in GcCounts : StopTest(gc)
  \/ StopTests \/ NextLayer \/ Finish

Next == Step /\ UNCHANGED <<v, p>>

Spec == Init /\ [][Next]_vars /\ WF_vars(Next)

(* ----- properties ----------------------------------------------------------*)
TypeOK ==
  /\ st.lastW \in Nat /\ st.testW \in Nat /\ st.term[1] \in 0..W /\ st.k \in 0..N
  /\ phase \in {"idle", "started", "reported", "stopped", "done"}

NoResidue == phase = "started" => NoResidueAt(O, st)
NoWrapV1 == (p /\ v <= 1) => ~st.term[3]
CleanEnd == /\ (phase = "done" /\ (v = 1 \/ p)) => (st.term[1] = 0 /\ st.term[2] = Blank(W))
            /\ ~st.term[3] => ~dirtyEnd
Covers == phase = "stopped" => CoversAt(O, st)
Term1 == <>(phase = "done" /\ layer = Layers)
=============================================================================
