------------------------------- MODULE Shuffle -------------------------------
(* C11: --shuffle is a seed-determined permutation inside each layer.        *)
(*                                                                           *)
(* Shuffle.global_setup (shuffle.py): the layers are visited in sorted-name  *)
(* order; each layer's test list is permuted by an explicit Fisher-Yates     *)
(* loop  for i = n-1 downto 1: j = floor(rng.random() * (i+1)); swap(i, j).  *)
(* The random stream enters as the *choice table*  c[p][n] = floor(r_p * n), *)
(* the index the p-th random number selects out of n candidates (an exact    *)
(* integer fact about the float stream; TLA+ never sees a float).            *)
(* Indices are 1-based here: position i of the code is i+1.                  *)
EXTENDS Naturals, Sequences, FiniteSets, SequencesExt

Swap(s, a, b) == [s EXCEPT ![a] = s[b], ![b] = s[a]]

(* Fisher-Yates on seq s with choices taken from position p on.              *)
(* Returns <<result, next position>>.                                        *)
RECURSIVE FYLoop(_, _, _, _)
FYLoop(s, i, c, p) ==        \* i = code's i (n-1 downto 1), 0-based
  IF i < 1 THEN <<s, p>>
  ELSE LET j == c[p][i + 1]            \* floor(r_p * (i+1)), 0-based
       IN FYLoop(Swap(s, i + 1, j + 1), i - 1, c, p + 1)
FY(s, c, p) == FYLoop(s, Len(s) - 1, c, p)

(* all layers, in sorted order: layers = sequence of layer keys,             *)
(* tests[l] = discovered order.  Returns [l |-> shuffled order].             *)
RECURSIVE ShuffleFrom(_, _, _, _, _)
ShuffleFrom(layers, tests, c, k, p) ==
  IF k > Len(layers) THEN <<>>
  ELSE LET r == FY(tests[layers[k]], c, p)
       IN <<r[1]>> \o ShuffleFrom(layers, tests, c, k + 1, r[2])
ShuffleAll(layers, tests, c) ==
  LET rs == ShuffleFrom(layers, tests, c, 1, 1)
  IN [l \in ToSet(layers) |-> rs[CHOOSE k \in 1..Len(layers) : layers[k] = l]]

(* stream positions a layer list consumes *)
Consumed(n) == IF n >= 1 THEN n - 1 ELSE 0
RECURSIVE StartPos(_, _, _)
StartPos(layers, tests, k) ==
  IF k = 1 THEN 1 ELSE StartPos(layers, tests, k - 1) + Consumed(Len(tests[layers[k - 1]]))

IsPerm(a, b) == /\ Len(a) = Len(b) /\ ToSet(a) = ToSet(b)
                /\ \A x, y \in 1..Len(a) : x # y => a[x] # a[y]
=============================================================================
