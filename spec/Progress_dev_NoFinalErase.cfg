CONSTANTS
  W = 24
  VSet = {0, 1, 2, 3}
  PSet = {TRUE, FALSE}
  N = 3
  Layers = 2
  NameLens = {3, 12}
  TimeLen = 7
  SkipLen = 4
  GcCounts = {0, 1}
  Deviations = {"NoFinalErase"}
SPECIFICATION Spec
INVARIANT TypeOK
INVARIANT NoResidue
INVARIANT NoWrapV1
INVARIANT CleanEnd
INVARIANT Covers
