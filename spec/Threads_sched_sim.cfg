CONSTANTS NT = 3 NTh = 3 NI = 3 ReuseIdents = FALSE Deviations = {} MaxOps = 3 Apis = {"threading", "lowlevel"}
          NPre = 1 Names = {1, 3} IgnNames = {3} DummyIgn = {FALSE} MaxX = 2
          KeepHist = TRUE RenameSame = TRUE NHook = 1
SPECIFICATION Spec
INVARIANT Schedule
CHECK_DEADLOCK FALSE
