----------------------------- MODULE GlobalState -----------------------------
(* C18: interpreter-global state changed for a run is restored afterwards.   *)
(*                                                                           *)
(* I-spec of Runner.run (runner.py) and the features that touch globals:     *)
(*   with catch_warnings():             WarnEnter / WarnExit                 *)
(*     for f in features: f.global_setup()       GSetup(i)                   *)
(*     for f in features: f.late_setup()         LSetup(i)                   *)
(*     try:   run_tests()               the test phase, per test             *)
(*              TestResult.startTest  = layer testSetUp hooks, arm --buffer  *)
(*              body                    (may raise KeyboardInterrupt, may    *)
(*                                       fiddle with warnings filters)       *)
(*              TestResult.stopTest   = restore streams, testTearDown hooks  *)
(*     finally: for f in reversed: f.early_teardown()    ETeardown(i)        *)
(*              for f in reversed: f.global_teardown()   GTeardown(i)        *)
(*     reports                                                               *)
(* Globals (all but the gc debug flags, see below) take abstract values:     *)
(* "init" (what the caller had), "runner"                                    *)
(* (installed by a feature), "test" (changed by a test), "none" (the         *)
(* interpreter default, e.g. no trace function).                             *)
(* Features, in configure() order: Coverage, Profiling, Threshold, Debug,    *)
(* Traceback (always active).                                                *)
(* The collector's debug flags are a SET OF BITS (value equality before /    *)
(* after is the clause; "changed / unchanged" cannot tell a flag the caller  *)
(* had on from one the run switched on): the caller's flags PreDebug, the    *)
(* flags named with -G (GBits), and DEBUG_SAVEALL, which stopTest switches   *)
(* on around its cycle analysis under --gc-after-test at verbosity >= 4.     *)
EXTENDS Naturals, Sequences, FiniteSets, TLC

CONSTANTS NTests, Deviations, PreChoices,
          OptUniverse,       \* the options this configuration enumerates
          PreDebugChoices,   \* the caller's gc debug flags (sets of bits)
          GChoices,          \* what -G may name (non-empty sets of bits)
          V4Choices,         \* with --gc-after-test: verbosity >= 4 or not
          NestChoices,       \* may the first test perform an in-process run itself
          InnerOptUniverse,  \* the options such a nested run may be given
          InnerEndings,      \* how its test phase may end
          MaxNest            \* how many runs may be open inside the outermost one

AllOpts == {"gc", "G", "A", "coverage", "profile", "buffer", "warnings", "D", "x"}
Bits == {"DEBUG_STATS", "DEBUG_UNCOLLECTABLE", "DEBUG_SAVEALL"}
SaveAll == "DEBUG_SAVEALL"
ASSUME /\ OptUniverse \subseteq AllOpts
       /\ PreDebugChoices \subseteq SUBSET Bits
       /\ GChoices \subseteq (SUBSET Bits) \ {{}}
       /\ V4Choices \subseteq BOOLEAN
       /\ NestChoices \subseteq BOOLEAN /\ InnerOptUniverse \subseteq AllOpts
       /\ MaxNest \in Nat

(* NESTED RUNS.  A test may call zope.testrunner.run_internal itself (the     *)
(* runner's own suite does; so does any project testing tooling built on it):  *)
(* inside the body of a test of one run the whole pipeline runs again, with     *)
(* options of its own, finding the globals as the enclosing run has them and    *)
(* obliged to put back what IT found.  The variables below describe the run    *)
(* that is executing now; the enclosing runs wait in `stack` (NestPush /        *)
(* NestPop).  The P-clause is per run: g = g0 (what that run found) once it is   *)
(* over; for the outermost run g0 = G0, the caller's state.                     *)
VARIABLES Opts,        \* the option subset of the current run
          PreHooks,    \* which trace / profile functions the caller had installed
          PreDebug,    \* the gc debug flags the caller had on
          GBits,       \* the flags named with -G ({} without -G)
          v4,          \* "A" (--gc-after-test) given together with -vvvv
          g0,          \* the globals as the current run found them
          stack,       \* the enclosing runs (records of their pipeline state)
          nest         \* the first test of a run performs a run itself

Globals == {"gcThreshold", "gcDebug", "tbFormat", "tbPrint", "sysTrace",
            "thrTrace", "settraceFn", "sysProfile", "warnFilters",
            "showwarning", "stdout", "stderr"}

AllFeatures == <<"Coverage", "Profiling", "Threshold", "Debug", "Traceback">>
Active(f) == CASE f = "Coverage" -> "coverage" \in Opts
               [] f = "Profiling" -> "profile" \in Opts
               [] f = "Threshold" -> "gc" \in Opts
               [] f = "Debug" -> "G" \in Opts
               [] OTHER -> TRUE
Features == SelectSeq(AllFeatures, Active)
NF == Len(Features)

(* what the caller had before the run *)
(* PreHooks: "none" | "both" (sys.settrace and threading.settrace, two         *)
(* different functions) | "sys" (only sys.settrace, e.g. a debugger)           *)
G0 == [x \in Globals |->
         CASE x = "sysTrace" -> IF PreHooks = "none" THEN "none" ELSE "callerS"
           [] x = "thrTrace" -> IF PreHooks = "both" THEN "callerT" ELSE "none"
           [] x = "sysProfile" -> IF PreHooks = "none" THEN "none" ELSE "callerP"
           [] x = "gcDebug" -> PreDebug
           [] OTHER -> "init"]

(* endings of the test phase *)
(* "redirKbint": the last test replaces sys.stdout with an object of its own in *)
(* setUp (to put it back in tearDown) and is interrupted before tearDown runs  *)
(* "gcWinKbint": KeyboardInterrupt inside stopTest's cycle analysis of the last  *)
(* test (only with --gc-after-test at verbosity >= 4; otherwise there is no     *)
(* such place)                                                                 *)
(* "profDirGone": the --profile-directory is removed while the tests run (by a   *)
(* test, a layer tearDown): the profile cannot be written, Profiling's          *)
(* global_teardown raises OSError and the run is aborted from its finally clause *)
Endings == {"normal", "failing", "hookUp", "hookDown", "kbint", "stop", "postmortem", "redirKbint",
            "gcWinKbint", "profDirGone"}
OkCombo(o, e) == /\ ("stop" = e <=> "x" \in o) /\ ("postmortem" = e => "D" \in o)
                 /\ ("profDirGone" = e => "profile" \in o)

VARIABLES g, saved, pc, idx, t, ending, exc, began, warnSaved,
          gcSaved      \* stopTest's local gc_opts
vars == <<g, saved, pc, idx, t, ending, exc, began, warnSaved, gcSaved,
          Opts, PreHooks, PreDebug, GBits, v4, g0, stack, nest>>
(* what a run installs (the objects of a nested run are its own: its buffer,   *)
(* its tracer, its thresholds; the traceback functions are the same module     *)
(* functions at every level)                                                   *)
Mine == IF stack = <<>> THEN "runner" ELSE "inner"
FreshSaved == [x \in Globals |-> IF x = "gcDebug" THEN {} ELSE "none"]
TbSlot == {"tbFormat", "tbPrint"}

(* -x changes nothing but how the loop is left, so it is enumerated together   *)
(* with the ending it causes                                                   *)
Init == /\ Opts \in SUBSET OptUniverse /\ PreHooks \in PreChoices
        /\ PreDebug \in PreDebugChoices
        /\ GBits \in (IF "G" \in Opts THEN GChoices ELSE {{}})
        /\ v4 \in (IF "A" \in Opts THEN V4Choices ELSE {FALSE})
        /\ g = G0 /\ g0 = G0 /\ stack = <<>> /\ nest \in NestChoices
        /\ saved = FreshSaved
        /\ pc = "enter" /\ idx = 0 /\ t = 0
        /\ ending \in Endings
        /\ OkCombo(Opts, ending)
        /\ ("gcWinKbint" = ending => "A" \in Opts /\ v4)
        /\ exc = "none" /\ began = FALSE
        /\ warnSaved = <<"none", "none">>
        /\ gcSaved = {}

Set(gg, xs, v) == [x \in Globals |-> IF x \in xs THEN v ELSE gg[x]]

(* ---- warnings.catch_warnings around the whole run ----------------------- *)
WarnEnter ==
  /\ pc = "enter"
  /\ warnSaved' = <<g["warnFilters"], g["showwarning"]>>
  /\ g' = IF "warnings" \in Opts THEN Set(g, {"warnFilters"}, Mine) ELSE g
  /\ pc' = "gsetup" /\ idx' = 1
  /\ UNCHANGED <<saved, t, ending, exc, began, gcSaved>>

(* ---- feature hooks ------------------------------------------------------ *)
GSetupEffect(f) ==
  CASE f = "Coverage" ->          \* TestTrace.start
         /\ g' = Set(g, {"sysTrace", "thrTrace", "settraceFn"}, Mine)
         /\ UNCHANGED saved
    [] f = "Threshold" ->
         /\ saved' = [saved EXCEPT !["gcThreshold"] = g["gcThreshold"]]
         /\ g' = Set(g, {"gcThreshold"}, Mine)
    [] f = "Debug" ->
         \* gc.set_debug(<the -G flags>): the caller's flags are replaced, not
         \* extended ("DebugOrAndMask": OR-ed in here, masked out at teardown)
         IF "DebugOrAndMask" \in Deviations
         THEN /\ g' = [g EXCEPT !["gcDebug"] = @ \cup GBits]
              /\ UNCHANGED saved
         ELSE /\ saved' = [saved EXCEPT !["gcDebug"] = g["gcDebug"]]
              /\ g' = [g EXCEPT !["gcDebug"] = GBits]
    [] f = "Traceback" ->
         /\ saved' = [saved EXCEPT !["tbFormat"] = g["tbFormat"], !["tbPrint"] = g["tbPrint"]]
         /\ g' = Set(g, {"tbFormat", "tbPrint"}, "runner")
    [] OTHER -> UNCHANGED <<g, saved>>

GSetup ==
  /\ pc = "gsetup"
  /\ IF idx <= NF
     THEN /\ GSetupEffect(Features[idx]) /\ idx' = idx + 1 /\ UNCHANGED pc
     ELSE /\ pc' = "lsetup" /\ idx' = 1 /\ UNCHANGED <<g, saved>>
  /\ UNCHANGED <<t, ending, exc, began, warnSaved, gcSaved>>

LSetup ==
  /\ pc = "lsetup"
  /\ IF idx <= NF
     THEN /\ g' = IF Features[idx] = "Profiling"
                  THEN Set(g, {"sysProfile"}, Mine) ELSE g  \* profiler.enable
          /\ idx' = idx + 1 /\ UNCHANGED <<pc, began, t>>
     ELSE /\ pc' = "tstart" /\ began' = TRUE /\ t' = 1 /\ UNCHANGED <<g, idx>>
  /\ UNCHANGED <<saved, ending, exc, warnSaved, gcSaved>>

(* ---- the test phase ------------------------------------------------------*)
Last == t = NTests
Arm(gg) == IF "buffer" \in Opts THEN Set(gg, {"stdout", "stderr"}, Mine) ELSE gg
(* _restoreStdStreams puts the saved originals back whatever sys.stdout is by  *)
(* then ("RestoreOnlyOwnBuffer": only if sys.stdout still is the runner's     *)
(* buffer); the originals are the streams the run found (inside an enclosing   *)
(* run with --buffer: that run's buffer)                                       *)
RestoreStreams(gg) ==
  IF "buffer" \notin Opts THEN gg
  ELSE IF "RestoreOnlyOwnBuffer" \in Deviations /\ gg["stdout"] # Mine THEN gg
  ELSE [x \in Globals |-> IF x \in {"stdout", "stderr"} THEN g0[x] ELSE gg[x]]

TStart ==     \* TestResult.startTest: per-test layer hooks, then arm the capture
  /\ pc = "tstart"
  /\ IF t > NTests THEN /\ pc' = "eteardown" /\ idx' = NF /\ UNCHANGED <<g, exc>>
     ELSE IF ending = "hookUp" /\ Last
          THEN /\ exc' = "hook" /\ pc' = "eteardown" /\ idx' = NF /\ UNCHANGED g
          ELSE /\ g' = Arm(g) /\ pc' = "tbody" /\ UNCHANGED <<exc, idx>>
  /\ UNCHANGED <<saved, t, ending, began, warnSaved, gcSaved>>

TBody ==      \* the test itself; it may change warnings filters for itself
  /\ pc \in {"tbody", "tbodyN"}
  /\ \E fiddle \in BOOLEAN :
       LET g1 == IF fiddle THEN Set(g, {"warnFilters"}, "test") ELSE g
       IN g' = IF ending = "redirKbint" /\ Last THEN Set(g1, {"stdout"}, "test") ELSE g1
  /\ exc' = IF ending \in {"kbint", "redirKbint"} /\ Last THEN "kbint" ELSE exc
  /\ pc' = "tstop"
  /\ UNCHANGED <<saved, idx, t, ending, began, warnSaved, gcSaved>>

(* how the per-test loop goes on once stopTest is through *)
Leave == IF exc # "none"
            \/ (Last /\ ending \in {"stop", "postmortem"})    \* -x / EndRun: loop left normally
         THEN pc' = "eteardown" /\ idx' = NF /\ UNCHANGED t
         ELSE pc' = "tstart" /\ t' = t + 1 /\ UNCHANGED idx

TStop ==      \* TestResult.stopTest (unittest calls it in a finally clause)
  /\ pc = "tstop"
  /\ LET hookRaises == ending = "hookDown" /\ Last /\ exc = "none"
         g1 == IF "HooksDownBeforeRestore" \in Deviations /\ hookRaises
               THEN g ELSE RestoreStreams(g)
         g2 == IF Last /\ ending = "postmortem" /\ "PostMortemResetsTrace" \in Deviations
                  /\ "coverage" \notin Opts
               THEN Set(g1, {"sysTrace"}, "none") ELSE g1
     IN /\ g' = g2
        /\ exc' = IF hookRaises THEN "hook" ELSE exc
        \* -D: debug.post_mortem enters pdb, whose 'continue' resets the trace
        \* function; post_mortem puts the caller's back (fix; deviation
        \* "PostMortemResetsTrace" = before it)
        \* a raising testTearDown hook leaves stopTest at once; otherwise the
        \* --gc-after-test part follows (also with KeyboardInterrupt in flight:
        \* stopTest runs in unittest's finally clause)
        /\ IF hookRaises
           THEN pc' = "eteardown" /\ idx' = NF /\ UNCHANGED t
           ELSE pc' = "tgc" /\ UNCHANGED <<idx, t>>
  /\ UNCHANGED <<saved, ending, began, warnSaved, gcSaved>>

(* stopTest, continued.  --gc-after-test at verbosity >= 4:                    *)
(*     gc_opts = gc.get_debug(); gc.set_debug(gc.DEBUG_SAVEALL)   TGcOpen      *)
(*     gc.collect(); the cycles in gc.garbage are analysed and                 *)
(*     printed; del gc.garbage[:]; gc.set_debug(gc_opts)          TGcClose     *)
(* (below that verbosity, and without the option, the flags are not touched)   *)
Window == "A" \in Opts /\ v4

TGcOpen ==
  /\ pc = "tgc"
  /\ IF Window
     THEN /\ gcSaved' = g["gcDebug"]
          /\ g' = [g EXCEPT !["gcDebug"] = {SaveAll}]
          /\ pc' = "tgcwin" /\ UNCHANGED <<idx, t>>
     ELSE /\ Leave /\ UNCHANGED <<g, gcSaved>>
  /\ UNCHANGED <<saved, ending, exc, began, warnSaved>>

(* Ending "gcWinKbint": KeyboardInterrupt arrives while the garbage of the last *)
(* test is analysed / printed (Ctrl-C; a __repr__ that raises it).  The flags   *)
(* are put back in a finally clause (fix fa5fa97; "AnalysisInterrupted" = the   *)
(* code before it: the flags stay as the window set them).                     *)
(* "AfterTestClearsDebug": the flags are cleared instead of put back.           *)
TGcClose ==
  /\ pc = "tgcwin"
  /\ LET back == [g EXCEPT !["gcDebug"] = IF "AfterTestClearsDebug" \in Deviations
                                          THEN {} ELSE gcSaved]
     IN IF ending = "gcWinKbint" /\ Last
        THEN /\ g' = IF "AnalysisInterrupted" \in Deviations THEN g ELSE back
             /\ exc' = "kbint" /\ pc' = "eteardown" /\ idx' = NF /\ UNCHANGED t
        ELSE /\ g' = back /\ Leave /\ UNCHANGED exc
  /\ UNCHANGED <<saved, ending, began, warnSaved, gcSaved>>

(* ---- finally: early_teardown, global_teardown (reversed) ---------------- *)
SkipTeardown == "TeardownOutsideFinally" \in Deviations /\ exc # "none"

ETeardown ==
  /\ pc = "eteardown"
  /\ IF SkipTeardown THEN pc' = "warnexit" /\ UNCHANGED <<g, idx>>
     ELSE IF idx >= 1
     THEN /\ g' = CASE Features[idx] = "Coverage" ->       \* TestTrace.stop
                         \* puts the caller's trace functions back (fix 2911f84;
                         \* before it: reset to "no trace function")
                         \* "CoverageStopAllThreads": the threading hook is put back
                         \* with settrace_all_threads, which also sets it in the
                         \* calling thread, over the sys hook restored just before
                         LET ds == "CoverageResetsTrace" \in Deviations
                             da == "CoverageStopAllThreads" \in Deviations
                             thr == IF ds THEN "none" ELSE g0["thrTrace"]
                             sy == IF ds THEN "none" ELSE IF da THEN thr ELSE g0["sysTrace"]
                         IN Set(Set(Set(g, {"sysTrace"}, sy), {"thrTrace"}, thr),
                                {"settraceFn"}, "init")
                    [] Features[idx] = "Profiling" ->      \* profiler.disable
                         \* CPython >= 3.12: cProfile is a sys.monitoring tool and
                         \* leaves a caller's sys.setprofile hook alone; on older
                         \* interpreters disable() clears it ("ProfileResetsHook",
                         \* not observable on the interpreter used here)
                         \* "ProfilerOffAtDump": no early disable; writing the
                         \* profile (global_teardown) is relied on to stop it
                         IF "ProfilerOffAtDump" \in Deviations THEN g
                         ELSE Set(g, {"sysProfile"},
                                  IF "ProfileResetsHook" \in Deviations THEN "none" ELSE g0["sysProfile"])
                    [] OTHER -> g
          /\ idx' = idx - 1 /\ UNCHANGED pc
     ELSE /\ pc' = "gteardown" /\ idx' = NF /\ UNCHANGED g
  /\ UNCHANGED <<saved, t, ending, exc, began, warnSaved, gcSaved>>

Back(gg, xs) == [x \in Globals |-> IF x \in xs THEN saved[x] ELSE gg[x]]

(* Profiling.global_teardown writes the profile first (dump_stats opens the    *)
(* file, then stops the profiler and takes the statistics): with the directory *)
(* gone it raises OSError - the remaining global_teardowns (features configured *)
(* before Profiling) are skipped, catch_warnings still exits.                   *)
(* "SharedSaveSlot": what Traceback replaced is kept in ONE module-level slot   *)
(* (set at setup; put back and emptied at teardown) instead of on the feature   *)
(* instance of the run: the tbFormat / tbPrint entries of `saved` are then not  *)
(* part of a run's own state (see NestPush / NestPop).                          *)
GTeardown ==
  /\ pc = "gteardown"
  /\ IF idx >= 1 /\ Features[idx] = "Profiling" /\ ending = "profDirGone"
     THEN /\ exc' = "oserror" /\ pc' = "warnexit" /\ UNCHANGED <<g, idx, saved>>
     ELSE IF idx >= 1
     THEN /\ g' = CASE Features[idx] = "Threshold" -> Back(g, {"gcThreshold"})
                    [] Features[idx] = "Debug" ->
                         IF "DebugOrAndMask" \in Deviations
                         THEN [g EXCEPT !["gcDebug"] = @ \ GBits]
                         ELSE Back(g, {"gcDebug"})
                    [] Features[idx] = "Traceback" ->
                         IF "TracebackKeepsPrint" \in Deviations
                         THEN Back(g, {"tbFormat"})
                         ELSE IF "SharedSaveSlot" \in Deviations /\ saved["tbFormat"] = "empty"
                         THEN g
                         ELSE Back(g, {"tbFormat", "tbPrint"})
                    [] Features[idx] = "Profiling" ->
                         IF "ProfilerOffAtDump" \in Deviations
                         THEN Set(g, {"sysProfile"}, g0["sysProfile"]) ELSE g
                    [] OTHER -> g
          /\ saved' = IF Features[idx] = "Traceback" /\ "SharedSaveSlot" \in Deviations
                      THEN [x \in Globals |-> IF x \in TbSlot THEN "empty" ELSE saved[x]]
                      ELSE saved
          /\ idx' = idx - 1 /\ UNCHANGED <<pc, exc>>
     ELSE /\ pc' = "warnexit" /\ UNCHANGED <<g, idx, saved, exc>>
  /\ UNCHANGED <<t, ending, began, warnSaved, gcSaved>>

WarnExit ==
  /\ pc = "warnexit"
  /\ g' = IF "NoCatchWarnings" \in Deviations
             \/ ("CatchWarningsOnlyIfSet" \in Deviations /\ "warnings" \notin Opts)
          THEN g
          ELSE [g EXCEPT !["warnFilters"] = warnSaved[1], !["showwarning"] = warnSaved[2]]
  /\ pc' = IF exc = "none" THEN "returned" ELSE "raised"
  /\ UNCHANGED <<saved, idx, t, ending, exc, began, warnSaved, gcSaved>>

(* ---- a run inside a test of a run ----------------------------------------- *)
Frame == [saved |-> saved, pc |-> "tbodyN", idx |-> idx, t |-> t, ending |-> ending,
          exc |-> exc, began |-> began, warnSaved |-> warnSaved, gcSaved |-> gcSaved,
          Opts |-> Opts, GBits |-> GBits, v4 |-> v4, g0 |-> g0]
Shared == IF "SharedSaveSlot" \in Deviations THEN TbSlot ELSE {}

(* the first test of a run calls run_internal: the pipeline starts over on top  *)
(* of the globals as they are now.  Not enumerated: a second profiler inside a  *)
(* profiled run (refused by the interpreter before the inner test phase) and    *)
(* --coverage inside a --coverage run (TestTrace.stop puts back the sys.settrace *)
(* of import time, not the enclosing tracer's wrapper: reported separately)     *)
NestPush ==
  /\ pc = "tbody" /\ nest /\ t = 1 /\ Len(stack) < MaxNest
  /\ stack' = Append(stack, Frame)
  /\ \E o \in SUBSET InnerOptUniverse, e \in InnerEndings :
       /\ OkCombo(o, e) /\ e # "gcWinKbint"
       /\ \A x \in {"profile", "coverage"} :
            x \in o => /\ x \notin Opts
                       /\ \A i \in 1..Len(stack) : x \notin stack[i].Opts
       /\ Opts' = o /\ ending' = e
  /\ GBits' \in (IF "G" \in Opts' THEN GChoices ELSE {{}})
  /\ v4' = FALSE
  /\ g0' = g /\ g' = g
  /\ saved' = [x \in Globals |-> IF x \in Shared THEN saved[x] ELSE FreshSaved[x]]
  /\ pc' = "enter" /\ idx' = 0 /\ t' = 0 /\ exc' = "none" /\ began' = FALSE
  /\ warnSaved' = <<"none", "none">> /\ gcSaved' = {}
  /\ UNCHANGED nest

(* the inner run is over: the test goes on (an ordinary exception out of the    *)
(* inner run is this test's error; KeyboardInterrupt travels on)                *)
NestPop ==
  /\ pc \in {"returned", "raised"} /\ stack # <<>>
  /\ LET f == stack[Len(stack)]
         kb == pc = "raised" /\ exc = "kbint"
     IN /\ stack' = SubSeq(stack, 1, Len(stack) - 1)
        /\ saved' = [x \in Globals |-> IF x \in Shared THEN saved[x] ELSE f.saved[x]]
        /\ pc' = IF kb THEN "tstop" ELSE f.pc
        /\ exc' = IF kb THEN "kbint" ELSE f.exc
        /\ idx' = f.idx /\ t' = f.t /\ ending' = f.ending /\ began' = f.began
        /\ warnSaved' = f.warnSaved /\ gcSaved' = f.gcSaved
        /\ Opts' = f.Opts /\ GBits' = f.GBits /\ v4' = f.v4 /\ g0' = f.g0
  /\ UNCHANGED <<g, nest>>

RunStep == /\ \/ WarnEnter \/ GSetup \/ LSetup \/ TStart \/ TBody \/ TStop
              \/ TGcOpen \/ TGcClose
              \/ ETeardown \/ GTeardown \/ WarnExit
           /\ UNCHANGED <<Opts, GBits, v4, g0, stack, nest>>
Next == /\ \/ RunStep \/ NestPush \/ NestPop
        /\ UNCHANGED <<PreHooks, PreDebug>>

Spec == Init /\ [][Next]_vars /\ WF_vars(Next)

(* ---- P-spec -------------------------------------------------------------- *)
Done == pc \in {"returned", "raised"}

(* the trace / profile hooks of a caller that had some installed are checked *)
(* as a clause of their own (signature of the repaired coverage defect)      *)
HookGlobals == {"sysTrace", "thrTrace", "sysProfile"}
(* (a test that leaks its own replacement of sys.stdout while the runner does  *)
(* not manage the streams (no --buffer) has changed it itself)                 *)
OwnLeak == IF ending = "redirKbint" /\ "buffer" \notin Opts THEN {"stdout"} ELSE {}
(* per run, nested or not: what the run found is what it leaves                *)
Restored == Done /\ began => \A x \in Globals \ (HookGlobals \cup OwnLeak) : g[x] = g0[x]
HooksRestored == Done /\ began => \A x \in HookGlobals : g[x] = g0[x]
Terminates == <>(Done /\ stack = <<>>)

(* what the globals look like while tests run (conformance of the mid-run    *)
(* snapshot taken inside a test body)                                        *)
MidChanged == {x \in Globals : g[x] # G0[x]}
PredictedMid ==
     (IF "coverage" \in Opts THEN {"sysTrace", "thrTrace", "settraceFn"} ELSE {})
  \cup (IF "profile" \in Opts THEN {"sysProfile"} ELSE {})
  \cup (IF "gc" \in Opts THEN {"gcThreshold"} ELSE {})
  \cup (IF "G" \in Opts /\ GBits # PreDebug THEN {"gcDebug"} ELSE {})
  \cup {"tbFormat", "tbPrint"}
  \cup (IF "warnings" \in Opts THEN {"warnFilters"} ELSE {})
  \cup (IF "buffer" \in Opts THEN {"stdout", "stderr"} ELSE {})
InOuterBody == pc \in {"tbody", "tbodyN"} /\ stack = <<>>   \* ("tbodyN": a nested run is over)
MidAsPredicted == InOuterBody => MidChanged \ {"warnFilters"} = PredictedMid \ {"warnFilters"}
(* the debug flags bit by bit: while a test runs they are exactly what -G      *)
(* names (the caller's without -G); inside stopTest's analysis window exactly   *)
(* DEBUG_SAVEALL                                                               *)
MidDebug == IF "G" \in Opts THEN GBits ELSE PreDebug
WinDebug == {SaveAll}
DebugAsPredicted == /\ InOuterBody => g["gcDebug"] = MidDebug
                    /\ pc = "tgcwin" /\ stack = <<>> => g["gcDebug"] = WinDebug
=============================================================================
