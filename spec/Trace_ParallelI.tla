-------------------------- MODULE Trace_ParallelI --------------------------
(* Trace validation of real -j N runs against the I-spec Parallel.tla itself *)
(* (not only its properties): the parent-side events recorded by the Popen   *)
(* interposition - SP(c): Popen returned for child c, SF(c): Popen raised,   *)
(* RP(c): child c reaped - must be explainable as a behaviour of the spec in *)
(* which exactly those ThreadSpawn / ThreadReap steps occur in that order;   *)
(* everything else (poll-loop steps, relayed lines, children exiting) is     *)
(* unlogged and is chosen by TLC.  A trace is accepted when some behaviour   *)
(* consumes it completely and reaches the end of resume_tests.               *)
(* All traces of one TLC run share K, N and FailSpawn (constants of the      *)
(* spec); the harness groups them.                                           *)
EXTENDS Parallel, Json, IOUtils

Traces == JsonDeserialize(IOEnv.TRACE_FILE)
VARIABLES tid, l
tvars == <<vars, tid, l>>

TInit == Init /\ tid \in 1..Len(Traces) /\ l = 1
Ev == Traces[tid].ev
IsEvent(e, c) == l <= Len(Ev) /\ Ev[l].e = e /\ Ev[l].c = c /\ l' = l + 1

Logged(c) == \/ IsEvent("SP", c) /\ c \notin FailSpawn /\ ThreadSpawn(c)
             \/ IsEvent("SF", c) /\ c \in FailSpawn /\ ThreadSpawn(c)
             \/ IsEvent("RP", c) /\ ThreadReap(c) /\ cs[c] # "none"
Silent == /\ \/ Main
             \/ \E c \in C : \/ ChildEmit(c) \/ ChildExit(c) \/ ThreadRead(c) \/ ThreadEOF(c) \/ ThreadDone(c)
                             \/ (ThreadReap(c) /\ cs[c] = "none")      \* nothing to reap after a failed Popen
          /\ UNCHANGED l
TNext == (Silent \/ \E c \in C : Logged(c)) /\ UNCHANGED tid
TSpec == TInit /\ [][TNext]_tvars

Accepting == l > Len(Ev) /\ mpc = "exit"
Accepted == Accepting => PrintT(<<"ACCEPT", Traces[tid].id>>)
=============================================================================
