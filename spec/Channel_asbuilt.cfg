CONSTANTS NNames = 2 NOut = 2 NNoise = 1 Cap = 1 Lookalike = TRUE Deviations = {}
SPECIFICATION Spec
INVARIANT LookalikeNeverTaken
INVARIANT FaultIsError
INVARIANT Reaped
PROPERTY NoHang
CHECK_DEADLOCK FALSE
