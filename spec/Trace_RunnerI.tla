--------------------------- MODULE Trace_RunnerI ---------------------------
(* Trace validation of real runs against the I-spec Runner.tla itself.       *)
(* Runner.tla is deterministic once the world and the options are fixed: its *)
(* behaviour from the recorded world is the *predicted* run.  The history    *)
(* mon.done holds, per process (the parent and each layer subprocess), the   *)
(* observable events in order; they must equal the events recorded from the  *)
(* real run, process by process (children are matched by their layer).       *)
(* A mismatch while every property clause held is DRIFT: the I-spec has to   *)
(* be re-bound to the code; it is never an alarm.                            *)
EXTENDS Runner, Json, IOUtils

Traces == JsonDeserialize(IOEnv.TRACE_FILE)
VARIABLE tid
tvars == <<vars, tid>>

RW == Traces[tid].w
TInit ==
  /\ tid \in 1..Len(Traces)
  /\ w = [layers |-> RW.layers, bases |-> RW.bases, life |-> RW.life, perUp |-> RW.perUp,
          perDown |-> RW.perDown, tests |-> RW.tests, suF |-> SeqSet(RW.suF), td |-> RW.td,
          unit |-> RW.unit]
  /\ opt = [repeat |-> Traces[tid].opt.repeat, stop |-> Traces[tid].opt.stop, par |-> Traces[tid].opt.par]
  /\ proc = 1 /\ mode = "parent" /\ pc = "start"
  /\ toRun = <<>> /\ setupL = {} /\ tdq = <<>> /\ tdOptional = FALSE
  /\ suStack = <<>> /\ curLayer = "" /\ iter = 0 /\ tIdx = 0
  /\ shouldStop = FALSE /\ anyBad = FALSE /\ resumeQ = <<>>
  /\ shouldResume = FALSE /\ stash = <<>>
  /\ mon = Mon0 /\ perr = "" /\ executed = {} /\ usedDev = {}

TSpec == TInit /\ [][Next /\ UNCHANGED tid]_tvars

Obs == Traces[tid].procs          \* [who, log] per process, log = <<e, l, s>> triples
Pred == mon.done

LogOf(ps, who) == LET S == {j \in 1..Len(ps) : ps[j][1] = who}
                  IN IF S = {} THEN <<"absent">> ELSE ps[CHOOSE j \in S : TRUE][2]
Whos(ps) == {ps[j][1] : j \in 1..Len(ps)}

Verdict ==
  IF Whos(Pred) # Whos(Obs) THEN <<"DRIFT", "processes">>
  ELSE IF Traces[tid].stat.known /\ mon.stat.sums # Traces[tid].stat.sums THEN <<"DRIFT", "summary-lines">>
  ELSE IF Traces[tid].stat.known /\ (mon.stat.layers # 1) # Traces[tid].stat.hasTotal
       THEN <<"DRIFT", "total-line">>
  ELSE LET bad == {x \in Whos(Pred) : LogOf(Pred, x) # LogOf(Obs, x)}
       IN IF bad = {} THEN <<"OK", "">> ELSE <<"DRIFT", CHOOSE x \in bad : TRUE>>

Report == Done => PrintT(<<"RUNI", Traces[tid].id, Verdict[1], Verdict[2],
                            IF Verdict[1] = "OK" THEN <<>> ELSE <<Pred, mon.stat>>>>)
=============================================================================
