CONSTANT MaxN = 4
