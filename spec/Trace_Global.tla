---------------------------- MODULE Trace_Global ----------------------------
(* C18 conformance.  One record per real in-process run (fresh interpreter): *)
(*   opts (the option subset), pre (the caller had its own trace / profile   *)
(*   hooks), ending, raised, began (the test phase was entered),             *)
(*   before / after / mid: snapshots of the interpreter globals (strings)    *)
(*   taken right before Runner.run(), right after it returned or raised,     *)
(*   and inside a test body (hasMid).                                        *)
(* P-spec: GlobalState!Restored / HooksRestored as equalities of snapshots.  *)
(* I-spec (DRIFT): the set of globals that differ from `before` while the    *)
(*   tests run equals GlobalState!PredictedMid for these options.            *)
(* The gc debug flags additionally travel as the names of the bits that are  *)
(* set (before.gcDebugBits, ...): gbits = what -G named, v4 = --gc-after-test *)
(* came with verbosity >= 4, win = the flags seen each time a piece of       *)
(* garbage was printed by stopTest's cycle analysis, mid2 = snapshot inside  *)
(* the last test (after earlier tests' analysis windows).  I-spec (DRIFT):   *)
(* GlobalState!MidDebug while tests run, GlobalState!WinDebug in the window, *)
(* and a window only with GlobalState!Window.                                *)
(* hasNest / nestBefore / nestAfter: the first test performed a run itself   *)
(* (before its mid-run snapshot): the globals right before / after that run. *)
EXTENDS Naturals, Sequences, FiniteSets, TLC, Json, IOUtils, SequencesExt

Recs == JsonDeserialize(IOEnv.TRACE_FILE)
VARIABLE k
Init == k \in 1..Len(Recs)
Next == UNCHANGED k
Spec == Init /\ [][Next]_k

G(r) == INSTANCE GlobalState WITH NTests <- 1, Deviations <- {}, PreChoices <- {},
                                  OptUniverse <- {}, PreDebugChoices <- {}, GChoices <- {},
                                  V4Choices <- {},
                                  NestChoices <- {}, InnerOptUniverse <- {},
                                  InnerEndings <- {}, MaxNest <- 0,
                                  g0 <- 0, stack <- 0, nest <- 0,
                                  Opts <- ToSet(r.opts), PreHooks <- r.pre,
                                  PreDebug <- ToSet(r.before.gcDebugBits),
                                  GBits <- ToSet(r.gbits), v4 <- r.v4,
                                  g <- 0, saved <- 0, pc <- 0, idx <- 0, t <- 0,
                                  ending <- 0, exc <- 0, began <- 0, warnSaved <- 0,
                                  gcSaved <- 0

Verdict(r) ==
  LET GL == G(r)!Globals
      bad == {x \in GL : r.before[x] # r.after[x]}
      \* GlobalState!OwnLeak for this record's ending and options
      own == IF r.ending = "redirKbint" /\ "buffer" \notin ToSet(r.opts) THEN {"stdout"} ELSE {}
      plain == bad \ (G(r)!HookGlobals \cup own)
      hooks == bad \cap G(r)!HookGlobals
      mid == {x \in GL : r.before[x] # r.mid[x]} \ {"warnFilters"}
      midBits == {ToSet(r.mid.gcDebugBits), ToSet(r.mid2.gcDebugBits)}
      winBits == {ToSet(w) : w \in ToSet(r.win)}
      \* a run performed by a test of this run (GlobalState!NestPush / NestPop):
      \* the same clause, against what THAT run found
      inner == IF r.hasNest THEN {x \in GL : r.nestBefore[x] # r.nestAfter[x]} ELSE {}
  IN IF ~r.began THEN <<"NOT-BEGUN", "">>
     ELSE IF plain # {} THEN <<"C18:not-restored", CHOOSE x \in plain : TRUE>>
     ELSE IF inner # {} THEN <<"C18:nested-run-not-restored", CHOOSE x \in inner : TRUE>>
     ELSE IF hooks # {} THEN <<"C18:caller-hook-not-restored", CHOOSE x \in hooks : TRUE>>
     ELSE IF r.hasMid /\ mid # G(r)!PredictedMid \ {"warnFilters"}
          THEN <<"DRIFT", ToString(mid)>>
     ELSE IF r.hasMid /\ midBits # {G(r)!MidDebug}
          THEN <<"DRIFT", "gc debug flags while tests run: " \o ToString(midBits)>>
     ELSE IF winBits \notin {{}, {G(r)!WinDebug}}
          THEN <<"DRIFT", "gc debug flags in the analysis window: " \o ToString(winBits)>>
     ELSE IF winBits # {} /\ ~G(r)!Window
          THEN <<"DRIFT", "analysis window without --gc-after-test -vvvv">>
     ELSE <<"", "">>

Report == LET v == Verdict(Recs[k]) IN PrintT(<<"GLOB", Recs[k].id, v[1], v[2]>>)
=============================================================================
