SPECIFICATION TSpec
CONSTANTS
  MaxN = 1
  MaxFaults = 0
  MaxTests = 1
  TestKinds = {"good"}
  Repeats = {1}
  Stops = {FALSE}
  Modes = {"seq"}
  HookModes = {"all"}
  Logging = TRUE
  Deviations = {}
CHECK_DEADLOCK FALSE
INVARIANT Report
