----------------------------- MODULE DiGraphApi -----------------------------
(* C20 over the API HISTORY of one zope.testrunner.digraph.DiGraph object:   *)
(* the graph is built by a sequence of add_nodes(chunk) / add_neighbors(n,   *)
(* nbs) calls and sccs(trivial) may be asked at any point, any number of     *)
(* times, in either mode, and - sccs being a generator - each answer may be  *)
(* taken completely or only in part before the next call.  EVERY answer has  *)
(* to be the oracle's answer (SccOracle, judged by DiGraphOps!JudgeAnswer)   *)
(* for the graph as it is at the moment of that query.                       *)
(*                                                                           *)
(* Implementation-shaped part: the real sccs() recomputes the components on  *)
(* every call (memo = FALSE).  memo = TRUE is the admissible refactoring     *)
(* "remember the components until the graph changes" (both modes share one   *)
(* traversal, the triviality filter stays live); it has to forget them in    *)
(* every mutator path that changes the graph.  Deviation "StaleCache": the   *)
(* path of add_neighbors that extends an EXISTING neighbour set in place     *)
(* (`nbs |= known_neighbors`) does not forget them - only the path that      *)
(* creates the set does.  `entry` = the nodes that have a neighbour set.     *)
(*                                                                           *)
(* No step counter: the graph only grows, so the reachable states are finite *)
(* and TLC covers the histories of EVERY length over the N labels.  `last`   *)
(* is the call just made with its arguments (and answer), so that an error   *)
(* trace is a complete history that can be executed on the real class.       *)
EXTENDS Naturals, Sequences, FiniteSets, TLC, SequencesExt, DiGraphOps

CONSTANTS N,            \* labels 1..N
          MemoChoices,  \* subset of BOOLEAN: implementations explored
          Deviations    \* subset of {"StaleCache"}

U == 1..N

VARIABLES g,        \* the abstract graph (DiGraphOps)
          entry,    \* nodes with a neighbour set
          memo,     \* does this implementation remember components
          cache,    \* <<>> or <<remembered components>>
          last      \* the call just made
vars == <<g, entry, memo, cache, last>>

Call(op, node, set, trivial, ys, exhausted) ==
  [op |-> op, node |-> node, set |-> set, trivial |-> trivial, ys |-> ys,
   exhausted |-> exhausted]

Init ==
  /\ g = EmptyGraph(U)
  /\ entry = {}
  /\ memo \in MemoChoices
  /\ cache = <<>>
  /\ last = Call("init", 0, {}, FALSE, <<>>, FALSE)

(* add_nodes(chunk): also the empty chunk and nodes that are already there *)
DoAddNodes ==
  \E chunk \in SUBSET U :
    /\ g' = AddNodes(g, chunk)
    /\ cache' = <<>>
    /\ last' = Call("add_nodes", 0, chunk, FALSE, <<>>, FALSE)
    /\ UNCHANGED <<entry, memo>>

(* add_neighbors(n, nbs): n and the neighbours may be unknown (yet) *)
DoAddNeighbors ==
  \E n \in U, nbs \in SUBSET U :
    /\ g' = AddNeighbors(g, n, nbs)
    /\ entry' = IF n \in g.nodes THEN entry \cup {n} ELSE entry
    /\ cache' = IF n \notin g.nodes THEN cache                 \* returns early
                ELSE IF n \in entry /\ "StaleCache" \in Deviations THEN cache
                ELSE <<>>
    /\ last' = Call("add_neighbors", n, nbs, FALSE, <<>>, FALSE)
    /\ UNCHANGED memo

(* sccs(trivial), taken completely (exhausted) or in part *)
DoQuery ==
  \E trivial \in BOOLEAN :
    LET comps == IF memo /\ cache # <<>> THEN cache[1] ELSE Components(g.nodes, g.succ)
        ans == {C \in comps : trivial \/ Cyclic(g.succ, C)}    \* the filter is live
    IN \E got \in SUBSET ans, ex \in BOOLEAN :
         /\ ex => got = ans
         \* the generator body runs from the first next() on: nothing taken and
         \* the end not seen = the generator was created and dropped
         /\ cache' = IF memo /\ (ex \/ got # {}) THEN <<comps>> ELSE cache
         /\ last' = Call("sccs", 0, {}, trivial, SetToSeq(got), ex)
         /\ UNCHANGED <<g, entry, memo>>

Next == DoAddNodes \/ DoAddNeighbors \/ DoQuery
Spec == Init /\ [][Next]_vars

Verdict == IF last.op = "sccs"
           THEN JudgeAnswer(g.nodes, g.succ, last.trivial, last.ys, last.exhausted)
           ELSE ""

(* What follows a call depends on g, entry, memo and cache only, and what    *)
(* the invariants say about `last` depends on Verdict only.  As a VIEW this  *)
(* keeps the calls, their arguments and answers in the error traces without  *)
(* multiplying the states by them.                                           *)
View == <<g, entry, memo, cache, Verdict>>

(* ----- properties ------------------------------------------------------------*)
TypeOK ==
  /\ GraphOk(U, g)
  /\ entry \subseteq g.nodes
  /\ \A x \in U : g.succ[x] # {} => x \in entry
  /\ memo \in BOOLEAN
  /\ ~memo => cache = <<>>

(* the oracle itself: the classes partition the nodes; default mode is a filter *)
OracleSane ==
  LET Cs == Components(g.nodes, g.succ)
  IN /\ UNION Cs = g.nodes
     /\ \A C \in Cs : C # {}
     /\ \A C, D \in Cs : C = D \/ C \cap D = {}
     /\ Expected(g.nodes, g.succ, TRUE) = Cs
     /\ Expected(g.nodes, g.succ, FALSE) = {C \in Cs : Cyclic(g.succ, C)}

(* C20 for every query of every history (a query does not change the graph, *)
(* so the graph of the state after the step is the graph that was asked)    *)
AnswerOk == Verdict = ""

(* what a remembering implementation remembers is never out of date *)
CacheCoherent == cache # <<>> => cache[1] = Components(g.nodes, g.succ)

(* mutators only add; components only merge (never split, never vanish) *)
OnlyGrows ==
  [][/\ g.nodes \subseteq g'.nodes
     /\ \A x \in U : g.succ[x] \subseteq g'.succ[x]
     /\ \A C \in Components(g.nodes, g.succ) :
          \E D \in Components(g'.nodes, g'.succ) : C \subseteq D]_vars
=============================================================================
