CONSTANTS NNames = 2 NOut = 2 NNoise = 1 Cap = 1 Lookalike = FALSE Deviations = {"NoFreshLine"}
SPECIFICATION Spec
INVARIANT CompleteIsExact
INVARIANT FaultIsError
INVARIANT Reaped
PROPERTY NoHang
CHECK_DEADLOCK FALSE
