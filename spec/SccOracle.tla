----------------------------- MODULE SccOracle -----------------------------
(* P-spec of C20: strongly connected components by mutual reachability.     *)
(* A graph is (Nodes, Succ) with Succ : Nodes -> SUBSET Nodes.               *)
EXTENDS Naturals, FiniteSets

RECURSIVE ReachSet(_, _, _)
(* nodes reachable from the set S in >= 0 steps *)
ReachSet(Succ, S, k) ==
  IF k = 0 THEN S
  ELSE LET T == S \cup UNION {Succ[x] : x \in S}
       IN IF T = S THEN S ELSE ReachSet(Succ, T, k - 1)

Reach(Nodes, Succ, a) == ReachSet(Succ, {a}, Cardinality(Nodes))

(* the mutual-reachability class of a:                                        *)
(*   {b \in Nodes : b reachable from a /\ a reachable from b}                 *)
(* (Reach(a) is named once: TLC would re-evaluate it for every b)            *)
Component(Nodes, Succ, a) ==
  LET Ra == Reach(Nodes, Succ, a)
  IN {b \in Nodes : b \in Ra /\ a \in Reach(Nodes, Succ, b)}

Components(Nodes, Succ) == {Component(Nodes, Succ, a) : a \in Nodes}

(* contains a cycle: more than one node, or a self-loop *)
Cyclic(Succ, C) == Cardinality(C) > 1 \/ \E a \in C : a \in Succ[a]

(* what sccs(trivial) has to yield, given the classes Cs of the graph *)
ExpectedOf(Cs, Succ, trivial) ==
  IF trivial THEN Cs ELSE {C \in Cs : Cyclic(Succ, C)}

Expected(Nodes, Succ, trivial) == ExpectedOf(Components(Nodes, Succ), Succ, trivial)
=============================================================================
