----------------------------- MODULE StdStreams -----------------------------
(* C13 (and the stream part of C04 / C18): --buffer capture and restoration  *)
(* of sys.stdout / sys.stderr in zope.testrunner.runner.TestResult.           *)
(*                                                                           *)
(* I-spec: one operator per critical section of the code                      *)
(*   DoStart   = startTest:  testSetUp hooks, then _setUpStdStreams           *)
(*   DoWrite   = a test writes to sys.stdout / sys.stderr                     *)
(*   DoEvent   = every add* method: _restoreStdStreams (read own buffers,    *)
(*               swap back, truncate), report, addSkip re-arms the capture    *)
(*   DoStop    = stopTest: _restoreStdStreams (drop), testTearDown hooks      *)
(*   DoRedirect / DoUnredirect = the test itself replaces a stream with an   *)
(*               object of its own / puts back what it had saved             *)
(* over the record  s = [cur, saved, has, buf, out, seen, abort]:             *)
(*   cur[x]   "orig" | "buf" | "test"  what sys.<x> currently is              *)
(*   saved[x] what the test saved when it redirected x                        *)
(*   has      the reusable buffer objects exist                               *)
(*   buf[x]   tokens captured from x and not yet drained                      *)
(*   out      runner output: <<"H", t>> report header of test t,              *)
(*                           <<"T", tok>> a token written by a test           *)
(*   seen     stream identities observed by layer hooks (between tests)       *)
(* The same operators are folded over recorded histories by Trace_Std.tla,   *)
(* and driven by an environment that enumerates all histories below.         *)
(* Deviations (named departures from the property; the first two were real   *)
(* defects repaired by fix: commits, kept so that TLC shows what each one    *)
(* breaks):                                                                  *)
(*   "SecondEventReadsOriginal"  the restore reads sys.stdout instead of its *)
(*        own buffer: the second result event of one test aborts the run     *)
(*   "SkipLeavesOrig"  addSkip does not re-arm the capture: tearDown output  *)
(*        of a test skipped from its body reaches the runner output          *)
(*   "NoTruncate"  buffers are not truncated when drained                    *)
(*   "StopKeepsBuffer" stopTest does not restore                             *)
(*   "RestoreOnlyIfInstalled" the restore is skipped when sys.stdout is not  *)
(*        the capture buffer (a test redirected stdout itself)               *)
(*   "OriginalsAtConfigure" the streams to put back are recorded when the    *)
(*        run is configured, not when the result object is made: in a layer  *)
(*        subprocess that is before process.py rebinds sys.stderr            *)
(* Process kinds: a run in the invoking process starts in S0; a layer        *)
(* subprocess (-j N, or resumed after a tearDown that is not implemented)    *)
(* starts in S0c: process.py has rebound sys.stderr = sys.stdout before the  *)
(* first test (the real stderr, "pipe", is the report channel to the parent, *)
(* where test output is lost).  "orig" is what sys.<x> was just before the   *)
(* first test of the process: in a child both names denote the one object    *)
(* whose content the parent copies into the runner output.                   *)
EXTENDS Naturals, Sequences, FiniteSets, TLC

CONSTANTS NT,          \* number of tests
          MaxW,        \* writes per test
          MaxE,        \* result events per test
          MaxR,        \* redirections per test
          Buffer,      \* --buffer given
          Deviations,
          Starts       \* process kinds a history may start in: "main", "child"

Streams == {"stdout", "stderr"}
BadKinds == {"F", "E", "U", "SF", "SE"}
GoodKinds == {"ok", "X", "S"}
Terminal == {"ok", "X", "U"}        \* reported after tearDown and cleanups
Kinds == BadKinds \cup GoodKinds

Both(v) == [x \in Streams |-> v]
S0 == [cur |-> Both("orig"), saved |-> Both("none"), has |-> FALSE,
       buf |-> Both(<<>>), out |-> <<>>, seen |-> <<>>, abort |-> FALSE,
       rebound |-> FALSE]
S0c == [S0 EXCEPT !.rebound = TRUE]

Arm(s, on) == IF on THEN [s EXCEPT !.cur = Both("buf"), !.has = TRUE] ELSE s

(* _restoreStdStreams: returns <<content, s'>> *)
Restore(s, on, D) ==
  IF on /\ s.has
  THEN IF "SecondEventReadsOriginal" \in D /\ s.cur["stdout"] # "buf"
       THEN <<<<>>, [s EXCEPT !.abort = TRUE]>>
       ELSE IF "RestoreOnlyIfInstalled" \in D /\ s.cur["stdout"] # "buf"
       THEN <<<<>>, s>>
       ELSE <<s.buf["stdout"] \o s.buf["stderr"],   \* "Stdout:" then "Stderr:"
              [s EXCEPT !.cur = IF "OriginalsAtConfigure" \in D /\ s.rebound
                                THEN [stdout |-> "orig", stderr |-> "pipe"]
                                ELSE Both("orig"),
                        !.buf = IF "NoTruncate" \in D THEN @ ELSE Both(<<>>)]>>
  ELSE <<<<>>, s>>

Hook(s) == [s EXCEPT !.seen = Append(Append(@, s.cur["stdout"]), s.cur["stderr"])]

DoStart(s, on, D) == Arm(Hook([s EXCEPT !.saved = Both("none")]), on)

(* a decorator-skipped test on an interpreter that omits startTest: addSkip  *)
(* runs the hooks itself, reports, and arms the capture                      *)
DoSkipUnstarted(s, on, D) == Arm(Hook([s EXCEPT !.saved = Both("none")]), on)

DoWrite(s, tok, x) ==
  CASE s.cur[x] = "buf" -> [s EXCEPT !.buf[x] = Append(@, tok)]
    [] s.cur[x] = "orig" -> [s EXCEPT !.out = Append(@, <<"T", tok>>)]
    [] OTHER -> s     \* swallowed by the test's own object / the report pipe

DoRedirect(s, x) == [s EXCEPT !.saved[x] = s.cur[x], !.cur[x] = "test"]
DoUnredirect(s, x) == IF s.saved[x] = "none" THEN s
                      ELSE [s EXCEPT !.cur[x] = s.saved[x], !.saved[x] = "none"]

Toks(c) == [k \in 1..Len(c) |-> <<"T", c[k]>>]

DoEvent(s, on, D, t, k) ==
  LET r == Restore(s, on, D)
      s1 == r[2]
  IN IF s1.abort THEN s1
     ELSE IF k \in BadKinds
          THEN [s1 EXCEPT !.out = (@ \o <<<<"H", t>>>>) \o Toks(r[1])]
     ELSE IF k = "S" /\ "SkipLeavesOrig" \notin D THEN Arm(s1, on)
     ELSE s1

DoStop(s, on, D) ==
  LET s1 == IF "StopKeepsBuffer" \in D THEN s ELSE Restore(s, on, D)[2]
  IN Hook(s1)

(* ------------------------------------------------------------------------ *)
(* Environment: every history of NT tests, each an arbitrary interleaving of *)
(* <= MaxW writes, <= MaxE result events (a terminal event is the last one:  *)
(* what stock unittest can produce) and <= MaxR redirections of a stream by  *)
(* the test itself, or a never-started skip.                                 *)
VARIABLES st, n, pc, nw, nr, evs, wr, term, tamp

vars == <<st, n, pc, nw, nr, evs, wr, term, tamp>>

Init == /\ st \in {IF k = "child" THEN S0c ELSE S0 : k \in Starts} /\ n = 0 /\ pc = "idle" /\ nw = 0 /\ nr = 0 /\ term = FALSE
        /\ evs = [t \in 1..NT |-> <<>>]     \* result events of test t
        /\ wr = [t \in 1..NT |-> <<>>]      \* <<tok, dontcare>> written to the runner's streams
        /\ tamp = {}                        \* streams the test put a saved object back into

Start == /\ pc = "idle" /\ n < NT /\ ~st.abort
         /\ n' = n + 1 /\ pc' = "run" /\ nw' = 0 /\ nr' = 0 /\ term' = FALSE
         /\ tamp' = {}
         /\ st' = DoStart(st, Buffer, Deviations)
         /\ UNCHANGED <<evs, wr>>

StartSkipped == /\ pc = "idle" /\ n < NT /\ ~st.abort
                /\ n' = n + 1 /\ pc' = "run" /\ nw' = 0 /\ nr' = 0 /\ term' = TRUE
                /\ tamp' = {}
                /\ st' = DoSkipUnstarted(st, Buffer, Deviations)
                /\ evs' = [evs EXCEPT ![n + 1] = <<"S">>]
                /\ UNCHANGED wr

Write(x) == /\ pc = "run" /\ ~term /\ nw < MaxW /\ ~st.abort
            /\ LET tok == <<n, nw + 1>> IN
                 /\ st' = DoWrite(st, tok, x)
                 /\ wr' = IF st.cur[x] = "test" THEN wr
                          ELSE [wr EXCEPT ![n] = Append(@, <<tok, x \in tamp>>)]
            /\ nw' = nw + 1
            /\ UNCHANGED <<n, pc, nr, evs, term, tamp>>

(* tests only tamper with the streams under --buffer here: without it the    *)
(* runner never touches them and a test that leaves one replaced is its own  *)
(* doing                                                                     *)
Redirect(x) == /\ pc = "run" /\ ~term /\ nr < MaxR /\ ~st.abort /\ Buffer
               /\ st.saved[x] = "none"
               /\ st' = DoRedirect(st, x) /\ nr' = nr + 1
               /\ UNCHANGED <<n, pc, nw, evs, wr, term, tamp>>

Unredirect(x) == /\ pc = "run" /\ ~term /\ ~st.abort /\ st.saved[x] # "none"
                 /\ st' = DoUnredirect(st, x) /\ tamp' = tamp \cup {x}
                 /\ UNCHANGED <<n, pc, nw, nr, evs, wr, term>>

Event(k) == /\ pc = "run" /\ ~term /\ Len(evs[n]) < MaxE /\ ~st.abort
            /\ st' = DoEvent(st, Buffer, Deviations, n, k)
            /\ evs' = [evs EXCEPT ![n] = Append(@, k)]
            /\ term' = (k \in Terminal)
            /\ UNCHANGED <<n, pc, nw, nr, wr, tamp>>

Stop == /\ pc = "run" /\ Len(evs[n]) > 0 /\ ~st.abort
        /\ st' = DoStop(st, Buffer, Deviations)
        /\ pc' = "idle"
        /\ UNCHANGED <<n, nw, nr, evs, wr, term, tamp>>

Next == \/ Start \/ StartSkipped \/ Stop
        \/ \E x \in Streams : Write(x) \/ Redirect(x) \/ Unredirect(x)
        \/ \E k \in Kinds : Event(k)

Spec == Init /\ [][Next]_vars

(* ------------------------------------------------------------------------ *)
(* P-spec: the clauses of the statement, over what an observer sees          *)
IsBadTest(e) == \E k \in 1..Len(e) : e[k] \in BadKinds
HasSkip(e) == \E k \in 1..Len(e) : e[k] = "S"
Occ(o, tok) == {k \in 1..Len(o) : o[k] = <<"T", tok>>}
LastHeader(o, p) ==
  LET hs == {k \in 1..(p - 1) : o[k][1] = "H"}
  IN IF hs = {} THEN 0
     ELSE o[CHOOSE k \in hs : \A j \in hs : j <= k][2]

Finished(t) == t < n \/ (t = n /\ pc = "idle")

(* a passing / skipped / expected-failure test's output never appears *)
NoLeak == Buffer =>
  \A t \in 1..NT : Finished(t) /\ ~IsBadTest(evs[t]) =>
     \A k \in 1..Len(wr[t]) : Occ(st.out, wr[t][k][1]) = {}

(* a failing test's output is shown completely.  Don't-care zones for        *)
(* completeness only (whatever is shown must still be attributed correctly): *)
(* a test that reports both a skip - e.g. a skipped subtest - and a failure  *)
(* (the statement says "skipped: never" and "failing: completely"), and what *)
(* a test writes to a stream after it has itself put a saved stream object   *)
(* back (it decides where that output goes)                                  *)
Complete == Buffer =>
  \A t \in 1..NT : Finished(t) /\ IsBadTest(evs[t]) /\ ~HasSkip(evs[t]) =>
     \A k \in 1..Len(wr[t]) : ~wr[t][k][2] =>
        Cardinality(Occ(st.out, wr[t][k][1])) = 1

(* ... and attributed to that test and to no other *)
Attributed == Buffer =>
  \A p \in 1..Len(st.out) : st.out[p][1] = "T" =>
     /\ LastHeader(st.out, p) = st.out[p][2][1]
     /\ \A q \in 1..Len(st.out) : st.out[q] = st.out[p] => q = p

(* between tests the streams are the original objects *)
Restored == /\ pc = "idle" => st.cur = Both("orig")
            /\ \A k \in 1..Len(st.seen) : st.seen[k] = "orig"

NeverReplaced == ~Buffer => st.cur = Both("orig")

NotAborted == ~st.abort

(* vacuity probes: must be violated (reachability of the interesting cases) *)
ProbeNoBadShown == ~(\E p \in 1..Len(st.out) : st.out[p][1] = "T")
ProbeNoTwoEvents == ~(\E t \in 1..NT : Len(evs[t]) >= 2 /\ IsBadTest(evs[t]))
=============================================================================
