SPECIFICATION Spec
CONSTANTS
  MaxN = 2
  MaxFaults = 1
  MaxTests = 1
  TestKinds = {"good","bad","skipdeco"}
  Repeats = {1,2}
  Stops = {TRUE,FALSE}
  Modes = {"seq","par"}
  HookModes = {"all"}
  Logging = FALSE
  Deviations = {}
CHECK_DEADLOCK FALSE
PROPERTY Termination
