----------------------------- MODULE Trace_Run -----------------------------
(* Batch trace validation of real executions of zope.testrunner against the  *)
(* P-specs of the core run machine (C01 C02 C03 C04 C05 C12 C16).            *)
(*                                                                           *)
(* The file named by $TRACE_FILE holds a JSON array of trace records         *)
(*   [id, w (abstract world), o (abstract options), ev (events), rep]        *)
(* One TLC behaviour per record: Init picks tid, every step consumes one     *)
(* event through the total function Step; after the last event Final is      *)
(* evaluated against the report.  Every clause violated is appended to       *)
(* st.errs (at most one per property family, later clauses of a family that  *)
(* already failed are not evaluated), and one VERDICT line is printed per    *)
(* trace.  The search is linear (out-degree 1).                              *)
EXTENDS Naturals, Integers, Sequences, FiniteSets, TLC, Json, IOUtils,
        LayerStack, Selection, LayerOrder

Traces == JsonDeserialize(IOEnv.TRACE_FILE)
N == Len(Traces)

VARIABLES tid, i, st
vars == <<tid, i, st>>

(* ----- world / option helpers ------------------------------------------- *)
Tests(w) == SeqSet(w.tests)
LayerOf(w, t) == EffLayer(w.decl[t])
LevelOf(w, t) == EffLevel(w.decl[t])

TestAccepted(w, o, t) ==
  /\ Len(o.tpats) = 0 \/ Accept(o.tpats, w.tmatch[t])
  /\ Len(o.mpats) = 0 \/ Accept(o.mpats, w.mmatch[t])

LayerMV(w, l) == IF l = Unit THEN w.umatch ELSE w.lmatch[l]

Selected(w, o) ==
  {t \in Tests(w) : /\ Eligible(o, LevelOf(w, t))
                    /\ TestAccepted(w, o, t)
                    /\ KeepLayer(o, LayerOf(w, t), LayerMV(w, LayerOf(w, t)))}

BadKinds == {"F", "E", "U", "SF", "SE"}
IsBad(w, t) == \E k \in 1..Len(w.ref[t]) : w.ref[t][k] \in BadKinds
CountKind(w, t, K) == Cardinality({k \in 1..Len(w.ref[t]) : w.ref[t][k] \in K})

(* ----- state -------------------------------------------------------------- *)
St0 == [p |-> Proc0,
        pidx |-> 0, role |-> "", resume |-> "",
        cur |-> "", curIt |-> 0,
        seen |-> {},             \* <<t, it>> started anywhere
        order |-> <<>>,          \* the same pairs in start order
        where |-> {},            \* <<layer, pidx>> : a test of layer ran in pidx
        childLayers |-> {},      \* layers handed to a subprocess
        procBad |-> FALSE,       \* a finished test of this process was bad
        procSUFail |-> FALSE,    \* a layer setUp raised in this process
        suFailed |-> {}, tdFailed |-> {}, notimpl |-> {},
        suFails |-> <<>>, tdFails |-> <<>>,   \* every failing hook call, in order
        crashes |-> 0, exits |-> 0, procs |-> 0,
        lookalikes |-> 0,        \* lines on a child's fd 2 that parse as a report header
        spawnFailed |-> 0,       \* Popen raised for a layer subprocess
        reportCut |-> 0,         \* a child's report was cut short / it died writing it
        reportMaybe |-> 0,       \* a child died at a line end that may or may not be the report's last
        parentCant |-> FALSE,
        at |-> 0,                \* index of the event being consumed
        errs |-> <<>>]

(* st.errs is a sequence of <<family, clause>>; a clause is recorded unless it *)
(* is empty or its family (the property id) has already failed.              *)
HasFam(s, f) == \E k \in 1..Len(s.errs) : s.errs[k][1] = f
Note1(s, f, c) == IF c = "" \/ HasFam(s, f) THEN s
                  ELSE [s EXCEPT !.errs = Append(s.errs, <<f, c, s.at>>)]
RECURSIVE NoteAll(_, _)
NoteAll(s, cs) == IF cs = <<>> THEN s
                  ELSE NoteAll(Note1(s, Head(cs)[1], Head(cs)[2]), Tail(cs))
(* end-of-trace clauses are independent of each other: record every one    *)
NoteF(s, f, c) == IF c = "" THEN s
                  ELSE [s EXCEPT !.errs = Append(s.errs, <<f, c, s.at>>)]
RECURSIVE NoteAllF(_, _)
NoteAllF(s, cs) == IF cs = <<>> THEN s
                   ELSE NoteAllF(NoteF(s, Head(cs)[1], Head(cs)[2]), Tail(cs))
C01(c) == <<"C01", c>>
C02(c) == <<"C02", c>>
C03(c) == <<"C03", c>>
C04(c) == <<"C04", c>>
C05(c) == <<"C05", c>>
C12(c) == <<"C12", c>>
C10(c) == <<"C10", c>>
C16(c) == <<"C16", c>>

(* the current test is over (bracket closed or another event proves it) *)
FinishCur(w, s) ==
  IF s.cur = "" THEN s
  ELSE [s EXCEPT !.cur = "", !.curIt = 0,
                 !.procBad = s.procBad \/ IsBad(w, s.cur)]

(* ----- the total step function --------------------------------------------*)
Step(w, o, s, e) ==
  CASE e.e = "PS" ->
         [s EXCEPT !.p = Proc0, !.pidx = s.procs + 1, !.procs = s.procs + 1,
                   !.childLayers = IF e.s = "child" THEN @ \cup {e.l} ELSE @,
                   !.role = e.s, !.resume = e.l, !.cur = "", !.curIt = 0,
                   !.procBad = FALSE, !.procSUFail = FALSE]
    [] e.e = "SUB" ->
         LET s1 == FinishCur(w, s)
             c16 == IF o.stop /\ s1.role = "parent" /\ o.j <= 1
                       /\ (s1.procBad \/ s1.procSUFail)
                    THEN "C16:layer-after-stop" ELSE ""
             b == BrIdle(w, s1.p)
             s2 == NoteAll(s1, <<C01(IF e.x THEN "" ELSE SetUpBeginErr(w, s1.p, e.l)),
                                 C05(b[1]), C16(c16)>>)
         IN [s2 EXCEPT !.p = IF e.x THEN b[2] ELSE SetUpBegin(b[2], e.l)]
    [] e.e = "SUE" ->
         LET s2 == Note1(s, "C01", IF e.x THEN "" ELSE SetUpEndErr(w, s.p, e.l))
         IN [s2 EXCEPT !.p = IF e.x THEN @ ELSE SetUpEnd(s2.p, e.l, e.s),
                       !.suFailed = IF e.s = "ok" THEN @ ELSE @ \cup {e.l},
                       !.suFails = IF e.s = "ok" THEN @ ELSE Append(@, e.l),
                       !.procSUFail = @ \/ e.s # "ok"]
    [] e.e = "TDB" ->
         LET s1 == FinishCur(w, s)
             b == BrIdle(w, s1.p)
             s2 == NoteAll(s1, <<C01(IF e.x THEN "" ELSE TearDownBeginErr(w, s1.p, e.l)),
                                 C05(b[1])>>)
         IN [s2 EXCEPT !.p = IF e.x THEN b[2] ELSE TearDownBegin(b[2], e.l)]
    [] e.e = "TDE" ->
         LET s2 == Note1(s, "C01", IF e.x THEN "" ELSE TearDownEndErr(w, s.p, e.l))
         IN [s2 EXCEPT !.p = IF e.x THEN [@ EXCEPT !.cant = @ \/ e.s = "notimpl"]
                             ELSE TearDownEnd(s2.p, e.l, e.s),
                       !.tdFailed = IF e.s = "raise" THEN @ \cup {e.l} ELSE @,
                       !.tdFails = IF e.s = "raise" THEN Append(@, e.l) ELSE @,
                       !.notimpl = IF e.s = "notimpl" THEN @ \cup {e.l} ELSE @,
                       !.parentCant = @ \/ (e.s = "notimpl" /\ s.role = "parent")]
    [] e.e = "TSU" ->
         \* a testSetUp after a test phase / testTearDown opens the next bracket
         LET s1 == IF Used(s.p) THEN FinishCur(w, s) ELSE s
             b == BrTestSetUp(w, s1.p, e.l)
             s2 == Note1(s1, "C05", b[1])
         IN [s2 EXCEPT !.p = b[2]]
    [] e.e = "TTD" ->
         LET b == BrTestTearDown(w, s.p, e.l)
             s2 == Note1(s, "C05", b[1])
         IN [s2 EXCEPT !.p = b[2]]
    [] e.e = "T" ->
         IF s.cur = e.t /\ s.curIt = e.it
         THEN Note1(s, "C05", SamePhaseErr(s.p))      \* a later phase of the same test
         ELSE
         LET s1 == FinishCur(w, s)
             tl == LayerOf(w, e.t)
             c03 == IF e.t \notin Selected(w, o) THEN "C03:not-selected"
                    ELSE IF e.it > o.repeat THEN "C03:too-many-iterations"
                    ELSE IF <<e.t, e.it>> \in s1.seen THEN "C03:twice"
                    ELSE IF o.list THEN "C03:list-ran-code"
                    ELSE IF s1.role = "child" /\ s1.resume # tl
                         THEN "C03:wrong-process"
                    ELSE ""
             c16 == IF o.stop /\ s1.procBad THEN "C16:test-after-stop" ELSE ""
             b == BrTest(w, s1.p, tl)
             s2 == NoteAll(s1, <<C01(TestStartErr(w, s1.p, tl)), C05(b[1]), C03(c03), C16(c16)>>)
         IN [s2 EXCEPT !.p = b[2], !.cur = e.t, !.curIt = e.it,
                       !.seen = @ \cup {<<e.t, e.it>>},
                       !.order = Append(@, <<e.t, e.it>>),
                       !.where = @ \cup {<<tl, s2.pidx>>}]
    [] e.e = "PX" ->
         LET s1 == FinishCur(w, s)
             b == BrIdle(w, s1.p)
             nghost == b[2].ghosts
             c05g == IF nghost > Cardinality({t \in Selected(w, o) : w.decoSkip[t]}) * o.repeat
                     THEN "C05:hooks-around-no-test" ELSE ""
             s2 == NoteAll(s1, <<C01(ProcEndErr(w, s1.p)), C05(b[1]), C05(c05g)>>)
         IN [s2 EXCEPT !.exits = @ + 1, !.p = b[2]]
    [] e.e = "CRASH" -> [FinishCur(w, s) EXCEPT !.crashes = @ + 1]
    [] e.e = "SP" -> IF e.s = "fail" THEN [s EXCEPT !.spawnFailed = @ + 1] ELSE s
    [] e.e = "LOOK" -> IF s.role = "child" THEN [s EXCEPT !.lookalikes = @ + 1] ELSE s
    \* a report that lost nothing but its final line end has arrived completely
    [] e.e = "CUT" -> IF e.s = "eol" THEN s
                      ELSE IF e.s = "maybe" THEN [s EXCEPT !.reportMaybe = @ + 1]
                      ELSE [s EXCEPT !.reportCut = @ + 1]
    [] OTHER -> s

(* ----- end-of-trace clauses ------------------------------------------------*)
RECURSIVE SumOver(_, _)
SumOver(Op(_), S) ==
  IF S = {} THEN 0
  ELSE LET x == CHOOSE y \in S : TRUE IN Op(x) + SumOver(Op, S \ {x})

CountIn(q, x) == Cardinality({k \in 1..Len(q) : q[k] = x})

FailKinds == {"F", "SF", "U"}
ErrKinds == {"E", "SE"}
SkipKinds == {"S"}

(* what actually happened, from the trace: runs of layer l in iteration it *)
RunsOf(w, s, l, it) == {x \in s.seen : x[2] = it /\ LayerOf(w, x[1]) = l}
DecoSkips(w, o, l) == {t \in Selected(w, o) : w.decoSkip[t] /\ LayerOf(w, t) = l}
KindSum(w, X, K) == SumOver(LAMBDA x : CountKind(w, x[1], K), X)

(* the k-th summary line of the report belongs to layer l, iteration it *)
SummaryIter(r, k) ==
  Cardinality({j \in 1..k : r.summaries[j][1] = r.summaries[k][1]})

SummaryErr(w, o, s, r, k) ==
  LET l == r.summaries[k][1]
      it == SummaryIter(r, k)
      X == RunsOf(w, s, l, it)
      nd == Cardinality(DecoSkips(w, o, l))
      ran == r.summaries[k][2]  f == r.summaries[k][3]
      e == r.summaries[k][4]    sk == r.summaries[k][5]
      lo == Cardinality(X)
      slo == KindSum(w, X, SkipKinds)
  IN IF f # KindSum(w, X, FailKinds) THEN "C12:layer-failures"
     ELSE IF e # KindSum(w, X, ErrKinds) THEN "C12:layer-errors"
     ELSE IF o.stop /\ ~(ran >= lo /\ ran <= lo + nd) THEN "C12:layer-ran"
     ELSE IF ~o.stop /\ ran # lo + nd THEN "C12:layer-ran"
     ELSE IF o.stop /\ ~(sk >= slo /\ sk <= slo + nd) THEN "C12:layer-skipped"
     ELSE IF ~o.stop /\ sk # slo + nd THEN "C12:layer-skipped"
     ELSE ""

FirstSummaryErr(w, o, s, r) ==
  LET bad == {k \in 1..Len(r.summaries) : SummaryErr(w, o, s, r, k) # ""}
  IN IF bad = {} THEN ""
     ELSE SummaryErr(w, o, s, r, CHOOSE k \in bad : \A j \in bad : k <= j)

ListsErr(w, o, s, r) ==
  LET T == {x[1] : x \in s.seen}
      its(t) == {x \in s.seen : x[1] = t}
  IN IF \E t \in T : CountIn(r.failIds, t) # Cardinality(its(t)) * CountKind(w, t, FailKinds)
        THEN "C12:failure-list"
     ELSE IF \E t \in T : CountIn(r.errIds, t) # Cardinality(its(t)) * CountKind(w, t, ErrKinds)
        THEN "C12:error-list"
     ELSE IF \E t \in SeqSet(r.failIds) \cup SeqSet(r.errIds) : t \notin T
        THEN "C12:list-names-test-not-run"
     ELSE IF r.failOther > 0 \/ r.errOther > r.subprocErrs THEN "C12:list-unknown-name"
     ELSE IF Len(r.failLayers) > 0 THEN "C12:layer-in-failure-list"
     \* a failing setUp of a base is reported under the layer being set up
     ELSE IF \/ Cardinality({k \in 1..Len(r.errLayers) : r.errLayers[k][2] = "setUp"})
                  # Len(s.suFails)
             \/ \E k \in 1..Len(r.errLayers) :
                  /\ r.errLayers[k][2] = "setUp"
                  /\ Closure(w.bases, r.errLayers[k][1]) \cap s.suFailed = {}
             \/ \E l \in Layers(w) :
                  CountIn(r.errLayers, <<l, "tearDown">>) # CountIn(s.tdFails, l)
        THEN "C12:layer-failure-list"
     ELSE ""

(* Layers whose closure was set up fine (their tests could run).              *)
LayerRunnable(w, s, l) == Closure(w.bases, l) \cap s.suFailed = {}

TotalsErr(w, o, s, r) ==
  LET RunL == {l \in Layers(w) \cup {Unit} : LayerRunnable(w, s, l)}
      nd == SumOver(LAMBDA l : Cardinality(DecoSkips(w, o, l)), RunL)
      ranAll == Cardinality(s.seen) + nd * o.repeat
      ranLast == Cardinality({x \in s.seen : x[2] = o.repeat}) + nd
      f == KindSum(w, s.seen, FailKinds)
      e == KindSum(w, s.seen, ErrKinds) + Len(s.suFails) + Len(s.tdFails) + s.crashes
      sk == KindSum(w, s.seen, SkipKinds) + nd * o.repeat
      \* the part of sk that arose in the parent process itself
      ParentL == {l \in RunL : <<l, 1>> \in s.where \/ (\A x \in s.where : x[1] # l)}
      \* (a layer all of whose tests are decorator skips leaves no test event:
      \* it ran in the parent unless it was handed to a subprocess)
      ndP == SumOver(LAMBDA l : Cardinality(DecoSkips(w, o, l)),
                     {l \in RunL : l \notin s.childLayers})
      skParent == KindSum(w, {x \in s.seen : <<LayerOf(w, x[1]), 1>> \in s.where}, SkipKinds)
                  + ndP * o.repeat
  IN IF r.total[2] # f THEN "C12:total-failures"
     ELSE IF r.total[3] # e THEN "C12:total-errors"
     ELSE IF r.total[4] # sk THEN
          (IF s.procs > 1 /\ r.total[4] = skParent
           THEN "C12:total-skipped-omits-child-layers" ELSE "C12:total-skipped")
     ELSE IF r.total[1] # ranAll THEN
          (IF o.repeat > 1 /\ r.total[1] = ranLast
           THEN "C12:total-ran-counts-last-iteration-only" ELSE "C12:total-ran")
     ELSE ""

(* Layers whose tests must all have run: selected, closure set up fine, not   *)
(* cut off by --stop-on-error, the run did not crash.                         *)
ExpectedRuns(w, o, s) ==
  {<<t, k>> \in Selected(w, o) \X (1..o.repeat) :
      LayerRunnable(w, s, LayerOf(w, t)) /\ ~w.decoSkip[t]}

AnyBad(w, o, s) ==
  \/ \E x \in s.seen : IsBad(w, x[1])
  \/ s.suFailed # {} \/ s.tdFailed # {}
  \/ s.crashes > 0 \/ w.importFails \/ s.spawnFailed > 0 \/ s.reportCut > 0

Final(w, o, s, r) ==
  LET c04 == IF r.crashed # "" THEN "C04:aborted"
             ELSE IF ~o.list /\ ~r.hasSummary /\ Selected(w, o) # {} /\ s.crashes = 0
                     /\ \E t \in Selected(w, o) : LayerRunnable(w, s, LayerOf(w, t))
                  THEN "C04:no-summary" ELSE ""
      c03 == IF o.list THEN (IF s.seen # {} THEN "C03:list-ran-code" ELSE "")
             ELSE IF o.stop \/ r.crashed # "" \/ s.crashes > 0 THEN ""
             ELSE IF ExpectedRuns(w, o, s) \ s.seen # {} THEN "C03:missing"
             ELSE ""
      c03b == IF \E l \in Layers(w) \cup {Unit} :
                    Cardinality({x \in s.where : x[1] = l}) > 1
              THEN "C03:layer-in-two-processes" ELSE ""
      c01 == IF s.parentCant /\ \E a, b \in s.where :
                        a[1] # b[1] /\ a[2] = b[2] /\ a[2] # 1
                  THEN "C01:resume-not-fresh"
             ELSE ""
      c02 == IF o.list THEN ""
             ELSE IF r.failed /\ ~AnyBad(w, o, s) /\ s.reportMaybe > 0 THEN ""
             ELSE IF r.failed # AnyBad(w, o, s) THEN
                  \* the numbers of a header look-alike are taken for the child's: its
                  \* failures are lost, or it announces failures that never happened
                  (IF s.lookalikes > 0
                   THEN (IF r.failed THEN "C02:failed-after-header-lookalike-on-child-fd2"
                         ELSE "C02:passed-after-header-lookalike-on-child-fd2")
                   ELSE "C02:verdict")
             ELSE ""
      c16 == IF o.stop /\ AnyBad(w, o, s) /\ ~o.list
                /\ (~r.failed \/ (~r.hasSummary /\ s.seen # {}))
             THEN "C16:verdict" ELSE ""
      quiet == o.list \/ r.crashed # "" \/ w.importFails
      c04b == IF quiet \/ o.verbose = 0 THEN ""
              ELSE IF \E l \in s.suFailed :
                        ~\E k \in 1..Len(r.errLayers) :
                            /\ r.errLayers[k][2] = "setUp"
                            /\ l \in Closure(w.bases, r.errLayers[k][1])
                   THEN "C04:layer-setUp-fault-not-recorded"
              ELSE IF \E l \in s.tdFailed : CountIn(r.errLayers, <<l, "tearDown">>) = 0
                   THEN "C04:layer-tearDown-fault-not-recorded"
              ELSE IF \E x \in s.seen : IsBad(w, x[1]) /\ x[1] \notin SeqSet(r.failIds) \cup SeqSet(r.errIds)
                   THEN "C04:test-fault-not-recorded"
              ELSE ""
      c12a == IF quiet THEN "" ELSE FirstSummaryErr(w, o, s, r)
      c12b == IF quiet \/ o.verbose = 0 THEN "" ELSE ListsErr(w, o, s, r)
      c12c == IF quiet \/ ~r.hasTotal \/ o.stop THEN "" ELSE TotalsErr(w, o, s, r)
      \* the same world run in another execution mode (in-process, -j N,
      \* resumed children): same totals, same verdict, same lists (as bags)
      PeerOK(p) == p.crashed = "" /\ r.crashed = ""
      \* how often a layer hook fails legitimately depends on how often the
      \* mode sets the layer up: compare the totals net of layer faults
      NetTotal(t, lf) == <<t[1], t[2], t[3] - lf, t[4]>>
      c12d == IF quiet \/ o.stop THEN ""
              ELSE IF \E k \in 1..Len(r.peers) :
                        /\ PeerOK(r.peers[k]) /\ r.hasTotal /\ r.peers[k].hasTotal
                        /\ NetTotal(r.peers[k].total, r.peers[k].layerFaults)
                             # NetTotal(r.total, Len(s.suFails) + Len(s.tdFails))
                   THEN (IF \A k \in 1..Len(r.peers) :
                              (PeerOK(r.peers[k]) /\ r.peers[k].hasTotal) =>
                                 \A j \in 1..3 :
                                    NetTotal(r.peers[k].total, r.peers[k].layerFaults)[j]
                                    = NetTotal(r.total, Len(s.suFails) + Len(s.tdFails))[j]
                         THEN "C12:modes-totals-differ-in-skipped"
                         ELSE "C12:modes-totals-differ")
              ELSE IF \E k \in 1..Len(r.peers) :
                        /\ PeerOK(r.peers[k]) /\ o.verbose > 0 /\ r.peers[k].hasLists
                        /\ \/ \E t \in Tests(w) : CountIn(r.failIds, t) # CountIn(r.peers[k].failBag, t)
                           \/ \E t \in Tests(w) : CountIn(r.errIds, t) # CountIn(r.peers[k].errBag, t)
                   THEN "C12:modes-lists-differ"
              ELSE ""
      \* --list-tests: precisely the selected set, per layer, each once
      ListedOf(lst, l) ==
        LET idx == {k \in 1..Len(lst) : lst[k][1] = l}
        IN IF idx = {} THEN <<>> ELSE lst[CHOOSE k \in idx : TRUE][2]
      AllL == Layers(w) \cup {Unit}
      c03l == IF ~o.list \/ r.crashed # "" \/ w.importFails THEN ""
              ELSE IF r.listUnknown > 0 THEN "C03:list-unknown-name"
              ELSE IF \E a, b \in 1..Len(r.listing) : a # b /\ r.listing[a][1] = r.listing[b][1]
                   THEN "C03:list-layer-twice"
              ELSE IF \E l \in AllL :
                        SeqSet(ListedOf(r.listing, l)) # {t \in Selected(w, o) : LayerOf(w, t) = l}
                   THEN "C03:list-set"
              ELSE IF \E l \in AllL : ~NoDup(ListedOf(r.listing, l)) THEN "C03:list-twice"
              ELSE ""
      \* a run executes each layer's tests in the order the listing shows
      \* (tests that execute no code - decorator skips - are not observable)
      OwnOrder(l, it) == SelectSeq(s.order, LAMBDA x : x[2] = it /\ LayerOf(w, x[1]) = l)
      Obs(q) == SelectSeq(q, LAMBDA t : ~w.decoSkip[t])
      c03m == IF o.list \/ o.stop \/ r.crashed # "" \/ s.crashes > 0 \/ s.suFailed # {} THEN ""
              ELSE IF \E k \in 1..Len(r.peers) : r.peers[k].isList /\ r.peers[k].crashed = "" /\
                        \E l \in AllL : \E it \in 1..o.repeat :
                           [j \in 1..Len(OwnOrder(l, it)) |-> OwnOrder(l, it)[j][1]]
                             # Obs(ListedOf(r.peers[k].listing, l))
                   THEN "C03:list-order-differs-from-run"
              ELSE IF \E k \in 1..Len(r.peers) : ~r.peers[k].isList /\ PeerOK(r.peers[k]) /\
                        {<<r.peers[k].execPairs[j][1], r.peers[k].execPairs[j][2]>> :
                             j \in 1..Len(r.peers[k].execPairs)} # s.seen
                   THEN "C03:modes-execute-different-tests"
              ELSE ""
      \* C10: the layers of a sequential run appear once each, unit layer
      \* first, never before one of their bases that also has tests
      RunLayers == {LayerOf(w, t) : t \in Selected(w, o)}
      c10 == IF o.list \/ o.stop \/ r.crashed # "" \/ w.importFails THEN ""
             \* layers in subprocesses: each of the world's layers still appears as one group
             ELSE IF o.j > 1 \/ s.procs > 1
                  THEN (IF ~NoDup(SelectSeq(r.layers, LAMBDA l : l \in Layers(w) \cup {Unit}))
                        THEN "C10:layer-run-twice" ELSE "")
             ELSE IF ~NoDup(r.layers) THEN "C10:layer-run-twice"
             ELSE IF SeqSet(r.layers) # RunLayers THEN "C10:layers-run-differ-from-selected"
             ELSE IF ~TopoSeq(w.bases, r.layers) THEN "C10:layer-before-its-base"
             ELSE IF Unit \in RunLayers /\ r.layers[1] # Unit THEN "C10:unit-layer-not-first"
             ELSE ""
      c02b == IF o.list THEN ""
              \* (a peer fooled by a header look-alike reports that known finding itself)
              ELSE IF s.lookalikes > 0 THEN ""
              ELSE IF \E k \in 1..Len(r.peers) : PeerOK(r.peers[k]) /\ r.peers[k].failed # r.failed
                                                   /\ r.peers[k].lookalikes = 0
                   THEN "C02:modes-verdict-differs" ELSE ""
  IN NoteAllF(s, <<C04(c04), C04(c04b), C03(c03), C03(c03b), C03(c03l), C03(c03m), C01(c01), C02(c02), C02(c02b),
                  C10(c10), C16(c16), C12(c12a), C12(c12b), C12(c12c), C12(c12d)>>)

(* ----- behaviour -----------------------------------------------------------*)
Ev(t) == Traces[t].ev

Init == /\ tid \in 1..N
        /\ i = 1
        /\ st = St0

Next == \/ /\ i <= Len(Ev(tid))
           /\ st' = Step(Traces[tid].w, Traces[tid].o, [st EXCEPT !.at = i], Ev(tid)[i])
           /\ i' = i + 1
           /\ UNCHANGED tid
        \/ /\ i = Len(Ev(tid)) + 1
           /\ st' = Final(Traces[tid].w, Traces[tid].o, [st EXCEPT !.at = i], Traces[tid].rep)
           /\ i' = i + 1
           /\ UNCHANGED tid

Spec == Init /\ [][Next]_vars

Done == i = Len(Ev(tid)) + 2
Report == Done => PrintT(<<"VERDICT", Traces[tid].id, st.errs, i>>)
=============================================================================
