------------------------------ MODULE Discovery ------------------------------
(* C14 (test-module discovery) and C15 (stale-bytecode cleanup): both are    *)
(* walks over a directory tree.                                              *)
(*                                                                           *)
(* A tree T is a record:                                                     *)
(*   entries : id -> [parent (id, "" for a search root's own level), name,   *)
(*                    kind ("file" | "dir"), link]; ids are opaque strings;  *)
(*             link (lstat fact): the directory is a symbolic link - it      *)
(*             counts as a directory with the target's content; a symbolic   *)
(*             link to a file is a file of its directory                     *)
(*   names   : name -> facts about the *spelling* of that name, measured in  *)
(*             Python (TLA+ never computes on strings):                      *)
(*       ident    re '[_a-z]\w*$' (ignore case) matches      (find.identifier)*)
(*       ignF     name in {.git, node_modules, __pycache__}  (IGNORE_FOLDERS)*)
(*       ignD     name in options.ignore_dir                                 *)
(*       tdir     tests_pattern(name)            (a directory of tests)      *)
(*       py       name ends with ".py"                                       *)
(*       cext     name ends with the compiled extension this interpreter     *)
(*                accepts under --usecompiled (".pyc"; ".pyo" under -O)      *)
(*       stemT    tests_pattern(name without its ".py" / compiled extension) *)
(*       stemF    test_file_pattern(name without that extension)             *)
(*       init     name = "__init__.py"                                       *)
(*       initc    name = "__init__" + the compiled extension of cext         *)
(*       comp     name[-4:] in {".pyc", ".pyo"}                              *)
(*       sib      the name with its last character removed (x.pyc -> x.py)   *)
(*       pyc      name = "__pycache__"                                       *)
(*       rank     position of the name in Python's sorted() of all names     *)
(*   roots   : sequence of directory ids given as --path / --test-path (in    *)
(*             order; "" is the top directory): they name the modules;       *)
(*   rootPkg : the package each root stands for ("" except --package-path),  *)
(*   walk / walkPkg : the directories walked - the roots, or with --package the *)
(*             package directories; walkT[i]: tests_pattern matches the      *)
(*             walked directory's own name                                   *)
(*   usecompiled : --usecompiled given ("compiled Python files can be used   *)
(*             instead: a directory containing __init__.pyc is also a        *)
(*             package, and if XYZ.py is absent while XYZ.pyc exists the     *)
(*             compiled file is used"); keep : -k or --usecompiled            *)
(* I-spec = transcription of find_test_files_ / walk_with_symlinks /         *)
(* find_test_files / find_suites / remove_stale_bytecode.                    *)
EXTENDS Naturals, Sequences, FiniteSets, SequencesExt, FiniteSetsExt, Filter

Ids(T) == DOMAIN T.entries
E(T, x) == T.entries[x]
NF(T, x) == T.names[E(T, x).name]
Kids(T, d, kind) == {x \in Ids(T) : E(T, x).parent = d /\ E(T, x).kind = kind}
ByRank(T, S) == SetToSortSeq(S, LAMBDA a, b : NF(T, a).rank < NF(T, b).rank)

(* ---- C14: find_test_files_ -------------------------------------------- *)
(* directories os.walk descends into after both prunings *)
Descend(T, d) == {x \in Kids(T, d, "dir") : ~NF(T, x).ignD /\ NF(T, x).ident /\ ~NF(T, x).ignF}

(* x.py beside x.pyc / x.pyo (only regular files count) *)
HasSibling(T, f) == \E g \in Kids(T, E(T, f).parent, "file") : E(T, g).name = NF(T, f).sib

(* --usecompiled: a compiled file may stand in for a module's source.  One    *)
(* module is one test module: where the source is present it is the file     *)
(* that counts and the compiled file beside it is not a second candidate.    *)
Candidate(T, f) == \/ NF(T, f).py
                   \/ T.usecompiled /\ NF(T, f).cext /\ ~HasSibling(T, f)
HasInit(T, d) == \E f \in Kids(T, d, "file") : NF(T, f).init \/ (T.usecompiled /\ NF(T, f).initc)

IsTestsDir(T, d, rootIdx) ==
  /\ IF d = T.walk[rootIdx] THEN T.walkT[rootIdx] ELSE NF(T, d).tdir
  /\ HasInit(T, d)

(* no condition on the spelling of a FILE's stem beyond the two patterns:    *)
(* tests/test-api.py is a test module (identifier names are asked of         *)
(* directories only)                                                         *)
FilesFound(T, d, rootIdx) ==
  LET td == IsTestsDir(T, d, rootIdx)
  IN ByRank(T, {f \in Kids(T, d, "file") :
                  /\ Candidate(T, f)
                  /\ \/ NF(T, f).stemT
                     \/ (td /\ NF(T, f).stemF)})

(* a symlinked directory is subject to the same three conditions as any      *)
(* other (its NAME decides, not where it leads); the walk visits a           *)
(* directory's files, then its symlinked sub-directories, then the others,   *)
(* each group in sorted order (walk_with_symlinks follows the links itself   *)
(* before os.walk goes on)                                                   *)
RECURSIVE Walk(_, _, _)
Walk(T, d, rootIdx) ==
  LET ds == Descend(T, d)
      subs == ByRank(T, {x \in ds : E(T, x).link}) \o ByRank(T, {x \in ds : ~E(T, x).link})
  IN FilesFound(T, d, rootIdx) \o FlattenSeq([k \in 1..Len(subs) |-> Walk(T, subs[k], rootIdx)])

RECURSIVE Dedup(_, _, _)
Dedup(s, k, seen) == IF k > Len(s) THEN <<>>
                     ELSE IF s[k] \in seen THEN Dedup(s, k + 1, seen)
                     ELSE <<s[k]>> \o Dedup(s, k + 1, seen \cup {s[k]})

(* find_test_files: every search root walked in order, de-duplicated by path *)
(* (the path alone: a file reached through a plain search path and through a *)
(* --package-path entry is still one file)                                   *)
(* W = Walks(T) is handed down so that it is evaluated once per tree (built   *)
(* by concatenation: TLC keeps [i \in S |-> e] unevaluated and would walk     *)
(* again at every W[i])                                                       *)
RECURSIVE WalksFrom(_, _)
WalksFrom(T, i) == IF i > Len(T.walk) THEN <<>> ELSE <<Walk(T, T.walk[i], i)>> \o WalksFrom(T, i + 1)
Walks(T) == WalksFrom(T, 1)
FoundIn(W) == Dedup(FlattenSeq(W), 1, {})
Found(T) == FoundIn(Walks(T))
(* the walk that yielded the file first decides its package ("" for --path /  *)
(* --test-path entries, the given name for --package-path entries)            *)
FoundVia(W, f) == LET S == {i \in 1..Len(W) : \E k \in 1..Len(W[i]) : W[i][k] = f}
                  IN CHOOSE i \in S : \A j \in S : i <= j
PkgOf(T, W, f) == T.walkPkg[FoundVia(W, f)]

(* find_suites: module name by the longest search-root prefix (an            *)
(* environment fact gives, per file and root, whether --module accepts the   *)
(* dotted name relative to that root); the filter is applied before import   *)
RECURSIVE Depth(_, _)
Depth(T, x) == IF x = "" THEN 0 ELSE 1 + Depth(T, E(T, x).parent)
RECURSIVE Under(_, _, _)
Under(T, x, r) == IF x = r THEN TRUE ELSE IF x = "" THEN FALSE ELSE Under(T, E(T, x).parent, r)
NamingRoot(T, W, f) ==
  LET pk == PkgOf(T, W, f)
      cands == {i \in 1..Len(T.roots) : Under(T, E(T, f).parent, T.roots[i]) /\ T.rootPkg[i] = pk}
  IN CHOOSE i \in cands : \A j \in cands : Depth(T, T.roots[j]) <= Depth(T, T.roots[i])
(* T.mpats = the --module list (signs), T.mmatch[f][r] = which patterns are    *)
(* found in f's dotted name relative to root r                                *)
AcceptedAs(T, f, r) == Len(T.mpats) = 0 \/ Accept(T.mpats, T.mmatch[f][r])
(* P-level: with overlapping search roots a file has one dotted name per root *)
(* above it.  A file whose longest-prefix name is accepted must be imported; *)
(* a file none of whose names is accepted must not be (the statement does    *)
(* not say which name counts, so the zone in between is a don't-care)        *)
Accepted(T, W, f) == AcceptedAs(T, f, T.roots[NamingRoot(T, W, f)])
AcceptedAny(T, W, f) == LET pk == PkgOf(T, W, f)
                        IN \E i \in 1..Len(T.roots) :
                           /\ Under(T, E(T, f).parent, T.roots[i]) /\ T.rootPkg[i] = pk
                           /\ AcceptedAs(T, f, T.roots[i])
(* I-spec: find_suites tries the prefixes longest first and imports the file *)
(* under the first name the --module filter accepts                          *)
Imported(T) == LET W == Walks(T) IN SelectSeq(FoundIn(W), LAMBDA f : AcceptedAny(T, W, f))
MustImport(T) == LET W == Walks(T) IN SelectSeq(FoundIn(W), LAMBDA f : Accepted(T, W, f))

(* sanity properties of the definition itself (checked by TLC on a family)  *)
NoDup(s) == \A a, b \in 1..Len(s) : a # b => s[a] # s[b]
(* "each is loaded once": no module is found both as source and as compiled  *)
(* file (two files, one module name)                                         *)
OneFilePerModule(T, s) == \A a, b \in 1..Len(s) :
   ~(E(T, s[a]).parent = E(T, s[b]).parent /\ NF(T, s[a]).sib = E(T, s[b]).name)

(* ---- C15: remove_stale_bytecode ------------------------------------------*)
(* directories the cleanup walk enters: only --ignore_dir and __pycache__    *)
(* prune (no identifier test there)                                          *)
RECURSIVE CleanDirs(_, _)
CleanDirs(T, d) ==
  {d} \cup UNION {CleanDirs(T, x) : x \in {y \in Kids(T, d, "dir") : ~NF(T, y).ignD /\ ~NF(T, y).pyc}}
Searched(T) == UNION {CleanDirs(T, T.roots[i]) : i \in 1..Len(T.roots)}

IsOrphan(T, f) == E(T, f).kind = "file" /\ NF(T, f).comp /\ ~HasSibling(T, f)

(* what the code removes (I-spec) and the safety envelope of the statement  *)
OrphansAll(T) == LET sr == Searched(T)
                 IN {f \in Ids(T) : E(T, f).parent \in sr /\ IsOrphan(T, f)}
Removed(T) == IF T.keep THEN {} ELSE OrphansAll(T)
(* completeness is only demanded where the statement is unambiguous: orphans *)
(* reached through identifier-named, not otherwise ignored directories, and  *)
(* with a real stem (a file literally named ".pyc" is a look-alike)          *)
RECURSIVE CoreDirs(_, _)
CoreDirs(T, d) ==
  {d} \cup UNION {CoreDirs(T, x) : x \in {y \in Kids(T, d, "dir") :
                     ~NF(T, y).ignD /\ ~NF(T, y).pyc /\ NF(T, y).ident /\ ~NF(T, y).ignF}}
OrphansCore(T) == LET cd == UNION {CoreDirs(T, T.roots[i]) : i \in 1..Len(T.roots)}
                  IN {f \in OrphansAll(T) : E(T, f).parent \in cd /\ ~NF(T, f).bare}
=============================================================================
