CONSTANTS K = 2 M = 2 Deviations = {"SkippedNotTransferred"}
SPECIFICATION Spec
INVARIANT VerdictExact
INVARIANT ModesAgree
INVARIANT SkippedAgree
INVARIANT OnceEach
CHECK_DEADLOCK FALSE
