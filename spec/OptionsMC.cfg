CONSTANTS MaxArgs = 3 MaxDefs = 1 Dev = {}
SPECIFICATION Spec
INVARIANT PipelineIsNormalize
INVARIANT Clauses
INVARIANT UnitSwitches
INVARIANT LevelSwitches
PROPERTY Terminates
CHECK_DEADLOCK FALSE
