CONSTANTS NTests = 2 Deviations = {"RestoreOnlyOwnBuffer"} PreChoices = {"none"}
CONSTANTS OptUniverse = {"gc", "G", "coverage", "profile", "buffer", "warnings", "D", "x"}
CONSTANTS PreDebugChoices = {{}} GChoices = {{"DEBUG_UNCOLLECTABLE"}} V4Choices = {TRUE}
CONSTANTS NestChoices = {FALSE} InnerOptUniverse = {} InnerEndings = {} MaxNest = 0
SPECIFICATION Spec
INVARIANT Restored
INVARIANT HooksRestored
INVARIANT MidAsPredicted
CHECK_DEADLOCK FALSE
