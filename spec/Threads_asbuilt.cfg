CONSTANTS NT = 3 NTh = 3 NI = 3 ReuseIdents = TRUE Deviations = {} MaxOps = 3 Apis = {"threading", "lowlevel"}
SPECIFICATION Spec
INVARIANT Precise
CHECK_DEADLOCK FALSE
