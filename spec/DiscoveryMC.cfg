SPECIFICATION Spec
INVARIANT Sane
CHECK_DEADLOCK FALSE
