----------------------------- MODULE Families -----------------------------
(* World families defined in TLA+ and exported by TLC itself, so that the    *)
(* set that is model-checked and the set that is materialised on disk are    *)
(* the same set (DESIGN.md 2.2).                                             *)
(*                                                                           *)
(* A layer graph on n nodes is  g : 1..n -> Seq(1..n)  where g[i] lists the  *)
(* bases of node i in declaration order, all smaller than i (a DAG by        *)
(* construction; every DAG has such a numbering), without repetition         *)
(* (Python rejects duplicate bases).                                         *)
EXTENDS Naturals, Sequences, FiniteSets, TLC, Json, IOUtils, SequencesExt,
        GraphFamily

CONSTANT MaxN

AllGraphs == UNION {GraphsOn(n) : n \in 0..MaxN}

ASSUME Export ==
  JsonSerialize(IOEnv.OUT, SetToSeq({[n |-> Len(g), bases |-> g] : g \in AllGraphs}))
=============================================================================
