CONSTANTS NT = 3 NTh = 3 NI = 3 ReuseIdents = TRUE Deviations = {"SnapshotKeepsEnded"} MaxOps = 3 Apis = {"threading"}
SPECIFICATION Spec
INVARIANT Precise
CHECK_DEADLOCK FALSE
