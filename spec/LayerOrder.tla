----------------------------- MODULE LayerOrder -----------------------------
(* C10.  Transcription of runner.py's layer ordering code (I-spec):          *)
(*   gather_layers  - pre-order walk over __bases__ (with repetitions)       *)
(*   layer_sort_key - reverse-bases traversal with a seen-set, names as key  *)
(*   order_by_bases - stable descending sort by key, gather all, reverse,    *)
(*                    de-duplicate keeping first, keep requested layers      *)
(* and the P-spec  ValidOrder:  a permutation of the requested layers that   *)
(* puts the unit layer first and never a layer before one of its ancestors.  *)
(*                                                                           *)
(* Layers are strings; bases : layer -> Seq(layer).  The unit-test layer is  *)
(* handled like the code does: it is an ordinary root layer whose name is    *)
(* dropped from every sort key (so its own key is the empty tuple).          *)
(* rank : layer -> Nat is the environment fact "position of the layer's      *)
(* dotted name in sorted order" (strings are never compared in TLA+).        *)
EXTENDS Naturals, Sequences, FiniteSets, SequencesExt, LayerGraph

RECURSIVE Gather(_, _)
Gather(bases, l) ==
  <<l>> \o FlattenSeq([k \in 1..Len(bases[l]) |-> Gather(bases, bases[l][k])])

(* returns <<seen, key>> *)
RECURSIVE KeyWalk(_, _, _, _)
KeyWalk(bases, l, seen, key) ==
  LET bs == Reverse(bases[l])
      RECURSIVE Loop(_, _, _)
      Loop(k, sn, ky) ==
        IF k > Len(bs) THEN <<sn, ky>>
        ELSE IF bs[k] \in sn THEN Loop(k + 1, sn, ky)
        ELSE LET r == KeyWalk(bases, bs[k], sn, ky) IN Loop(k + 1, r[1], r[2])
      r2 == Loop(1, seen \cup {l}, key)
  IN <<r2[1], Append(r2[2], l)>>

(* the key as a tuple of ranks; unitL (or "" when absent) is filtered out *)
SortKey(bases, rank, unitL, l) ==
  LET k == SelectSeq(KeyWalk(bases, l, {}, <<>>)[2], LAMBDA x : x # unitL)
  IN [j \in 1..Len(k) |-> rank[k[j]]]

RECURSIVE LexLess(_, _)
LexLess(a, b) ==
  IF a = <<>> THEN b # <<>>
  ELSE IF b = <<>> THEN FALSE
  ELSE IF a[1] < b[1] THEN TRUE
  ELSE IF a[1] > b[1] THEN FALSE
  ELSE LexLess(Tail(a), Tail(b))

(* stable insertion sort, descending by key (sorted(..., reverse=True) keeps *)
(* the original relative order of equal keys)                                *)
RECURSIVE SortDesc(_, _, _, _)
SortDesc(bases, rank, unitL, s) ==
  IF s = <<>> THEN <<>>
  ELSE LET rest == SortDesc(bases, rank, unitL, SubSeq(s, 1, Len(s) - 1))
       IN \* insert the LAST element after the equal ones => stable
          LET x == s[Len(s)]
              RECURSIVE Ins(_)
              Ins(r) == IF r = <<>> THEN <<x>>
                        ELSE IF LexLess(SortKey(bases, rank, unitL, Head(r)),
                                        SortKey(bases, rank, unitL, x))
                             THEN <<x>> \o r
                             ELSE <<Head(r)>> \o Ins(Tail(r))
          IN Ins(rest)

OrderByBases(bases, rank, unitL, req) ==
  LET sorted == SortDesc(bases, rank, unitL, req)
      gathered == Reverse(FlattenSeq([k \in 1..Len(sorted) |-> Gather(bases, sorted[k])]))
      RECURSIVE Dedup(_, _, _)
      Dedup(k, seen, acc) ==
        IF k > Len(gathered) THEN acc
        ELSE IF gathered[k] \in seen THEN Dedup(k + 1, seen, acc)
        ELSE Dedup(k + 1, seen \cup {gathered[k]},
                   IF gathered[k] \in SeqSet(req) THEN Append(acc, gathered[k])
                   ELSE acc)
  IN Dedup(1, {}, <<>>)

(* ----- P-spec -------------------------------------------------------------*)
ValidOrder(bases, unitL, S, ord) ==
  /\ SeqSet(ord) = S
  /\ Len(ord) = Cardinality(S)
  /\ TopoSeq(bases, ord)
  /\ (unitL \in S => ord[1] = unitL)
=============================================================================
