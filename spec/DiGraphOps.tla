----------------------------- MODULE DiGraphOps -----------------------------
(* C20, shared by the model of the DiGraph API (DiGraphApi.tla) and by the   *)
(* conformance module (Trace_Scc.tla); constant-free.                        *)
(*                                                                           *)
(* (1) The abstract graph a DiGraph object holds, as its documented mutators *)
(*     build it.  A graph value is [nodes |-> set, succ |-> function] with   *)
(*     succ defined on a fixed label universe U, succ[x] \subseteq nodes and *)
(*     succ[x] = {} for x outside nodes.                                     *)
(*       add_nodes(chunk)          the chunk joins the nodes                 *)
(*       add_neighbors(node, nbs)  (ignore_unknown=True, the default)        *)
(*                                 "unknown nodes in neighbors are ignored": *)
(*                                 unknown means unknown at the time of the  *)
(*                                 call; for an unknown node nothing happens *)
(* (2) The judgement of ONE answer of sccs(trivial) against SccOracle for    *)
(*     the graph as it is at the moment of the query.  sccs is a generator:  *)
(*     an answer is the sequence of components taken from it so far plus the *)
(*     fact whether the generator was seen to end (exhausted).               *)
EXTENDS Naturals, Sequences, FiniteSets, SccOracle

EmptyGraph(U) == [nodes |-> {}, succ |-> [x \in U |-> {}]]

AddNodes(g, chunk) == [g EXCEPT !.nodes = @ \cup chunk]

AddNeighbors(g, n, nbs) ==
  IF n \notin g.nodes THEN g
  ELSE [g EXCEPT !.succ[n] = @ \cup (nbs \cap g.nodes)]

GraphOk(U, g) ==
  /\ g.nodes \subseteq U
  /\ DOMAIN g.succ = U
  /\ \A x \in U : g.succ[x] \subseteq g.nodes
  /\ \A x \in U \ g.nodes : g.succ[x] = {}

(* ys : the components taken from the generator, in order, as sets.         *)
(* Clauses (names as in Trace_Scc):                                          *)
(*   wrong-class   something yielded is not a mutual-reachability class      *)
(*   twice         a class yielded twice                                     *)
(*   exhausted answers must be exactly Expected:                             *)
(*     not-partition (all components asked for) / cycle-missed /             *)
(*     acyclic-component-reported (default mode)                             *)
(*   an answer taken only partially must be a duplicate-free part of it.     *)
JudgeAnswer(Nodes, Succ, trivial, ys, exhausted) ==
  LET Y == {ys[i] : i \in 1..Len(ys)}
      Cs == Components(Nodes, Succ)          \* evaluated once per answer
      E == ExpectedOf(Cs, Succ, trivial)     \* = Expected(Nodes, Succ, trivial)
  IN IF \E i \in 1..Len(ys) : ys[i] \notin Cs THEN "C20:wrong-class"
     ELSE IF Len(ys) # Cardinality(Y) THEN "C20:twice"
     ELSE IF exhausted /\ Y # E THEN
          (IF trivial THEN "C20:not-partition"
           ELSE IF \E C \in Y : ~Cyclic(Succ, C) THEN "C20:acyclic-component-reported"
           ELSE "C20:cycle-missed")
     ELSE IF ~exhausted /\ ~(Y \subseteq E) THEN "C20:acyclic-component-reported"
     ELSE ""
=============================================================================
