--------------------------- MODULE Trace_Channel ---------------------------
(* C07 conformance.  One record per real run of a world whose only layer     *)
(* runs in a subprocess:                                                     *)
(*   fate     what really happened to the child, from its own event log:     *)
(*            "completed" (it wrote its whole report and exited), "died"     *)
(*            (Crash event / no exit event), "cut" (its report lost bytes),  *)
(*            "spawnfail" (Popen raised)                                     *)
(*   started / decoSkipped  tests that ran / could not start in the child    *)
(*   expFail / expErr  per test id how many failure-kind / error-kind result *)
(*            events stock unittest delivers for it (tests that ran)         *)
(*   lookalike  a line reading as three integers went to the child's fd 2    *)
(*   obs      the parent: timedOut, failed, total = <<ran, f, e, s>>, the    *)
(*            two name lists resolved to test ids (failIds / errIds, bags as *)
(*            sequences), names resolving to nothing (failOther / errOther), *)
(*            subprocErrs = "subprocess for <layer>" entries                 *)
(* P-spec = Channel!CompleteIsExact / FaultIsError / NoHang on observations. *)
EXTENDS Naturals, Sequences, FiniteSets, TLC, Json, IOUtils, SequencesExt

Recs == JsonDeserialize(IOEnv.TRACE_FILE)
VARIABLE k
Init == k \in 1..Len(Recs)
Next == UNCHANGED k
Spec == Init /\ [][Next]_k

CountIn(s, x) == Cardinality({j \in 1..Len(s) : s[j] = x})
BagEq(s, exp) ==      \* exp: record id -> count (ids with count 0 may be absent from s)
  /\ \A x \in DOMAIN exp : CountIn(s, x) = exp[x]
  /\ \A j \in 1..Len(s) : s[j] \in DOMAIN exp

Verdict(r) ==
  LET o == r.obs
      lk == IF r.lookalike THEN "header-lookalike-on-child-fd2" ELSE ""
  IN IF o.timedOut THEN <<"C07:hang", r.fate>>
     ELSE IF o.crashed # "" THEN <<"C07:parent-aborted", o.crashed>>
     ELSE IF r.fate = "completed"
     THEN IF o.subprocErrs > 0 THEN <<"C07:spurious-error", lk>>
          ELSE IF ~(o.total[1] >= r.started /\ o.total[1] <= r.started + r.decoSkipped)
               THEN <<"C07:ran", lk>>
          ELSE IF ~BagEq(o.failIds, r.expFail) \/ ~BagEq(o.errIds, r.expErr)
                  \/ o.failOther > 0 \/ o.errOther > 0
               THEN <<IF \E x \in DOMAIN r.expFail : CountIn(o.failIds, x) < r.expFail[x]
                         THEN "C07:lost"
                      ELSE IF \E x \in DOMAIN r.expErr : CountIn(o.errIds, x) < r.expErr[x]
                         THEN "C07:lost" ELSE "C07:invented",
                      IF r.lookalike THEN "header-lookalike-on-child-fd2" ELSE r.spelling>>
          ELSE IF o.total[2] # Len(o.failIds) \/ o.total[3] # Len(o.errIds)
               THEN <<"C07:counts", IF r.lookalike THEN "header-lookalike-on-child-fd2" ELSE "">>
          ELSE <<"", "">>
     ELSE  \* died / cut / spawnfail: an error for the layer, nothing partial
          IF o.subprocErrs = 0 THEN <<"C07:fault-not-recorded", r.fate>>
          ELSE IF o.subprocErrs > 1 THEN <<"C07:fault-recorded-twice", r.fate>>
          ELSE IF Len(o.failIds) > 0 \/ Len(o.errIds) > 0 \/ o.failOther > 0
                  \/ o.errOther > 1      \* the subprocess entry itself resolves to nothing
               THEN <<"C07:partial-trusted", r.fate>>
          ELSE IF ~o.failed THEN <<"C07:fault-not-failed", r.fate>>
          ELSE <<"", "">>

Report == LET v == Verdict(Recs[k]) IN PrintT(<<"CHAN", Recs[k].id, v[1], v[2]>>)
=============================================================================
