--------------------------- MODULE FilterLemmas ---------------------------
(* C08: the corollaries of the acceptance predicate, for pattern lists of  *)
(* ANY length (TLAPS).  A list is abstracted to its set of positive and    *)
(* its set of negated patterns (order and duplicates are irrelevant by     *)
(* construction: Filter!Accept only quantifies over positions).            *)
EXTENDS TLAPS
CONSTANTS Names, Pats, M
ASSUME MType == M \subseteq Pats \X Names

Accept(P, N, n) ==
   /\ IF P = {} /\ N # {} THEN TRUE ELSE \E p \in P : <<p, n>> \in M
   /\ ~ \E q \in N : <<q, n>> \in M

THEOREM AddNegNeverSelects ==
  ASSUME NEW P \in SUBSET Pats, NEW N \in SUBSET Pats, NEW q \in Pats, NEW n \in Names,
         P # {} \/ N # {}
  PROVE Accept(P, N \cup {q}, n) => Accept(P, N, n)
  BY DEF Accept

THEOREM AddPosNeverDeselects ==
  ASSUME NEW P \in SUBSET Pats, NEW N \in SUBSET Pats, NEW p \in Pats, NEW n \in Names,
         P # {} \/ N = {}
  PROVE Accept(P, N, n) => Accept(P \cup {p}, N, n)
  BY DEF Accept

(* the corner the statement's "consequently" glosses over: with only       *)
(* '!'-patterns everything unmatched is selected, and a first positive     *)
(* pattern then narrows the selection                                      *)
THEOREM OnlyNegativesSelectAllUnmatched ==
  ASSUME NEW N \in SUBSET Pats, NEW n \in Names, N # {}
  PROVE Accept({}, N, n) <=> ~ \E q \in N : <<q, n>> \in M
  BY DEF Accept

THEOREM NegatedMatchAlwaysRejects ==
  ASSUME NEW P \in SUBSET Pats, NEW N \in SUBSET Pats, NEW q \in N, NEW n \in Names,
         <<q, n>> \in M
  PROVE ~Accept(P, N, n)
  BY DEF Accept
=============================================================================
