CONSTANTS NTests = 2 Deviations = {"AfterTestClearsDebug"} PreChoices = {"none"}
CONSTANTS OptUniverse = {"gc", "G", "A", "D", "x", "buffer"}
CONSTANTS PreDebugChoices = {{}, {"DEBUG_UNCOLLECTABLE"}, {"DEBUG_SAVEALL"}, {"DEBUG_STATS"}, {"DEBUG_UNCOLLECTABLE", "DEBUG_STATS"}, {"DEBUG_SAVEALL", "DEBUG_STATS"}, {"DEBUG_UNCOLLECTABLE", "DEBUG_SAVEALL", "DEBUG_STATS"}} GChoices = {{"DEBUG_UNCOLLECTABLE"}, {"DEBUG_SAVEALL"}, {"DEBUG_UNCOLLECTABLE", "DEBUG_SAVEALL"}} V4Choices = {TRUE, FALSE}
CONSTANTS NestChoices = {FALSE} InnerOptUniverse = {} InnerEndings = {} MaxNest = 0
SPECIFICATION Spec
INVARIANT Restored
INVARIANT HooksRestored
CHECK_DEADLOCK FALSE
