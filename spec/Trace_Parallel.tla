--------------------------- MODULE Trace_Parallel ---------------------------
(* C06 conformance.  One record per forced schedule of a -j N run, together  *)
(* with the sequential run of the same world:                                *)
(*   N, seq = the sequential run: layers (header order), tokens[l] (what the *)
(*       layer's tests printed, in order), ran / failures / errors, failed,  *)
(*       failBag / errBag (names in the lists, sorted)                       *)
(*   par = the -j N run: timedOut, blocks = the parent's output cut at the   *)
(*       "Running <layer> tests:" headers: [l, toks] in order, stray =       *)
(*       tokens outside any block, ev = parent-side Spawn / Reaped events in *)
(*       the order the parent performed them, and the same totals / lists    *)
(* P-spec = Parallel!Ordered / Complete / AliveBound / Term on observations. *)
EXTENDS Naturals, Sequences, FiniteSets, TLC, Json, IOUtils, SequencesExt

Recs == JsonDeserialize(IOEnv.TRACE_FILE)
VARIABLE k
Init == k \in 1..Len(Recs)
Next == UNCHANGED k
Spec == Init /\ [][Next]_k

Alive(ev, n) == Cardinality({j \in 1..n : ev[j].e = "SP"}) - Cardinality({j \in 1..n : ev[j].e = "RP"})

Verdict(r) ==
  LET p == r.par
      s == r.seq
      B == 1..Len(p.blocks)
      blockLayers == [b \in B |-> p.blocks[b].l]
  IN IF p.timedOut THEN <<"C06:no-progress", r.schedule>>
     ELSE IF \E n \in 1..Len(p.ev) : Alive(p.ev, n) > r.N THEN <<"C06:too-many-alive", "">>
     ELSE IF p.crashed # "" THEN <<"C06:parent-aborted", p.crashed>>
     ELSE IF blockLayers # s.layers
          THEN <<IF ToSet(blockLayers) = ToSet(s.layers) /\ Len(blockLayers) = Len(s.layers)
                 THEN "C06:block-order"
                 ELSE IF \E l \in ToSet(s.layers) : l \notin ToSet(blockLayers) THEN "C06:block-lost"
                 ELSE "C06:block-split", "">>
     ELSE IF p.stray > 0 THEN <<"C06:line-outside-block", "">>
     \* a message of a worker thread (about another child) with more of the
     \* block after it: the block is not contiguous
     ELSE IF p.inside > 0 THEN <<"C06:message-inside-block", "">>
     ELSE IF \E b \in B : p.blocks[b].toks # s.tokens[p.blocks[b].l]
          THEN <<"C06:block-content", p.blocks[CHOOSE b \in B : p.blocks[b].toks # s.tokens[p.blocks[b].l]].l>>
     ELSE IF p.failed # s.failed \/ p.ran # s.ran \/ p.failures # s.failures \/ p.errors # s.errors
             \/ p.failBag # s.failBag \/ p.errBag # s.errBag
          THEN <<"C06:mode-mismatch", "">>
     ELSE <<"", "">>

Report == LET v == Verdict(Recs[k]) IN PrintT(<<"PAR", Recs[k].id, v[1], v[2]>>)
=============================================================================
