---------------------------- MODULE Trace_Threads ----------------------------
(* C19 conformance.  One record per real in-process run of a TLC-generated   *)
(* schedule (Threads.tla hist):                                              *)
(*   tests = test ids in execution order,                                    *)
(*   ev = thread events in order: {e:"S", t, th, ident, ign} a thread was    *)
(*        started inside test t through api (ign: its name matches an ignore pattern in *)
(*        match mode - environment fact), {e:"E", t, th, ident} it was seen  *)
(*        to have ended inside test t,                                       *)
(*   rep = per test the idents named in its "left new threads behind" block. *)
(* P-spec: reported(k) = started during k, still running at its end, not     *)
(* ignored.  I-spec (ident-based snapshot difference) is evaluated too: a    *)
(* P-violation the I-spec predicts is the ident-reuse defect.                *)
EXTENDS Naturals, Sequences, FiniteSets, TLC, Json, IOUtils, SequencesExt

Recs == JsonDeserialize(IOEnv.TRACE_FILE)
VARIABLE k
Init == k \in 1..Len(Recs)
Next == UNCHANGED k
Spec == Init /\ [][Next]_k

Idx(r, t) == CHOOSE j \in 1..Len(r.tests) : r.tests[j] = t
Starts(r) == {j \in 1..Len(r.ev) : r.ev[j].e = "S"}
EndedBy(r, th, n) ==      \* th was seen ended in a test with index <= n
  \E j \in 1..Len(r.ev) : r.ev[j].e = "E" /\ r.ev[j].th = th /\ Idx(r, r.ev[j].t) <= n
EndedBefore(r, th, n) ==
  \E j \in 1..Len(r.ev) : r.ev[j].e = "E" /\ r.ev[j].th = th /\ Idx(r, r.ev[j].t) < n

(* threads running when test n starts / stops *)
AliveAtStart(r, n) == {j \in Starts(r) : Idx(r, r.ev[j].t) < n /\ ~EndedBefore(r, r.ev[j].th, n)}
AliveAtStop(r, n) == {j \in Starts(r) : Idx(r, r.ev[j].t) <= n /\ ~EndedBy(r, r.ev[j].th, n)}

Expected(r, n) == {j \in Starts(r) : Idx(r, r.ev[j].t) = n /\ ~EndedBy(r, r.ev[j].th, n) /\ ~r.ev[j].ign}
(* snapshot entries still taken for alive at the stop: a threading.Thread    *)
(* knows that it has ended, a thread unknown to threading does not           *)
Kept(r, n) == {j \in AliveAtStart(r, n) : ~EndedBy(r, r.ev[j].th, n) \/ r.ev[j].api # "threading"}
ISpec(r, n) == LET sn == {r.ev[j].ident : j \in Kept(r, n)}
               IN {j \in AliveAtStop(r, n) : r.ev[j].ident \notin sn /\ ~r.ev[j].ign}
OldISpec(r, n) == LET sn == {r.ev[j].ident : j \in AliveAtStart(r, n)}
                  IN {j \in AliveAtStop(r, n) : r.ev[j].ident \notin sn /\ ~r.ev[j].ign}

Id(r, S) == {r.ev[j].ident : j \in S}
Reported(r, n) == ToSet(r.rep[r.tests[n]])

TestVerdict(r, n) ==
  LET exp == Id(r, Expected(r, n))
      rp == Reported(r, n)
  IN IF exp = rp THEN ""
     ELSE IF rp = Id(r, ISpec(r, n))
          THEN "C19:missed|ident-reused-from-an-ended-thread-unknown-to-threading"
     ELSE IF rp = Id(r, OldISpec(r, n))
          THEN "C19:missed|ident-reused-from-an-ended-threading-thread"
     ELSE IF exp \ rp # {} THEN "C19:missed"
     ELSE IF \E j \in Starts(r) : r.ev[j].ident \in rp \ exp /\ r.ev[j].ign /\ Idx(r, r.ev[j].t) = n
          THEN "C19:spurious|ignored-thread"
     ELSE IF \E j \in Starts(r) : r.ev[j].ident \in rp \ exp /\ Idx(r, r.ev[j].t) < n
          THEN "C19:wrong-test"
     ELSE IF \E j \in Starts(r) : r.ev[j].ident \in rp \ exp /\ EndedBy(r, r.ev[j].th, n)
          THEN "C19:spurious|finished-thread"
     ELSE "C19:spurious"

Verdict(r) ==
  LET bad == {n \in 1..Len(r.tests) : TestVerdict(r, n) # ""}
  IN IF bad = {} THEN <<"", "">>
     ELSE LET n == CHOOSE x \in bad : \A y \in bad : x <= y
          IN <<TestVerdict(r, n), r.tests[n]>>

Report == LET v == Verdict(Recs[k]) IN PrintT(<<"THR", Recs[k].id, v[1], v[2]>>)
=============================================================================
