---------------------------- MODULE Trace_Threads ----------------------------
(* C19 conformance.  One record per real in-process run of a TLC-generated   *)
(* schedule (Threads.tla hist):                                              *)
(*   tests = test ids in execution order,                                    *)
(*   ev = thread events in order: {e:"S", t, th, ident, ign, api} a thread   *)
(*        was started inside test t through api (t = "": before the first    *)
(*        test, while the test module was imported; ign: the name it is seen *)
(*        under matches an ignore pattern in match mode - environment fact), *)
(*        hook = TRUE: the thread was started by a per-test layer hook       *)
(*        (testSetUp) after test t was over (t = "": before the first test)  *)
(*        and before the next test began - it exists before every later test *)
(*        and belongs to no test,                                            *)
(*        {e:"N", t, th, ident, ign} it is seen under another name from now  *)
(*        on (a low-level thread became known to threading, or a rename),    *)
(*        {e:"E", t, th, ident} it was seen to have ended inside test t,     *)
(*   rep = per test the idents named in its "left new threads behind" block. *)
(* P-spec: reported(k) = started during k, still running at its end, not     *)
(* ignored under the name it carries at the end of k.  Don't-care zone (see  *)
(* Threads.tla): a thread started in k whose name at the end of k is of the  *)
(* other ignore class than the name it was started under may or may not be   *)
(* reported for k.  I-spec (ident-based snapshot difference) is evaluated    *)
(* too: a P-violation the I-spec predicts is the ident-reuse defect.         *)
EXTENDS Naturals, Sequences, FiniteSets, TLC, Json, IOUtils, SequencesExt

Recs == JsonDeserialize(IOEnv.TRACE_FILE)
VARIABLE k
Init == k \in 1..Len(Recs)
Next == UNCHANGED k
Spec == Init /\ [][Next]_k

Idx(r, t) == IF t = "" THEN 0 ELSE CHOOSE j \in 1..Len(r.tests) : r.tests[j] = t
Starts(r) == {j \in 1..Len(r.ev) : r.ev[j].e = "S"}
EndedBy(r, th, n) ==      \* th was seen ended in a test with index <= n
  \E j \in 1..Len(r.ev) : r.ev[j].e = "E" /\ r.ev[j].th = th /\ Idx(r, r.ev[j].t) <= n
EndedBefore(r, th, n) ==
  \E j \in 1..Len(r.ev) : r.ev[j].e = "E" /\ r.ev[j].th = th /\ Idx(r, r.ev[j].t) < n
(* does the name th carries at the end of test n match an ignore pattern:    *)
(* the fact logged with its last start / new-name event up to then           *)
IgnAtEnd(r, th, n) ==
  LET J == {j \in 1..Len(r.ev) : r.ev[j].e \in {"S", "N"} /\ r.ev[j].th = th
                                  /\ Idx(r, r.ev[j].t) <= n}
  IN r.ev[CHOOSE j \in J : \A i \in J : i <= j].ign

(* started during test n / before test n began (a hook start logged with    *)
(* test t happened after t was over)                                         *)
Own(r, j, n) == Idx(r, r.ev[j].t) = n /\ ~r.ev[j].hook
Before(r, j, n) == Idx(r, r.ev[j].t) < n
(* threads running when test n starts / stops *)
AliveAtStart(r, n) == {j \in Starts(r) : Before(r, j, n) /\ ~EndedBefore(r, r.ev[j].th, n)}
AliveAtStop(r, n) == {j \in Starts(r) : (Before(r, j, n) \/ Own(r, j, n)) /\ ~EndedBy(r, r.ev[j].th, n)}

Leaked(r, n) == {j \in Starts(r) : Own(r, j, n) /\ ~EndedBy(r, r.ev[j].th, n)}
Expected(r, n) == {j \in Leaked(r, n) : ~r.ev[j].ign /\ ~IgnAtEnd(r, r.ev[j].th, n)}
DontCare(r, n) == {j \in Leaked(r, n) : r.ev[j].ign # IgnAtEnd(r, r.ev[j].th, n)}
(* snapshot entries still taken for alive at the stop: a threading.Thread    *)
(* knows that it has ended, a thread started outside threading does not      *)
(* (adopted by threading or not)                                             *)
Kept(r, n) == {j \in AliveAtStart(r, n) : ~EndedBy(r, r.ev[j].th, n) \/ r.ev[j].api # "threading"}
ISpec(r, n) == LET sn == {r.ev[j].ident : j \in Kept(r, n)}
               IN {j \in AliveAtStop(r, n) : r.ev[j].ident \notin sn /\ ~IgnAtEnd(r, r.ev[j].th, n)}
OldISpec(r, n) == LET sn == {r.ev[j].ident : j \in AliveAtStart(r, n)}
                  IN {j \in AliveAtStop(r, n) : r.ev[j].ident \notin sn /\ ~IgnAtEnd(r, r.ev[j].th, n)}

Id(r, S) == {r.ev[j].ident : j \in S}
Reported(r, n) == ToSet(r.rep[r.tests[n]])

TestVerdict(r, n) ==
  LET exp == Id(r, Expected(r, n))
      may == exp \cup Id(r, DontCare(r, n))
      rp == Reported(r, n)
      extra == rp \ may
  IN IF exp \subseteq rp /\ rp \subseteq may THEN ""
     ELSE IF rp = Id(r, ISpec(r, n))
          THEN "C19:missed|ident-reused-from-an-ended-thread-unknown-to-threading"
     ELSE IF rp = Id(r, OldISpec(r, n))
          THEN "C19:missed|ident-reused-from-an-ended-threading-thread"
     ELSE IF exp \ rp # {} THEN "C19:missed"
     ELSE IF \E j \in Starts(r) : r.ev[j].ident \in extra /\ Own(r, j, n)
                                   /\ IgnAtEnd(r, r.ev[j].th, n)
          THEN "C19:spurious|ignored-thread"
     ELSE IF \E j \in Starts(r) : r.ev[j].ident \in extra /\ Before(r, j, n) /\ r.ev[j].hook
                                   /\ ~EndedBy(r, r.ev[j].th, n)
          THEN "C19:wrong-test|started-by-a-per-test-layer-hook-before-the-test"
     ELSE IF \E j \in Starts(r) : r.ev[j].ident \in extra /\ Idx(r, r.ev[j].t) < n
          THEN IF \E j \in Starts(r) : r.ev[j].ident \in extra /\ Idx(r, r.ev[j].t) = 0
               THEN "C19:wrong-test|existed-before-the-first-test"
               ELSE "C19:wrong-test"
     ELSE IF \E j \in Starts(r) : r.ev[j].ident \in extra /\ EndedBy(r, r.ev[j].th, n)
          THEN "C19:spurious|finished-thread"
     ELSE "C19:spurious"

Verdict(r) ==
  LET bad == {n \in 1..Len(r.tests) : TestVerdict(r, n) # ""}
  IN IF bad = {} THEN <<"", "">>
     ELSE LET n == CHOOSE x \in bad : \A y \in bad : x <= y
          IN <<TestVerdict(r, n), r.tests[n]>>

Report == LET v == Verdict(Recs[k]) IN PrintT(<<"THR", Recs[k].id, v[1], v[2]>>)
=============================================================================
