------------------------------- MODULE Options -------------------------------
(* The option vector on its way from the command line to the features:       *)
(* zope.testrunner.options.get_options(args, defaults) and the part of       *)
(* filter.Filter.global_setup that reads the result.  (C09: level and unit   *)
(* switches; C08: what reaches build_filtering_func; C15: --usecompiled      *)
(* implies --keepbytecode; growth beyond the properties: defaults versus     *)
(* arguments, legacy positional filters, --quiet / -v.)                      *)
(*                                                                           *)
(* Vocabulary.  A command line is a sequence of tokens                       *)
(*     [k |-> kind, v |-> string, n |-> integer]                             *)
(* kinds:  "t" "m" "layer"          append-lists of patterns (value v)       *)
(*         "at" "only" "N" "j"      stored integers (value n)                *)
(*         "u" "f" "all" "q" "k" "usecompiled"   flags                       *)
(*         "v"                      counted                                  *)
(*         "pos"                    positional (legacy module / test filter) *)
(* Strings are opaque; the only facts about them the code uses are equality  *)
(* with "", "." and the name of the unit layer.                              *)
(*                                                                           *)
(* I-level: Parse (argparse actions over one namespace, defaults first) and  *)
(* the normalisation steps of get_options, one operator per step, in the     *)
(* code's order; OptionsMC runs them as a pipeline with named deviations.    *)
(* P-level: the clauses a user relies on, stated over the RAW switches.      *)
EXTENDS Naturals, Integers, Sequences, FiniteSets, TLC

UnitName == "zope.testrunner.layer.UnitTests"
NoInt == -1000          \* "not given"
MaxLevel == 1000000     \* stands for sys.maxsize (projected by the harness)

Ns0 == [test |-> <<>>, module |-> <<>>, layer |-> <<>>,
        atLevel |-> 1, onlyLevel |-> NoInt, repeat |-> 1, procs |-> 1,
        unit |-> FALSE, nonUnit |-> FALSE, all |-> FALSE, quiet |-> FALSE,
        keep |-> FALSE, usecompiled |-> FALSE, verbose |-> 0,
        pos1 |-> "", pos2 |-> "", npos |-> 0, moduleSet |-> FALSE]

(* one argparse action *)
Apply(ns, tok) ==
  CASE tok.k = "t"     -> [ns EXCEPT !.test = Append(@, tok.v)]
    [] tok.k = "m"     -> [ns EXCEPT !.module = Append(@, tok.v)]
    [] tok.k = "layer" -> [ns EXCEPT !.layer = Append(@, tok.v)]
    [] tok.k = "at"    -> [ns EXCEPT !.atLevel = tok.n]
    [] tok.k = "only"  -> [ns EXCEPT !.onlyLevel = tok.n]
    [] tok.k = "N"     -> [ns EXCEPT !.repeat = tok.n]
    [] tok.k = "j"     -> [ns EXCEPT !.procs = tok.n]
    [] tok.k = "u"     -> [ns EXCEPT !.unit = TRUE]
    [] tok.k = "f"     -> [ns EXCEPT !.nonUnit = TRUE]
    [] tok.k = "all"   -> [ns EXCEPT !.all = TRUE]
    [] tok.k = "q"     -> [ns EXCEPT !.quiet = TRUE]
    [] tok.k = "k"     -> [ns EXCEPT !.keep = TRUE]
    [] tok.k = "usecompiled" -> [ns EXCEPT !.usecompiled = TRUE]
    [] tok.k = "v"     -> [ns EXCEPT !.verbose = @ + 1]
    [] tok.k = "pos"   -> IF ns.npos = 0 THEN [ns EXCEPT !.pos1 = tok.v, !.npos = 1]
                          ELSE [ns EXCEPT !.pos2 = tok.v, !.npos = 2]
    [] OTHER           -> ns

RECURSIVE Fold(_, _)
Fold(ns, toks) == IF toks = <<>> THEN ns ELSE Fold(Apply(ns, Head(toks)), Tail(toks))

(* parser.parse_args(args[1:], parser.parse_args(defaults)): one namespace,  *)
(* the defaults' tokens first; lists grow, integers are overwritten, flags   *)
(* accumulate, -v is counted over both.                                      *)
Parse(defs, args) == Fold(Fold(Ns0, defs), args)

----------------------------------------------------------------------------
(* Normalisation steps of get_options, in the code's order.  dev is the set  *)
(* of deviations switched on (OptionsMC); {} is the code as it is.           *)

StepLegacy(ns, dev) ==
  IF ns.pos1 = "" THEN ns                       \* falsy: nothing, pos2 ignored too
  ELSE LET a == IF ns.pos1 # "." THEN [ns EXCEPT !.module = Append(@, ns.pos1)] ELSE ns
       IN IF ns.pos2 # "" THEN [a EXCEPT !.test = Append(@, ns.pos2)] ELSE a

StepDefaults(ns, dev) ==
  [ns EXCEPT !.test = IF @ = <<>> THEN <<".">> ELSE @,
             !.module = IF @ = <<>> THEN <<".">> ELSE @,
             !.moduleSet = ns.module # <<>>]

StepAll(ns, dev) ==
  IF ns.all /\ ~("AllOnlyWithoutAtLevel" \in dev /\ ns.atLevel # 1)
  THEN [ns EXCEPT !.atLevel = MaxLevel] ELSE ns

StepUnitCancel(ns, dev) ==
  IF ns.unit /\ ns.nonUnit /\ "NoCancel" \notin dev
  THEN [ns EXCEPT !.unit = FALSE, !.nonUnit = FALSE] ELSE ns

StepUnitHack(ns, dev) ==
  IF ns.unit THEN [ns EXCEPT !.layer = <<UnitName>>] ELSE ns

RECURSIVE Dedup(_, _)
Dedup(s, seen) == IF s = <<>> THEN <<>>
                  ELSE IF Head(s) \in seen THEN Dedup(Tail(s), seen)
                  ELSE <<Head(s)>> \o Dedup(Tail(s), seen \cup {Head(s)})

(* options.layer and {layer: 1 for layer in options.layer}: keys in first-   *)
(* occurrence order                                                          *)
StepLayerDict(ns, dev) == [ns EXCEPT !.layer = Dedup(@, {})]

StepCompiled(ns, dev) ==
  IF ns.usecompiled /\ "CompiledKeepsCleaning" \notin dev THEN [ns EXCEPT !.keep = TRUE] ELSE ns

StepQuiet(ns, dev) == IF ns.quiet THEN [ns EXCEPT !.verbose = 0] ELSE ns

Steps == <<"legacy", "defaults", "all", "cancel", "hack", "dict", "compiled", "quiet">>
StepFn(name, ns, dev) ==
  CASE name = "legacy"   -> StepLegacy(ns, dev)
    [] name = "defaults" -> StepDefaults(ns, dev)
    [] name = "all"      -> StepAll(ns, dev)
    [] name = "cancel"   -> StepUnitCancel(ns, dev)
    [] name = "hack"     -> StepUnitHack(ns, dev)
    [] name = "dict"     -> StepLayerDict(ns, dev)
    [] name = "compiled" -> StepCompiled(ns, dev)
    [] name = "quiet"    -> StepQuiet(ns, dev)

RECURSIVE RunSteps(_, _, _)
RunSteps(ns, i, dev) == IF i > Len(Steps) THEN ns ELSE RunSteps(StepFn(Steps[i], ns, dev), i + 1, dev)

Normalize(defs, args, dev) == RunSteps(Parse(defs, args), 1, dev)

----------------------------------------------------------------------------
(* What Filter.global_setup decides for one layer from the normalised        *)
(* options.  m[p] <=> pattern p (with its '!' stripped) is found in the      *)
(* layer's name (environment relation, regex search mode).                   *)
IsNeg(p, neg) == p \in neg
AcceptSeq(ps, neg, m) ==
  LET pos == {i \in 1..Len(ps) : ps[i] \notin neg}
      ngs == {i \in 1..Len(ps) : ps[i] \in neg}
  IN /\ (\E i \in pos : m[ps[i]]) \/ (pos = {} /\ ngs # {})
     /\ ~ \E i \in ngs : m[ps[i]]

CodeKeeps(o, isUnit, neg, m) ==
  LET second == o.layer = <<>> \/ AcceptSeq(o.layer, neg, m) IN
  IF isUnit
  THEN LET first == IF ~o.nonUnit
                    THEN (IF o.layer # <<>> THEN AcceptSeq(o.layer, neg, m) ELSE TRUE)
                    ELSE FALSE
       IN first /\ second
  ELSE second

----------------------------------------------------------------------------
(* P-level clauses over the raw switches                                     *)
Given(defs, args, k) == (\E i \in 1..Len(defs) : defs[i].k = k) \/ (\E i \in 1..Len(args) : args[i].k = k)
RawList(defs, args, k) == SelectSeq(defs \o args, LAMBDA t : t.k = k)
Vals(s) == [i \in 1..Len(s) |-> s[i].v]

(* documented selection of layers (Selection!KeepLayer, restated over names) *)
DocKeeps(defs, args, isUnit, neg, m) ==
  LET u  == Given(defs, args, "u") /\ ~Given(defs, args, "f")
      nu == Given(defs, args, "f") /\ ~Given(defs, args, "u")
      lp == Vals(RawList(defs, args, "layer"))
  IN IF isUnit THEN ~nu /\ (u \/ lp = <<>> \/ AcceptSeq(lp, neg, m))
     ELSE ~u /\ (lp = <<>> \/ AcceptSeq(lp, neg, m))

LastInt(defs, args, k, dflt) ==
  LET s == RawList(defs, args, k) IN IF s = <<>> THEN dflt ELSE s[Len(s)].n

(* documented eligibility (Selection!Eligible over the raw switches)         *)
DocEligible(defs, args, level) ==
  LET only == LastInt(defs, args, "only", NoInt)
      at   == LastInt(defs, args, "at", 1)
  IN IF only # NoInt THEN level = only
     ELSE Given(defs, args, "all") \/ at <= 0 \/ level <= at

(* what find.tests_from_suite does with the normalised options               *)
CodeEligible(o, level) ==
  IF o.onlyLevel # NoInt THEN level = o.onlyLevel
  ELSE o.atLevel <= 0 \/ level <= o.atLevel

PClauses(defs, args, o) ==
  /\ o.test # <<>> /\ o.module # <<>>                                           \* C08: never the empty list
  /\ (Given(defs, args, "usecompiled") \/ Given(defs, args, "k")) <=> o.keep      \* C15
  /\ Given(defs, args, "q") => o.verbose = 0
  /\ ~Given(defs, args, "q") => o.verbose = Len(RawList(defs, args, "v"))
  /\ o.repeat = LastInt(defs, args, "N", 1) /\ o.procs = LastInt(defs, args, "j", 1)
  /\ ~(o.unit /\ o.nonUnit)
=============================================================================
