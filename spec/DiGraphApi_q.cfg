SPECIFICATION Spec
CONSTANTS
  N = 3
  MemoChoices = {FALSE, TRUE}
  Deviations = {}
INVARIANT TypeOK
INVARIANT OracleSane
INVARIANT AnswerOk
INVARIANT CacheCoherent
PROPERTY OnlyGrows
VIEW View
CHECK_DEADLOCK FALSE
