SPECIFICATION Spec
CONSTANTS
  N = 2
  Orders = "all"
  Trivials = {FALSE}
  WithNoEntry = TRUE
  Deviations = {"NoEntryKeyError"}
INVARIANT NeverRaises
CHECK_DEADLOCK FALSE
