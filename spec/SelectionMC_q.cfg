SPECIFICATION Spec
CONSTANTS
  MaxDepth = 3
  LayerNames = {"A", "B"}
  Levels = {0, 1, 2}
  MaxAt = 3
  OnlyLevels = {0, 1, 2}
INVARIANT ImplIsSpec
INVARIANT NearestWins
INVARIANT LevelRules
INVARIANT UnitRules
CHECK_DEADLOCK FALSE
