------------------------------ MODULE Trace_Xml ------------------------------
(* C17 conformance.  One record per real --xml run:                          *)
(*   repeat, tests = [t, ref (result events under stock unittest), gated,    *)
(*           runs]: gated = whether the test runs at all is decided by       *)
(*           something else than --repeat in this world (a filter, a layer   *)
(*           whose setUp fails); runs = how often it was seen starting,      *)
(*   fileClasses[file] = the character classes (labels of                    *)
(*           XmlReport!CharClasses) that occur in some message / test name   *)
(*           of the tests reported in that file,                             *)
(*   probes = [cp, pos, file]: single code points put into a message, a test *)
(*           name or the traceback text of a test reported in that file,     *)
(*   imports = [t, module, reported]: test modules made to fail on import    *)
(*           and whether the runner listed them as import problems,          *)
(*   files = every report file as read by a strict parser: wellformed,       *)
(*           tests / errors / failures attributes, numbers of testcase /     *)
(*           error / failure elements, cases = [t, kind, odd] where t is the *)
(*           world test (or broken module) whose own class and name the      *)
(*           testcase carries ("?" if it carries nobody's), kind in          *)
(*           none/failure/error/both, odd = [cp, got]: for every character   *)
(*           of the test's own name outside printable ASCII the code points  *)
(*           the report has in its place                                     *)
(*   reldir = the literal --xml option when it was a relative path ("" when  *)
(*           absolute): files are then what was found under                  *)
(*           <working directory at the start>/<option>/testreports - the     *)
(*           directory is fixed when the options are read, not by where the  *)
(*           tests leave the process (XmlReport!ResolveAtConfigure)          *)
(* Which code points and classes XML 1.0 allows is XmlReport!XmlChar /       *)
(* XmlReport!LegalChar - the harness supplies numbers and labels only.       *)
EXTENDS Naturals, Sequences, FiniteSets, TLC, Json, IOUtils, SequencesExt

X == INSTANCE XmlReport WITH NT <- 0, R <- 0, NI <- 0, Deviations <- {}, cls <- 0, outc <- 0,
                             sel <- 0, imp <- 0, it <- 0, t <- 0, ev <- 0, ran <- 0,
                             suites <- 0, attrs <- 0, files <- 0, pc <- 0

Recs == JsonDeserialize(IOEnv.TRACE_FILE)
VARIABLE k
Init == k \in 1..Len(Recs)
Next == UNCHANGED k
Spec == Init /\ [][Next]_k

AllCases(r) == FlattenSeq([f \in 1..Len(r.files) |-> r.files[f].cases])
NCases(r, tt, K) == Cardinality({j \in 1..Len(AllCases(r)) : AllCases(r)[j].t = tt /\ AllCases(r)[j].kind \in K})
NEv(ref, K) == Cardinality({j \in 1..Len(ref) : ref[j] \in K})
Passed(ref) == Len(ref) > 0 /\ \A j \in 1..Len(ref) : ref[j] \in {"ok", "X"}
(* the iterations in which test j ran *)
Iters(r, j) == IF r.tests[j].gated THEN r.tests[j].runs ELSE r.repeat

(* ---- I-spec (DRIFT): the exact sequence of testcase entries per report file *)
(* r.suiteTests[file] = the tests recorded in that file, in execution order;     *)
(* _record appends one entry per result event (skips excepted), --repeat runs    *)
(* the layer's tests again; an import failure is recorded once, at find time     *)
EntryKind(e) == IF e \in X!FailKinds THEN "failure" ELSE IF e \in X!ErrKinds THEN "error" ELSE "none"
RefOf(r, tt) == r.tests[CHOOSE j \in 1..Len(r.tests) : r.tests[j].t = tt].ref
EntriesOf(r, tt) == LET ev == SelectSeq(RefOf(r, tt), LAMBDA e : e # "S")
                    IN [j \in 1..Len(ev) |-> <<tt, EntryKind(ev[j])>>]
OnePass(r, ts) == FlattenSeq([j \in 1..Len(ts) |-> EntriesOf(r, ts[j])])
PredictedCases(r, ts) == FlattenSeq([i \in 1..r.repeat |-> OnePass(r, ts)])
ObservedCases(f) == [j \in 1..Len(f.cases) |-> <<f.cases[j].t, f.cases[j].kind>>]
Drift(r) == \/ \E kk \in 1..Len(r.files) :
                 /\ r.files[kk].wellformed /\ r.files[kk].file \in DOMAIN r.suiteTests
                 /\ ObservedCases(r.files[kk]) # PredictedCases(r, r.suiteTests[r.files[kk].file])
            \/ \E j \in 1..Len(r.imports) :
                 r.imports[j].reported /\ NCases(r, r.imports[j].t, {"none", "failure", "error", "both"}) # 1

(* the labels of a set of classes in a fixed order, "c0+vt_ff" *)
ClassOrder == <<"nul", "c0", "vt_ff", "surrogate", "nonchar", "newline", "markup", "cdataend", "plain",
                "del_c1", "nonascii", "astral">>
JoinLabels(S) == FoldLeft(LAMBDA acc, c : IF c \notin S THEN acc ELSE IF acc = "" THEN c ELSE acc \o "+" \o c,
                          "", ClassOrder)

Verdict(r) ==
  LET F == 1..Len(r.files)
      T == 1..Len(r.tests)
      mal == {f \in F : ~r.files[f].wellformed}
      \* the single code points / classes XML 1.0 does not allow that went into a malformed file
      badprobes == {p \in 1..Len(r.probes) : /\ ~X!XmlChar(r.probes[p].cp)
                                             /\ \E f \in mal : r.files[f].file = r.probes[p].file}
      badclasses == UNION {{c \in ToSet(r.fileClasses[r.files[f].file]) : ~X!LegalChar(c)} :
                              f \in {g \in mal : r.files[g].file \in DOMAIN r.fileClasses}}
      cnt == {f \in F : \/ r.files[f].tests # r.files[f].ncase
                        \/ r.files[f].errors # r.files[f].nerror
                        \/ r.files[f].failures # r.files[f].nfailure}
      impmiss == {j \in 1..Len(r.imports) : /\ r.imports[j].reported
                                            /\ NCases(r, r.imports[j].t, {"error", "both"}) < 1}
      passmiss == {j \in T : Passed(r.tests[j].ref) /\ NCases(r, r.tests[j].t, {"none"}) < Iters(r, j)}
      passtwice == {j \in T : Passed(r.tests[j].ref) /\ NCases(r, r.tests[j].t, {"none"}) > Iters(r, j)}
      nf(j) == Iters(r, j) * NEv(r.tests[j].ref, X!FailKinds)
      ne(j) == Iters(r, j) * NEv(r.tests[j].ref, X!ErrKinds)
      identity == {j \in T : \/ NCases(r, r.tests[j].t, {"failure", "both"}) < nf(j)
                             \/ NCases(r, r.tests[j].t, {"error", "both"}) < ne(j)}
      \* a character of the test's own name that XML 1.0 can carry has to be there
      \* (one that it cannot carry may be rendered by anything)
      notcarried == {j \in 1..Len(AllCases(r)) : \E o \in 1..Len(AllCases(r)[j].odd) :
                        /\ X!XmlChar(AllCases(r)[j].odd[o].cp)
                        /\ AllCases(r)[j].odd[o].got # <<AllCases(r)[j].odd[o].cp>>}
      extra == {j \in T : \/ NCases(r, r.tests[j].t, {"failure", "both"}) > nf(j)
                          \/ NCases(r, r.tests[j].t, {"error", "both"}) > ne(j)}
      subs(j) == \E e \in ToSet(r.tests[j].ref) : e \in {"SF", "SE"}
      \* a test that ran and owes the reports an entry has none in the requested directory
      nowhere == {j \in T : /\ Iters(r, j) > 0
                            /\ Passed(r.tests[j].ref) \/ nf(j) > 0 \/ ne(j) > 0
                            /\ NCases(r, r.tests[j].t, {"none", "failure", "error", "both"}) = 0}
  IN IF r.crashed # "" THEN <<"C17:run-aborted", r.crashed>>
     ELSE IF mal # {} THEN <<"C17:malformed",
                             IF badprobes # {}
                             THEN LET p == r.probes[CHOOSE p \in badprobes : \A q \in badprobes : p <= q]
                                  IN "code-point-" \o ToString(p.cp) \o "-in-" \o p.pos
                             ELSE IF badclasses # {} THEN JoinLabels(badclasses)
                             ELSE "although-only-legal-characters">>
     ELSE IF cnt # {} THEN <<"C17:count", r.files[CHOOSE f \in cnt : TRUE].file>>
     ELSE IF impmiss # {} THEN <<"C17:import-failure-missing", r.imports[CHOOSE j \in impmiss : TRUE].module>>
     ELSE IF r.reldir # "" /\ nowhere # {} THEN <<"C17:report-missing", "relative-dir">>
     ELSE IF passmiss # {} THEN <<"C17:pass-missing", r.tests[CHOOSE j \in passmiss : TRUE].t>>
     ELSE IF passtwice # {} THEN <<"C17:pass-twice", r.tests[CHOOSE j \in passtwice : TRUE].t>>
     ELSE IF identity # {}
          THEN <<"C17:wrong-identity",
                 IF \A j \in identity : subs(j) THEN "failing-subtest" ELSE "test">>
     ELSE IF notcarried # {} THEN <<"C17:wrong-identity", "legal-character-of-the-name-not-carried">>
     ELSE IF extra # {} THEN <<"C17:extra-case", r.tests[CHOOSE j \in extra : TRUE].t>>
     ELSE IF Drift(r) THEN <<"DRIFT", "">>
     ELSE <<"", "">>

Report == LET v == Verdict(Recs[k]) IN PrintT(<<"XML", Recs[k].id, v[1], v[2]>>)
=============================================================================
