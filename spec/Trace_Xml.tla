------------------------------ MODULE Trace_Xml ------------------------------
(* C17 conformance.  One record per real in-process --xml run:               *)
(*   repeat, tests = [t, ref (result events under stock unittest)],          *)
(*   illegal = the character classes XML 1.0 does not allow that occur in    *)
(*             some message / test name of this world (environment fact),    *)
(*   files = every report file as read by a strict parser: wellformed,       *)
(*           tests / errors / failures attributes, numbers of testcase /     *)
(*           error / failure elements, cases = [t, kind] where t is the      *)
(*           world test whose own class and name the testcase carries        *)
(*           ("?" if it carries nobody's) and kind in none/failure/error/both*)
EXTENDS Naturals, Sequences, FiniteSets, TLC, Json, IOUtils, SequencesExt

X == INSTANCE XmlReport WITH NT <- 0, R <- 0, Deviations <- {}, cls <- 0, outc <- 0,
                             it <- 0, t <- 0, ev <- 0, suites <- 0, attrs <- 0, pc <- 0

Recs == JsonDeserialize(IOEnv.TRACE_FILE)
VARIABLE k
Init == k \in 1..Len(Recs)
Next == UNCHANGED k
Spec == Init /\ [][Next]_k

AllCases(r) == FlattenSeq([f \in 1..Len(r.files) |-> r.files[f].cases])
NCases(r, tt, K) == Cardinality({j \in 1..Len(AllCases(r)) : AllCases(r)[j].t = tt /\ AllCases(r)[j].kind \in K})
NEv(ref, K) == Cardinality({j \in 1..Len(ref) : ref[j] \in K})
Passed(ref) == Len(ref) > 0 /\ \A j \in 1..Len(ref) : ref[j] \in {"ok", "X"}

(* ---- I-spec (DRIFT): the exact sequence of testcase entries per report file *)
(* r.suiteTests[file] = the tests recorded in that file, in execution order;     *)
(* _record appends one entry per result event (skips excepted), --repeat runs    *)
(* the layer's tests again                                                       *)
EntryKind(e) == IF e \in X!FailKinds THEN "failure" ELSE IF e \in X!ErrKinds THEN "error" ELSE "none"
RefOf(r, tt) == r.tests[CHOOSE j \in 1..Len(r.tests) : r.tests[j].t = tt].ref
EntriesOf(r, tt) == LET ev == SelectSeq(RefOf(r, tt), LAMBDA e : e # "S")
                    IN [j \in 1..Len(ev) |-> <<tt, EntryKind(ev[j])>>]
OnePass(r, ts) == FlattenSeq([j \in 1..Len(ts) |-> EntriesOf(r, ts[j])])
PredictedCases(r, ts) == FlattenSeq([i \in 1..r.repeat |-> OnePass(r, ts)])
ObservedCases(f) == [j \in 1..Len(f.cases) |-> <<f.cases[j].t, f.cases[j].kind>>]
Drift(r) == \E kk \in 1..Len(r.files) :
              /\ r.files[kk].wellformed /\ r.files[kk].file \in DOMAIN r.suiteTests
              /\ ObservedCases(r.files[kk]) # PredictedCases(r, r.suiteTests[r.files[kk].file])

Verdict(r) ==
  LET F == 1..Len(r.files)
      T == 1..Len(r.tests)
      mal == {f \in F : ~r.files[f].wellformed}
      cnt == {f \in F : \/ r.files[f].tests # r.files[f].ncase
                        \/ r.files[f].errors # r.files[f].nerror
                        \/ r.files[f].failures # r.files[f].nfailure}
      passmiss == {j \in T : Passed(r.tests[j].ref) /\ NCases(r, r.tests[j].t, {"none"}) < r.repeat}
      passtwice == {j \in T : Passed(r.tests[j].ref) /\ NCases(r, r.tests[j].t, {"none"}) > r.repeat}
      nf(j) == r.repeat * NEv(r.tests[j].ref, X!FailKinds)
      ne(j) == r.repeat * NEv(r.tests[j].ref, X!ErrKinds)
      identity == {j \in T : \/ NCases(r, r.tests[j].t, {"failure", "both"}) < nf(j)
                             \/ NCases(r, r.tests[j].t, {"error", "both"}) < ne(j)}
      extra == {j \in T : \/ NCases(r, r.tests[j].t, {"failure", "both"}) > nf(j)
                          \/ NCases(r, r.tests[j].t, {"error", "both"}) > ne(j)}
      subs(j) == \E e \in ToSet(r.tests[j].ref) : e \in {"SF", "SE"}
  IN IF r.crashed # "" THEN <<"C17:run-aborted", r.crashed>>
     ELSE IF mal # {} THEN <<"C17:malformed",
                             IF Len(r.illegal) = 0 THEN "although-only-legal-characters" ELSE r.illegal[1]>>
     ELSE IF cnt # {} THEN <<"C17:count", r.files[CHOOSE f \in cnt : TRUE].file>>
     ELSE IF passmiss # {} THEN <<"C17:pass-missing", r.tests[CHOOSE j \in passmiss : TRUE].t>>
     ELSE IF passtwice # {} THEN <<"C17:pass-twice", r.tests[CHOOSE j \in passtwice : TRUE].t>>
     ELSE IF identity # {}
          THEN <<"C17:wrong-identity",
                 IF \A j \in identity : subs(j) THEN "failing-subtest" ELSE "test">>
     ELSE IF extra # {} THEN <<"C17:extra-case", r.tests[CHOOSE j \in extra : TRUE].t>>
     ELSE IF Drift(r) THEN <<"DRIFT", "">>
     ELSE <<"", "">>

Report == LET v == Verdict(Recs[k]) IN PrintT(<<"XML", Recs[k].id, v[1], v[2]>>)
=============================================================================
