CONSTANTS NT = 2 R = 2 NI = 1 Deviations = {}
SPECIFICATION Spec
INVARIANT CountsAgree
INVARIANT PassOncePerIteration
INVARIANT BadCarriesIdentity
INVARIANT ImportFailuresReported
INVARIANT NothingUnselected
INVARIANT WellFormedStrings
PROPERTY Terminates
CHECK_DEADLOCK FALSE
