CONSTANTS NT = 2 R = 2 Deviations = {}
SPECIFICATION Spec
INVARIANT CountsAgree
INVARIANT PassOncePerIteration
INVARIANT BadCarriesIdentity
INVARIANT WellFormedStrings
PROPERTY Terminates
CHECK_DEADLOCK FALSE
