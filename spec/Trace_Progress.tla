--------------------------- MODULE Trace_Progress ---------------------------
(* Conformance of formatter.OutputFormatter with Progress.tla.  One record   *)
(* per driven formatter object: W, v, p and the calls in order, each with    *)
(* its arguments (lengths), the code's last_width / test_width after the     *)
(* call (lw, tw) and what the call wrote, run-length encoded by character    *)
(* class (t visible, s space, r CR, n LF).                                   *)
(*   I-spec: folding Progress!F* over the calls must give the recorded lw /  *)
(*     tw, the cursor column, the wrap flag and the rightmost visible column *)
(*     of the terminal obtained by replaying what was really written (DRIFT) *)
(*   P-spec: NoResidue / NoWrapV1 / Covers / CleanEnd evaluated on that      *)
(*     terminal and the recorded widths.                                     *)
EXTENDS Naturals, Sequences, FiniteSets, TLC, Json, IOUtils

P == INSTANCE Progress WITH W <- 0, VSet <- {}, PSet <- {}, N <- 0, Layers <- 0, NameLens <- {},
                            TimeLen <- 0, SkipLen <- 0, GcCounts <- {}, Deviations <- {},
                            v <- 0, p <- FALSE, st <- 0, layer <- 0, phase <- "", dirtyEnd <- FALSE

Recs == JsonDeserialize(IOEnv.TRACE_FILE)
VARIABLE k
Init == k \in 1..Len(Recs)
Next == UNCHANGED k
Spec == Init /\ [][Next]_k

(* replay what was written: <<term, cells of the last line left behind by a LF>> *)
RECURSIVE Replay(_, _, _, _, _, _)
Replay(w, term, left, ops, j, tag) ==
  IF j > Len(ops) THEN <<term, left>>
  ELSE LET c == ops[j][1]
           n == ops[j][2]
       IN IF c = "t" THEN Replay(w, P!Put(w, term, n, tag), left, ops, j + 1, tag)
          ELSE IF c = "s" THEN Replay(w, P!Put(w, term, n, 0), left, ops, j + 1, tag)
          ELSE IF c = "r" THEN Replay(w, P!CR(term), left, ops, j + 1, tag)
          ELSE Replay(w, P!NL(w, term), term[2], ops, j + 1, tag)

(* state of the fold: pred = Progress state predicted by the I-spec, term =  *)
(* terminal replayed from the recorded output, err / drift = first clause    *)
St0(w) == [pred |-> [lastW |-> 0, testW |-> 0, term |-> P!Term0(w), k |-> 0],
           term |-> P!Term0(w), err |-> "", drift |-> "", at |-> 0]

Note(s, clause, j) == IF s.err = "" /\ clause # "" THEN [s EXCEPT !.err = clause, !.at = j] ELSE s
Drift(s, clause, j) == IF s.drift = "" /\ clause # "" THEN [s EXCEPT !.drift = clause, !.at = IF s.err = "" THEN j ELSE s.at] ELSE s

OneStep(o, s, e, j) ==
  LET tag == IF e.e = "start" THEN e.k ELSE IF e.e = "lines" THEN 9999 ELSE s.pred.k
      rp == Replay(o.w, s.term, P!Blank(o.w), e.out, 1, tag)
      \* tracebacks and summary lines are free text below the progress line:
      \* their own wrapping is not the formatter's business
      term == IF e.e \in {"bad", "lines"} THEN <<rp[1][1], rp[1][2], s.term[3]>> ELSE rp[1]
      pred == CASE e.e = "start" -> P!FStart(o, [s.pred EXCEPT !.testW = 0], e.len, e.k, e.total)
                [] e.e = "success" -> P!FSuccess(o, s.pred, e.tl)
                [] e.e = "skipped" -> P!FSkipped(o, s.pred, e.sl)
                [] e.e = "bad" -> P!FBad(o, s.pred, e.tl)
                [] e.e = "stop" -> P!FStop(o, s.pred, e.gc)
                [] e.e = "stoptests" -> P!FStopTests(o, s.pred)[2]
                [] OTHER -> [s.pred EXCEPT !.term = P!NL(o.w, P!Put(o.w, s.pred.term, 5, 9999))]
      obs == [lastW |-> e.lw, testW |-> e.tw, term |-> term, k |-> pred.k]
      d == IF e.lw # pred.lastW THEN "PROGRESS:drift-last_width"
           ELSE IF e.tw # pred.testW /\ e.e # "lines" /\ e.e # "stoptests" THEN "PROGRESS:drift-test_width"
           ELSE IF term[1] # pred.term[1] THEN "PROGRESS:drift-cursor"
           ELSE IF term[3] # pred.term[3] THEN "PROGRESS:drift-wrap"
           ELSE IF P!MaxVisible(o.w, term) # P!MaxVisible(o.w, pred.term) THEN "PROGRESS:drift-visible"
           ELSE ""
      c == IF o.p /\ o.v <= 1 /\ term[3] THEN "PROGRESS:wrapped-at-v1"
           ELSE IF e.e = "start" /\ ~P!NoResidueAt(o, obs) THEN "PROGRESS:residue"
           ELSE IF e.e = "stop" /\ ~P!CoversAt(o, obs) THEN "PROGRESS:last_width-too-small"
           ELSE IF e.e = "stoptests" /\ (o.v = 1 \/ o.p) /\ (term[1] # 0 \/ term[2] # P!Blank(o.w))
                THEN "PROGRESS:line-not-clean-after-tests"
           ELSE IF e.e = "stoptests" /\ o.p /\ ~term[3] /\ rp[2] # P!Blank(o.w)
                THEN "PROGRESS:entry-left-standing"
           ELSE ""
  IN [Drift(Note(s, c, j), d, j) EXCEPT !.pred = pred, !.term = term]

RECURSIVE Fold(_, _, _, _)
Fold(o, s, ev, j) == IF j > Len(ev) THEN s ELSE Fold(o, OneStep(o, s, ev[j], j), ev, j + 1)

Verdict(r) ==
  LET o == [v |-> r.v, p |-> r.p, w |-> r.W, dev |-> {}]
      s == Fold(o, St0(r.W), r.ev, 1)
  IN <<s.err, s.drift, s.at>>

Report == LET x == Verdict(Recs[k]) IN PrintT(<<"PROG", Recs[k].id, x[1], x[2], x[3]>>)
=============================================================================
