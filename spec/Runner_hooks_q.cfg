SPECIFICATION Spec
CONSTANTS
  MaxN = 2
  MaxFaults = 0
  MaxTests = 2
  TestKinds = {"good","skipdeco"}
  Repeats = {1}
  Stops = {FALSE}
  Modes = {"seq"}
  HookModes = {"some"}
  Logging = FALSE
  Deviations = {}
CHECK_DEADLOCK FALSE
INVARIANT Refines
INVARIANT AllRun
