CONSTANTS NT = 3 NTh = 2 NI = 3 ReuseIdents = FALSE Deviations = {} MaxOps = 2 Apis = {"threading", "lowlevel"}
          NPre = 0 Names = {1, 3} IgnNames = {3} DummyIgn = {FALSE} MaxX = 1
          KeepHist = TRUE RenameSame = TRUE NHook = 2
SPECIFICATION Spec
INVARIANT Schedule
CHECK_DEADLOCK FALSE
