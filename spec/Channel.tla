------------------------------- MODULE Channel -------------------------------
(* C07: the result channel between a layer subprocess and its parent.        *)
(*                                                                           *)
(* I-spec (process.SubProcess.report, runner.spawn_layer_in_subprocess):     *)
(*  child:  runs tests (writes lines to its stdout pipe, noise to fd 2),      *)
(*          closes stdout, then writes the report to the original stderr:    *)
(*          header "ran nfail nerr", nfail + nerr name lines; it can die at   *)
(*          any point, and then a prefix of what it wrote has arrived        *)
(*          (the last line possibly partial)                                 *)
(*  parent: main thread reads stdout line by line until EOF; a helper thread *)
(*          drains stderr; after EOF the main thread joins it and parses:    *)
(*          first line that parses as three integers = header; fewer names   *)
(*          than announced, or a last name without line end = incomplete;    *)
(*          no header = "could not communicate"; both record one error for   *)
(*          the layer; finally the child is killed and reaped                *)
(*  pipes have a capacity: a writer blocks on a full pipe.                   *)
(* Lines are abstract: [k |-> "noise" | "look" (noise that reads as three    *)
(* integers) | "hdr" | "name", id, full (line end arrived), parses (a cut    *)
(* header may or may not still read as three integers)].                     *)
(* Deviations: "NoFreshLine" (before the process.py fix: the report does not  *)
(* start on a fresh line), "NoStderrThread" (stderr read after stdout by the same *)
(* thread), "TrustTruncated" (before fix 47c652d: missing names ignored),    *)
(* "SpawnFailureUnrecorded" (before fix 26b5a08); the environment constant   *)
(* Lookalike lets the child emit a header look-alike on fd 2 (known finding).*)
EXTENDS Naturals, Sequences, FiniteSets, TLC

CONSTANTS NNames,      \* names the child announces (nfail + nerr)
          NOut,        \* stdout lines of the child
          NNoise,      \* fd-2 noise lines before the report
          Cap,         \* pipe capacity in lines
          Lookalike,   \* noise may read as a header
          Deviations

VARIABLES cpc, alive, outPipe, errPipe, outClosed, errClosed, wrote,
          mpc, tpc, errBuf, result, spawnOK, ghostComplete, noiseFirst,
          pending      \* the last thing written to fd 2 did not end its line
vars == <<cpc, alive, outPipe, errPipe, outClosed, errClosed, wrote,
          mpc, tpc, errBuf, result, spawnOK, ghostComplete, noiseFirst, pending>>

Report == <<[k |-> "hdr", id |-> 0]>> \o [i \in 1..NNames |-> [k |-> "name", id |-> i]]

Init == /\ cpc = "spawn" /\ alive = FALSE /\ spawnOK \in BOOLEAN /\ noiseFirst \in BOOLEAN /\ pending = FALSE
        /\ outPipe = <<>> /\ errPipe = <<>> /\ outClosed = FALSE /\ errClosed = FALSE
        /\ wrote = [out |-> 0, noise |-> 0, rep |-> 0]
        /\ mpc = "popen" /\ tpc = "idle" /\ errBuf = <<>>
        /\ result = [kind |-> "none", names |-> <<>>] /\ ghostComplete = FALSE

(* ---- parent: Popen ------------------------------------------------------ *)
Popen == /\ mpc = "popen"
         /\ IF spawnOK
            THEN /\ alive' = TRUE /\ cpc' = "run" /\ mpc' = "readout" /\ tpc' = "reading"
                 /\ UNCHANGED result
            ELSE /\ mpc' = "done" /\ UNCHANGED <<alive, cpc, tpc>>
                 /\ result' = IF "SpawnFailureUnrecorded" \in Deviations THEN result
                              ELSE [kind |-> "spawnerror", names |-> <<>>]
         /\ UNCHANGED <<outPipe, errPipe, outClosed, errClosed, wrote, errBuf, spawnOK, ghostComplete, noiseFirst, pending>>

(* ---- child -------------------------------------------------------------- *)
(* the child's program order: all its fd-2 noise before its stdout lines, or  *)
(* after them (a blocked write cannot be skipped)                            *)
ChildOut == /\ alive /\ cpc = "run" /\ wrote.out < NOut /\ Len(outPipe) < Cap
            /\ (noiseFirst => wrote.noise = NNoise)
            /\ outPipe' = Append(outPipe, "line") /\ wrote' = [wrote EXCEPT !.out = @ + 1]
            /\ UNCHANGED <<cpc, alive, errPipe, outClosed, errClosed, mpc, tpc, errBuf, result, spawnOK, ghostComplete, noiseFirst, pending>>

ChildNoise(look, term) ==
  /\ alive /\ cpc = "run" /\ wrote.noise < NNoise /\ Len(errPipe) < Cap
  /\ pending' = ~term
  /\ (~noiseFirst => wrote.out = NOut)
  /\ (look => Lookalike)
  /\ errPipe' = Append(errPipe, [k |-> IF look THEN "look" ELSE "noise", id |-> 0, full |-> TRUE, parses |-> look])
  /\ wrote' = [wrote EXCEPT !.noise = @ + 1]
  /\ UNCHANGED <<cpc, alive, outPipe, outClosed, errClosed, mpc, tpc, errBuf, result, spawnOK, ghostComplete, noiseFirst>>

ChildCloseStdout == /\ alive /\ cpc = "run" /\ wrote.out = NOut /\ wrote.noise = NNoise
                    /\ cpc' = "report" /\ outClosed' = TRUE
                    /\ UNCHANGED <<alive, outPipe, errPipe, errClosed, wrote, mpc, tpc, errBuf, result, spawnOK, ghostComplete, noiseFirst, pending>>

ChildReportLine ==
  /\ alive /\ cpc = "report" /\ wrote.rep < Len(Report) /\ Len(errPipe) < Cap
  \* the report starts on a fresh line (fix; deviation "NoFreshLine" = before it:
  \* the header glues itself to an unterminated line and is not recognised)
  /\ LET l == Report[wrote.rep + 1]
         glued == pending /\ "NoFreshLine" \in Deviations
     IN errPipe' = Append(errPipe, [k |-> IF glued THEN "noise" ELSE l.k, id |-> l.id, full |-> TRUE,
                                    parses |-> l.k = "hdr" /\ ~glued])
  /\ pending' = FALSE
  /\ wrote' = [wrote EXCEPT !.rep = @ + 1]
  /\ ghostComplete' = (wrote.rep + 1 = Len(Report))      \* the whole report has been written
  /\ UNCHANGED <<cpc, alive, outPipe, outClosed, errClosed, mpc, tpc, errBuf, result, spawnOK, noiseFirst>>

ChildExit == /\ alive /\ cpc = "report" /\ wrote.rep = Len(Report)
             /\ alive' = FALSE /\ cpc' = "exited" /\ outClosed' = TRUE /\ errClosed' = TRUE
             /\ UNCHANGED <<outPipe, errPipe, wrote, mpc, tpc, errBuf, result, spawnOK, ghostComplete, noiseFirst, pending>>

(* the child dies (exit, signal) at any point; the line being written may be *)
(* cut: the last stderr line loses its end, a cut header may stop parsing    *)
ChildDie(cut, stillParses) ==
  /\ alive /\ cpc \in {"run", "report"}
  /\ alive' = FALSE /\ cpc' = "dead" /\ outClosed' = TRUE /\ errClosed' = TRUE
  /\ errPipe' = IF cut /\ Len(errPipe) > 0 /\ cpc = "report"
                THEN [errPipe EXCEPT ![Len(errPipe)] =
                        [@ EXCEPT !.full = FALSE,
                                  !.parses = @ /\ stillParses]]
                ELSE errPipe
  \* a cut takes the end of the line being written: the report is not complete
  /\ ghostComplete' = (ghostComplete /\ ~(cut /\ Len(errPipe) > 0 /\ cpc = "report"))
  /\ UNCHANGED <<outPipe, wrote, mpc, tpc, errBuf, result, spawnOK, noiseFirst, pending>>

(* ---- parent threads ------------------------------------------------------ *)
MainReadOut == /\ mpc = "readout"
               /\ IF Len(outPipe) > 0 THEN /\ outPipe' = Tail(outPipe) /\ UNCHANGED mpc
                  ELSE /\ outClosed /\ mpc' = "join" /\ UNCHANGED outPipe
               /\ UNCHANGED <<cpc, alive, errPipe, outClosed, errClosed, wrote, tpc, errBuf, result, spawnOK, ghostComplete, noiseFirst, pending>>

ThreadRead == /\ tpc = "reading" /\ "NoStderrThread" \notin Deviations
              /\ IF Len(errPipe) > 0
                 THEN /\ errBuf' = Append(errBuf, Head(errPipe)) /\ errPipe' = Tail(errPipe) /\ UNCHANGED tpc
                 ELSE /\ errClosed /\ tpc' = "eof" /\ UNCHANGED <<errBuf, errPipe>>
              /\ UNCHANGED <<cpc, alive, outPipe, outClosed, errClosed, wrote, mpc, result, spawnOK, ghostComplete, noiseFirst, pending>>

(* deviation: the main thread reads stderr itself, after stdout *)
MainReadErr == /\ "NoStderrThread" \in Deviations /\ mpc = "join" /\ tpc = "reading"
               /\ IF Len(errPipe) > 0
                  THEN /\ errBuf' = Append(errBuf, Head(errPipe)) /\ errPipe' = Tail(errPipe) /\ UNCHANGED tpc
                  ELSE /\ errClosed /\ tpc' = "eof" /\ UNCHANGED <<errBuf, errPipe>>
               /\ UNCHANGED <<cpc, alive, outPipe, outClosed, errClosed, wrote, mpc, result, spawnOK, ghostComplete, noiseFirst, pending>>

Parse(buf) ==
  LET hs == {i \in 1..Len(buf) : buf[i].parses}
  IN IF hs = {} THEN [kind |-> "commfail", names |-> <<>>]
     ELSE LET h == CHOOSE i \in hs : \A j \in hs : i <= j
              names == SubSeq(buf, h + 1, Len(buf))
              announced == IF buf[h].k = "hdr" THEN NNames ELSE 0    \* a look-alike announces nothing
          IN IF "TrustTruncated" \notin Deviations /\
                (Len(names) < announced \/
                 (Len(names) = announced /\ Len(names) > 0 /\ ~names[Len(names)].full))
             THEN [kind |-> "incomplete", names |-> <<>>]
             ELSE [kind |-> IF buf[h].k = "hdr" THEN "ok" ELSE "lookalike",
                   names |-> [i \in 1..(IF Len(names) < announced THEN Len(names) ELSE announced) |->
                                 names[i].id]]

MainJoinParse == /\ mpc = "join" /\ tpc = "eof"
                 /\ result' = Parse(errBuf) /\ mpc' = "reap"
                 /\ UNCHANGED <<cpc, alive, outPipe, errPipe, outClosed, errClosed, wrote, tpc, errBuf, spawnOK, ghostComplete, noiseFirst, pending>>

MainReap == /\ mpc = "reap" /\ mpc' = "done"      \* finally: kill + communicate
            /\ alive' = FALSE /\ outClosed' = TRUE /\ errClosed' = TRUE
            /\ cpc' = IF alive THEN "dead" ELSE cpc
            /\ UNCHANGED <<outPipe, errPipe, wrote, tpc, errBuf, result, spawnOK, ghostComplete, noiseFirst, pending>>

ChildStep == ChildOut \/ ChildCloseStdout \/ ChildReportLine \/ ChildExit
             \/ \E look, term \in BOOLEAN : ChildNoise(look, term)
Die == \E c, p \in BOOLEAN : ChildDie(c, p)
ParentStep == Popen \/ MainReadOut \/ ThreadRead \/ MainReadErr \/ MainJoinParse \/ MainReap
Next == ChildStep \/ Die \/ ParentStep

(* fairness: the parent's threads and the child keep running; dying is not fair *)
Spec == Init /\ [][Next]_vars /\ WF_vars(ChildStep) /\ WF_vars(MainReadOut) /\ WF_vars(ThreadRead)
             /\ WF_vars(MainReadErr) /\ WF_vars(MainJoinParse) /\ WF_vars(MainReap) /\ WF_vars(Popen)

(* ---- P-spec --------------------------------------------------------------- *)
Done == mpc = "done"
(* nothing lost, nothing invented: a complete report arrives exactly *)
CompleteIsExact == Done /\ ghostComplete /\ (~Lookalike) =>
                     /\ result.kind = "ok"
                     /\ result.names = [i \in 1..NNames |-> i]
(* nothing partial trusted: otherwise exactly an error is recorded (the one  *)
(* don't-care: everything but the line end of a report without names arrived)*)
FaultIsError == Done /\ ~ghostComplete /\ (~Lookalike) =>
                  \/ result.kind \in {"commfail", "incomplete", "spawnerror"}
                  \/ (result.kind = "ok" /\ NNames = 0)
(* with look-alike noise allowed the header parser can be fooled (known finding) *)
LookalikeNeverTaken == Done => result.kind # "lookalike"
NoHang == <>Done
Reaped == Done => ~alive
=============================================================================
