CONSTANTS K = 4 N = 2 L = 2 Deviations = {} DepC = 1 DepD = 3 FailSpawn = {}
SPECIFICATION Spec
INVARIANT AliveBound
INVARIANT Ordered
INVARIANT Complete
PROPERTY Term
VIEW View
CHECK_DEADLOCK FALSE
