CONSTANTS NT = 3 NTh = 3 NI = 3 ReuseIdents = TRUE Deviations = {} MaxOps = 3 Apis = {"threading"}
SPECIFICATION Spec
INVARIANT ProbeReuse
CHECK_DEADLOCK FALSE
