CONSTANTS NT = 3 NTh = 3 NI = 3 ReuseIdents = TRUE Deviations = {} MaxOps = 3 Apis = {"threading"}
          NPre = 1 Names = {1, 3} IgnNames = {3} DummyIgn = {TRUE, FALSE} MaxX = 2
          KeepHist = TRUE RenameSame = FALSE NHook = 1
SPECIFICATION Spec
INVARIANT ProbeReuse
CHECK_DEADLOCK FALSE
