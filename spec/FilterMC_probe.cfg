SPECIFICATION Spec
CONSTANTS
  Pats = {"a", "b"}
  MaxLen = 2
INVARIANT ProbeCorner
CHECK_DEADLOCK FALSE
