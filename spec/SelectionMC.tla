---------------------------- MODULE SelectionMC ----------------------------
(* C09, exhaustive part.  For every declaration path of length <= MaxDepth   *)
(* (outermost suite first, the test itself last; at each position a layer    *)
(* and / or a level may be declared) and every option vector:                *)
(*   - the I-spec (find.tests_from_suite: the defaults dlayer / dlevel are   *)
(*     handed down and overridden by getattr at every node) computes the     *)
(*     P-spec's nearest declaration (Selection!EffLayer / EffLevel);         *)
(*   - the eligibility predicate has the documented boundary behaviour;      *)
(*   - --unit / --non-unit partition the layers and cancel each other.       *)
EXTENDS Naturals, Integers, Sequences, FiniteSets, TLC, Selection

CONSTANTS MaxDepth, LayerNames, Levels, MaxAt, OnlyLevels
AtLevels == (-1)..MaxAt          \* (a cfg file cannot spell a negative number)

Decl == [layer : LayerNames \cup {""}, hasLevel : BOOLEAN, level : Levels]
(* a canonical level for undeclared positions keeps the space small *)
CanonDecl == {d \in Decl : ~d.hasLevel => d.level = 0}
Paths == UNION {[1..k -> CanonDecl] : k \in 1..MaxDepth}

Opts == [onlyLevel : OnlyLevels \cup {NoLevel}, all : BOOLEAN, atLevel : AtLevels,
         unit : BOOLEAN, nonUnit : BOOLEAN, lpats : {<<>>}]

VARIABLES path, o
vars == <<path, o>>
Init == path \in Paths /\ o \in Opts
Next == UNCHANGED vars
Spec == Init /\ [][Next]_vars

(* ----- I-spec: tests_from_suite hands the defaults down --------------------*)
RECURSIVE Down(_, _, _, _)
Down(p, k, dlayer, dlevel) ==
  IF k > Len(p) THEN <<dlayer, dlevel>>
  ELSE Down(p, k + 1,
            IF p[k].layer # "" THEN p[k].layer ELSE dlayer,
            IF p[k].hasLevel THEN p[k].level ELSE dlevel)
ImplLayer(p) == Down(p, 1, Unit, 1)[1]
ImplLevel(p) == Down(p, 1, Unit, 1)[2]

(* if only_level is None: at_level <= 0 or level <= at_level;  else ==       *)
(* (--all sets at_level to sys.maxsize: modelled by o.all)                   *)
ImplEligible(opt, level) ==
  IF opt.onlyLevel = NoLevel
  THEN (IF opt.all THEN TRUE ELSE opt.atLevel <= 0 \/ level <= opt.atLevel)
  ELSE level = opt.onlyLevel

ImplIsSpec ==
  /\ ImplLayer(path) = EffLayer(path)
  /\ ImplLevel(path) = EffLevel(path)
  /\ ImplEligible(o, EffLevel(path)) = Eligible(o, EffLevel(path))

(* ----- nearest declaration, stated from the test outwards ------------------*)
RECURSIVE NearLayer(_)
NearLayer(p) == IF p = <<>> THEN Unit
                ELSE IF p[Len(p)].layer # "" THEN p[Len(p)].layer
                ELSE NearLayer(SubSeq(p, 1, Len(p) - 1))
RECURSIVE NearLevel(_)
NearLevel(p) == IF p = <<>> THEN 1
                ELSE IF p[Len(p)].hasLevel THEN p[Len(p)].level
                ELSE NearLevel(SubSeq(p, 1, Len(p) - 1))
NearestWins == EffLayer(path) = NearLayer(path) /\ EffLevel(path) = NearLevel(path)

(* ----- documented boundary behaviour ---------------------------------------*)
LevelRules ==
  LET lv == EffLevel(path) IN
  /\ (o.onlyLevel # NoLevel) => (Eligible(o, lv) <=> lv = o.onlyLevel)
  /\ (o.onlyLevel = NoLevel /\ (o.all \/ o.atLevel <= 0)) => Eligible(o, lv)
  /\ (o.onlyLevel = NoLevel /\ ~o.all /\ o.atLevel > 0) => (Eligible(o, lv) <=> lv <= o.atLevel)

UnitRules ==
  LET l == EffLayer(path)  k == KeepLayer(o, l, <<>>) IN
  /\ (o.unit /\ o.nonUnit) => k
  /\ (~o.unit /\ ~o.nonUnit) => k
  /\ (o.unit /\ ~o.nonUnit) => (k <=> l = Unit)
  /\ (o.nonUnit /\ ~o.unit) => (k <=> l # Unit)
=============================================================================
