------------------------------- MODULE Runner -------------------------------
(* I-spec of zope.testrunner's run machine (runner.py):                       *)
(*   Runner.run_tests   - the layer loop, resume of remaining layers in       *)
(*                        subprocesses, the final optional tear-down          *)
(*   run_layer          - gather needed layers, tear_down_unneeded,           *)
(*                        setup_layer, run_tests                              *)
(*   tear_down_unneeded - reverse order_by_bases of the unneeded layers,      *)
(*                        `del setup_layers[l]` in a finally clause,          *)
(*                        CanNotTearDown unless optional                      *)
(*   setup_layer        - bases-first recursion, layer marked set up AFTER    *)
(*                        its setUp returned                                  *)
(*   run_tests (func)   - repeat loop, one TestResult per iteration,          *)
(*                        shouldStop test, per-test hook bracket              *)
(* One action per critical section.  The P-specs of C01 / C05 / C16 / C03     *)
(* (LayerStack.tla guards) run as a monitor over the observable events each   *)
(* action emits; `perr` holds the first clause the I-spec violated, so        *)
(*      Refines == perr = ""                                                  *)
(* is the refinement check  Runner => LayerStack  within the bounds.          *)
(*                                                                           *)
(* Known departures of the code from the properties are named deviation       *)
(* actions, enabled by the constant Deviations (DESIGN.md 6):                 *)
(*   "SkipFallbackUnbalanced"  decorator-skipped test: stopTest runs the      *)
(*                             testTearDown hooks although startTest (and     *)
(*                             the testSetUp hooks) never ran                 *)
(*   "RepeatResetsStop"        --stop-on-error with --repeat: the stop flag   *)
(*                             lives in the per-iteration TestResult          *)
EXTENDS Naturals, Sequences, FiniteSets, TLC, SequencesExt, FiniteSetsExt,
        LayerStack, LayerOrder, GraphFamily

CONSTANTS MaxN,          \* layers L1..L<n>, n <= MaxN
          MaxFaults,     \* at most this many faulty layer hooks per world
          MaxTests,      \* tests per owning layer (sequence length bound)
          TestKinds,     \* subset of {"good", "bad", "skipdeco"}
          Repeats,       \* set of --repeat values explored
          Stops,         \* set of BOOLEAN: --stop-on-error
          Modes,         \* subset of {"seq", "par"} (-j 1 / -j N)
          HookModes,     \* subset of {"all", "some"}: hook-less layers too?
          Logging,       \* keep the event history (only needed by Trace_RunnerI)
          Deviations

VARIABLES w, opt,        \* the world and options (chosen in Init, then fixed)
          proc, mode,    \* process index (1 = parent), "parent" | "child"
          pc, toRun, setupL, tdq, tdOptional, suStack, curLayer,
          iter, tIdx, shouldStop, anyBad, resumeQ, shouldResume,
          stash,         \* parent's <<setupL, mon>> while children run
          mon, perr,     \* P-spec monitor state, first violated clause
          executed,      \* ghost: set of <<layer, idx, iter, proc>>
          usedDev

vars == <<w, opt, proc, mode, pc, toRun, setupL, tdq, tdOptional, suStack,
          curLayer, iter, tIdx, shouldStop, anyBad, resumeQ, shouldResume,
          stash, mon, perr, executed, usedDev>>

(* ----- worlds ---------------------------------------------------------------*)
TestSeqs == UNION {[1..k -> TestKinds] : k \in 1..MaxTests}

(* Worlds are chosen by nested quantifiers in Init (TLC enumerates those     *)
(* without first building and normalising one huge set of records).          *)
Flags(n) == IF "some" \in HookModes THEN [LSet(n) -> BOOLEAN]
            ELSE {[l \in LSet(n) |-> TRUE]}

Faults(x) == Cardinality(x.suF) + Cardinality({l \in DOMAIN x.td : x.td[l] # "ok"})

Owners(x) == {l \in SeqSet(x.layers) : x.tests[l] # <<>>}

Rank(x) == [l \in SeqSet(x.layers) |->
              CHOOSE k \in 1..Len(x.layers) : x.layers[k] = l]

Order(x, req) == OrderByBases(x.bases, Rank(x), x.unit, req)

(* ----- monitor plumbing -----------------------------------------------------*)
(* feed one observable event to the P-spec monitor; hook-less layers are     *)
(* unobservable and produce no event                                         *)
Mon(m, e, c) == IF e # "" /\ m.err = "" THEN [m EXCEPT !.err = e] ELSE m
(* the observable events of the current process, in order (history: it is    *)
(* what Trace_RunnerI.tla compares with the events recorded from real runs); *)
(* m.done collects the logs of the processes that have ended                 *)
Log(m, ev) == IF Logging THEN [m EXCEPT !.log = Append(@, ev)] ELSE m

MSetUpBegin(m, l) ==
  IF ~w.life[l] THEN m ELSE
  Log([Mon(m, SetUpBeginErr(w, m.p, l), 0) EXCEPT !.p = SetUpBegin(m.p, l)], <<"SUB", l, "">>)
MSetUpEnd(m, l, s) ==
  IF ~w.life[l] THEN m ELSE
  Log([Mon(m, SetUpEndErr(w, m.p, l), 0) EXCEPT !.p = SetUpEnd(m.p, l, s)], <<"SUE", l, s>>)
MTearDownBegin(m, l) ==
  IF ~w.life[l] THEN m ELSE
  Log([Mon(m, TearDownBeginErr(w, m.p, l), 0) EXCEPT !.p = TearDownBegin(m.p, l)], <<"TDB", l, "">>)
MTearDownEnd(m, l, s) ==
  IF ~w.life[l] THEN m ELSE
  Log([Mon(m, TearDownEndErr(w, m.p, l), 0) EXCEPT !.p = TearDownEnd(m.p, l, s)], <<"TDE", l, s>>)
MTestSetUp(m, l) ==
  IF ~w.perUp[l] THEN m ELSE
  LET r == BrTestSetUp(w, m.p, l) IN Log([Mon(m, r[1], 0) EXCEPT !.p = r[2]], <<"TSU", l, "">>)
MTestTearDown(m, l) ==
  IF ~w.perDown[l] THEN m ELSE
  LET r == BrTestTearDown(w, m.p, l) IN Log([Mon(m, r[1], 0) EXCEPT !.p = r[2]], <<"TTD", l, "">>)
MTest(m, tl) ==
  LET m1 == Mon(m, TestStartErr(w, m.p, tl), 0)
      r == BrTest(w, m1.p, tl)
  IN Log([Mon(m1, r[1], 0) EXCEPT !.p = r[2]], <<"T", tl, "">>)
MIdle(m) == LET r == BrIdle(w, m.p) IN [Mon(m, r[1], 0) EXCEPT !.p = r[2]]
MProcEnd(m) == LET r == BrIdle(w, m.p)
               IN [Mon(Mon(m, ProcEndErr(w, m.p), 0), r[1], 0) EXCEPT !.p = r[2]]

RECURSIVE MFold(_, _, _)
MFold(Op(_, _), m, s) == IF s = <<>> THEN m ELSE MFold(Op, Op(m, Head(s)), Tail(s))

(* m.stat: what the Statistics feature and the per-layer summaries do:        *)
(*   layers = layer_setup calls seen by the parent's Statistics feature (the  *)
(*            "Total:" line is printed unless exactly one layer was run),     *)
(*   sums   = "Ran n tests ..." lines reaching the parent's output (one per   *)
(*            executed --repeat iteration of a layer whose stack was set up)  *)
Mon0 == [p |-> Proc0, err |-> "", log |-> <<>>, done |-> <<>>,
         stat |-> [layers |-> 0, sums |-> 0]]
BumpLayers(m) == [m EXCEPT !.stat.layers = @ + 1]
BumpSums(m) == [m EXCEPT !.stat.sums = @ + 1]

(* ----- initial state --------------------------------------------------------*)
Init ==
  /\ \E n \in 1..MaxN : \E g \in GraphsOn(n) :
     \E lf \in Flags(n), pf \in Flags(n), pdf \in Flags(n) :
     \E ts \in [LSet(n) -> TestSeqs \cup {<<>>}] :
     \E suF \in SUBSET LSet(n) : \E td \in [LSet(n) -> {"ok", "raise", "notimpl"}] :
       LET x == [layers |-> [i \in 1..n |-> LName(i)], bases |-> NamedBases(g),
                 life |-> lf, perUp |-> pf, perDown |-> pdf, tests |-> ts, suF |-> suF, td |-> td,
                 unit |-> ""]
       IN /\ Faults(x) <= MaxFaults /\ Owners(x) # {}
          /\ w = x
  /\ opt \in [repeat : Repeats, stop : Stops, par : {m = "par" : m \in Modes}]
  /\ proc = 1 /\ mode = "parent"
  /\ pc = "start"
  /\ toRun = <<>> /\ setupL = {} /\ tdq = <<>> /\ tdOptional = FALSE
  /\ suStack = <<>> /\ curLayer = "" /\ iter = 0 /\ tIdx = 0
  /\ shouldStop = FALSE /\ anyBad = FALSE /\ resumeQ = <<>>
  /\ shouldResume = FALSE /\ stash = <<>>
  /\ mon = Mon0 /\ perr = "" /\ executed = {} /\ usedDev = {}

Sync == perr' = IF perr # "" THEN perr ELSE mon'.err

(* ----- Runner.run_tests -----------------------------------------------------*)
(* layers_to_run = list(self.ordered_layers()); with -j N > 1 the parent gets *)
(* the EmptyLayer first (nothing to set up, no tests) and resumes everything. *)
Start ==
  /\ pc = "start"
  /\ LET all == Order(w, SetToSeq(Owners(w))) IN
       IF opt.par /\ mode = "parent"
       THEN /\ toRun' = <<>> /\ resumeQ' = all /\ shouldResume' = TRUE
            /\ pc' = "resume"
            \* the parent's own EmptyLayer: one layer_setup, one "Ran 0 tests" summary
            \* per --repeat iteration
            /\ mon' = [BumpLayers(mon) EXCEPT !.stat.sums = @ + opt.repeat]
       ELSE /\ toRun' = all /\ UNCHANGED <<resumeQ, shouldResume, mon>>
            /\ pc' = "pick"
  /\ UNCHANGED <<w, opt, proc, mode, setupL, tdq, tdOptional, suStack, curLayer,
                 iter, tIdx, shouldStop, anyBad, stash, perr, executed, usedDev>>

(* `while layers_to_run:` + run_layer's prologue up to tear_down_unneeded     *)
Pick ==
  /\ pc = "pick"
  /\ IF toRun = <<>>
     THEN /\ pc' = "resume"
          /\ UNCHANGED <<curLayer, tdq, tdOptional>>
     ELSE LET l == Head(toRun)
              need == SeqSet(Gather(w.bases, l))
              unneeded == Reverse(Order(w, SetToSeq(setupL \ need)))
          IN /\ curLayer' = l
             /\ tdq' = unneeded /\ tdOptional' = FALSE
             /\ pc' = "teardown"
  \* feature.layer_setup(layer) for every layer the parent's loop takes up
  /\ mon' = IF toRun # <<>> /\ mode = "parent" THEN BumpLayers(mon) ELSE mon
  /\ UNCHANGED <<w, opt, proc, mode, toRun, setupL, suStack, iter, tIdx,
                 shouldStop, anyBad, resumeQ, shouldResume, stash, perr,
                 executed, usedDev>>

(* one iteration of tear_down_unneeded's loop *)
TearDownOne ==
  /\ pc \in {"teardown", "finaltd"}
  /\ tdq # <<>>
  /\ LET l == Head(tdq)
         s == w.td[l]
         m1 == MTearDownEnd(MTearDownBegin(MIdle(mon), l), l, s)
     IN /\ mon' = m1
        /\ setupL' = setupL \ {l}                 \* finally: del setup_layers[l]
        /\ anyBad' = (anyBad \/ s = "raise")
        /\ IF s = "notimpl" /\ ~tdOptional
           THEN \* raise CanNotTearDown: the rest of the loop is abandoned;
                \* parent: should_resume, break;  child: swallowed, pop, go on
                /\ tdq' = <<>>
                /\ IF mode = "parent"
                   THEN /\ shouldResume' = TRUE /\ resumeQ' = toRun
                        /\ toRun' = <<>> /\ pc' = "resume"
                   ELSE /\ toRun' = Tail(toRun) /\ pc' = "pick"
                        /\ UNCHANGED <<shouldResume, resumeQ>>
           ELSE /\ tdq' = Tail(tdq)
                /\ UNCHANGED <<toRun, shouldResume, resumeQ, pc>>
  /\ Sync
  /\ UNCHANGED <<w, opt, proc, mode, tdOptional, suStack, curLayer, iter, tIdx,
                 shouldStop, stash, executed, usedDev>>

TearDownDone ==
  /\ pc = "teardown" /\ tdq = <<>>
  /\ suStack' = <<<<curLayer, 0>>>>
  /\ pc' = "setup"
  /\ UNCHANGED <<w, opt, proc, mode, toRun, setupL, tdq, tdOptional, curLayer,
                 iter, tIdx, shouldStop, anyBad, resumeQ, shouldResume, stash,
                 mon, perr, executed, usedDev>>

(* setup_layer: one step of the bases-first recursion.  A frame is            *)
(* <<layer, k>>: k = 0 on entry, 1..#bases while descending, #bases+1 = call   *)
(* the layer's own setUp.                                                      *)
SetUpStep ==
  /\ pc = "setup" /\ suStack # <<>>
  /\ LET top == suStack[Len(suStack)]
         l == top[1]  k == top[2]
         rest == SubSeq(suStack, 1, Len(suStack) - 1)
         nb == Len(w.bases[l])
     IN IF k = 0 /\ l \in setupL
        THEN /\ suStack' = rest
             /\ UNCHANGED <<setupL, mon, anyBad, toRun, pc>>
        ELSE IF k < nb
        THEN /\ suStack' = Append(Append(rest, <<l, k + 1>>), <<w.bases[l][k + 1], 0>>)
             /\ UNCHANGED <<setupL, mon, anyBad, toRun, pc>>
        ELSE IF l \in w.suF
        THEN \* setUp raises: unwinds to run_layer's handler, layer skipped
             /\ mon' = MSetUpEnd(MSetUpBegin(MIdle(mon), l), l, "raise")
             /\ suStack' = <<>> /\ anyBad' = TRUE
             /\ toRun' = Tail(toRun)
             /\ pc' = IF opt.stop THEN "final" ELSE "pick"
             /\ UNCHANGED setupL
        ELSE /\ mon' = MSetUpEnd(MSetUpBegin(MIdle(mon), l), l, "ok")
             /\ setupL' = setupL \cup {l}          \* marked only now
             /\ suStack' = rest
             /\ UNCHANGED <<anyBad, toRun, pc>>
  /\ Sync
  /\ UNCHANGED <<w, opt, proc, mode, tdq, tdOptional, curLayer, iter, tIdx,
                 shouldStop, resumeQ, shouldResume, stash, executed, usedDev>>

SetUpDone ==
  /\ pc = "setup" /\ suStack = <<>>
  /\ pc' = "tests" /\ iter' = 1 /\ tIdx' = 1 /\ shouldStop' = FALSE
  /\ UNCHANGED <<w, opt, proc, mode, toRun, setupL, tdq, tdOptional, suStack,
                 curLayer, anyBad, resumeQ, shouldResume, stash, mon, perr,
                 executed, usedDev>>

(* TestResult.layers = order_by_bases(gather_layers(layer)) *)
BracketLayers(l) == Order(w, SetToSeq(SeqSet(Gather(w.bases, l))))

(* one test: startTest (testSetUp hooks) .. phases .. stopTest (testTearDown) *)
RunTest ==
  /\ pc = "tests" /\ iter <= opt.repeat
  /\ tIdx <= Len(w.tests[curLayer]) /\ ~shouldStop
  /\ LET kind == w.tests[curLayer][tIdx]
         bl == BracketLayers(curLayer)
         unbalanced == kind = "skipdeco" /\ "SkipFallbackUnbalanced" \in Deviations
         m0 == MIdle(mon)
         m1 == IF unbalanced THEN m0 ELSE MFold(MTestSetUp, m0, bl)
         m2 == IF kind = "skipdeco" THEN m1 ELSE MTest(m1, curLayer)
         m3 == MFold(MTestTearDown, m2, Reverse(bl))
     IN /\ mon' = m3
        /\ usedDev' = IF unbalanced /\ \E l \in SeqSet(bl) : w.perUp[l] /\ w.perDown[l]
                      THEN usedDev \cup {"SkipFallbackUnbalanced"} ELSE usedDev
        /\ executed' = executed \cup {<<curLayer, tIdx, iter, proc>>}
        /\ anyBad' = (anyBad \/ kind = "bad")
        /\ shouldStop' = (opt.stop /\ kind = "bad")
  /\ tIdx' = tIdx + 1
  /\ Sync
  /\ UNCHANGED <<w, opt, proc, mode, pc, toRun, setupL, tdq, tdOptional,
                 suStack, curLayer, iter, resumeQ, shouldResume, stash>>

(* end of one iteration of the repeat loop: a new TestResult per iteration   *)
IterationEnd ==
  /\ pc = "tests" /\ iter <= opt.repeat
  /\ (tIdx > Len(w.tests[curLayer]) \/ shouldStop)
  /\ IF shouldStop /\ "RepeatResetsStop" \notin Deviations
     THEN iter' = opt.repeat + 1 /\ UNCHANGED <<shouldStop, usedDev>>
     ELSE /\ iter' = iter + 1 /\ shouldStop' = FALSE
          /\ usedDev' = IF shouldStop /\ iter < opt.repeat
                        THEN usedDev \cup {"RepeatResetsStop"} ELSE usedDev
  /\ tIdx' = 1
  /\ mon' = BumpSums(mon)                         \* output.summary(...)
  /\ UNCHANGED <<w, opt, proc, mode, pc, toRun, setupL, tdq, tdOptional,
                 suStack, curLayer, anyBad, resumeQ, shouldResume, stash,
                 perr, executed>>

(* back in Runner.run_tests after run_layer returned *)
LayerDone ==
  /\ pc = "tests" /\ iter > opt.repeat
  /\ toRun' = Tail(toRun)
  /\ pc' = IF opt.stop /\ anyBad THEN "final" ELSE "pick"
  /\ UNCHANGED <<w, opt, proc, mode, setupL, tdq, tdOptional, suStack, curLayer,
                 iter, tIdx, shouldStop, anyBad, resumeQ, shouldResume, stash,
                 mon, perr, executed, usedDev>>

(* `break` on stop-on-error: leave the loop without resuming *)
StopBreak ==
  /\ pc = "final"
  /\ pc' = "resume" /\ toRun' = <<>>
  /\ UNCHANGED <<w, opt, proc, mode, setupL, tdq, tdOptional, suStack, curLayer,
                 iter, tIdx, shouldStop, anyBad, resumeQ, shouldResume, stash,
                 mon, perr, executed, usedDev>>

(* `if should_resume: resume_tests(...)`: each remaining layer in a fresh     *)
(* child (children are modelled one after the other: their layer stacks are  *)
(* independent, the interleaving lives in Parallel.tla)                      *)
ResumeNext ==
  /\ pc = "resume" /\ mode = "parent"
  /\ IF shouldResume /\ resumeQ # <<>>
     THEN /\ stash' = <<setupL, mon, anyBad>>
          /\ proc' = proc + 1 /\ mode' = "child"
          /\ toRun' = <<Head(resumeQ)>> /\ resumeQ' = Tail(resumeQ)
          /\ setupL' = {} /\ anyBad' = FALSE
          \* spawn_layer_in_subprocess calls feature.layer_setup(layer) in the parent
          /\ mon' = [Mon0 EXCEPT !.done = mon.done, !.stat = BumpLayers(mon).stat]
          /\ pc' = "pick"
          /\ UNCHANGED <<tdq, tdOptional>>
     ELSE /\ tdq' = Reverse(Order(w, SetToSeq(setupL))) /\ tdOptional' = TRUE
          /\ pc' = "finaltd"
          /\ UNCHANGED <<stash, proc, mode, toRun, resumeQ, setupL, mon, anyBad>>
  /\ UNCHANGED <<w, opt, suStack, curLayer, iter, tIdx, shouldStop,
                 shouldResume, perr, executed, usedDev>>

ChildResumeEnd ==
  /\ pc = "resume" /\ mode = "child"
  /\ tdq' = Reverse(Order(w, SetToSeq(setupL))) /\ tdOptional' = TRUE
  /\ pc' = "finaltd"
  /\ UNCHANGED <<w, opt, proc, mode, toRun, setupL, suStack, curLayer, iter,
                 tIdx, shouldStop, anyBad, resumeQ, shouldResume, stash, mon,
                 perr, executed, usedDev>>

FinalTearDownDone ==
  /\ pc = "finaltd" /\ tdq = <<>>
  /\ mon' = LET m == MProcEnd(mon)
             IN IF Logging
                THEN [m EXCEPT !.done = Append(@, <<IF mode = "child" THEN curLayer ELSE "parent", m.log>>)]
                ELSE m
  /\ IF mode = "child"
     THEN \* child exits; the parent continues with the next one
          /\ mode' = "parent" /\ setupL' = stash[1]
          /\ anyBad' = (stash[3] \/ anyBad)     \* the child's report
          /\ pc' = "resume2"
     ELSE /\ pc' = "done" /\ UNCHANGED <<mode, setupL, anyBad>>
  /\ Sync
  /\ UNCHANGED <<w, opt, proc, toRun, tdq, tdOptional, suStack, curLayer, iter,
                 tIdx, shouldStop, resumeQ, shouldResume, stash,
                 executed, usedDev>>

(* restore the parent's monitor (the child's verdict is already in perr) *)
BackInParent ==
  /\ pc = "resume2"
  /\ mon' = [stash[2] EXCEPT !.done = mon.done, !.stat = mon.stat] /\ pc' = "resume"
  /\ UNCHANGED <<w, opt, proc, mode, toRun, setupL, tdq, tdOptional, suStack,
                 curLayer, iter, tIdx, shouldStop, anyBad, resumeQ, shouldResume,
                 stash, perr, executed, usedDev>>

Next ==
  \/ Start \/ Pick \/ TearDownOne \/ TearDownDone \/ SetUpStep \/ SetUpDone
  \/ RunTest \/ IterationEnd \/ LayerDone \/ StopBreak \/ ResumeNext
  \/ ChildResumeEnd \/ FinalTearDownDone \/ BackInParent

Spec == Init /\ [][Next]_vars /\ WF_vars(Next)

(* ----- properties -----------------------------------------------------------*)
Refines == perr = ""
RefinesAsBuilt == perr = "" \/ usedDev # {}

Done == pc = "done"

(* C03 core: every test of a layer whose closure can be set up runs exactly  *)
(* once per iteration, in exactly one process (without --stop-on-error).     *)
Runnable(l) == Closure(w.bases, l) \cap w.suF = {}
ExpectedExec ==
  {<<l, k, it>> \in SeqSet(w.layers) \X (1..MaxTests) \X (1..opt.repeat) :
      l \in Owners(w) /\ k <= Len(w.tests[l]) /\ Runnable(l)}
ExecProj == {<<x[1], x[2], x[3]>> : x \in executed}
AllRun == (Done /\ ~opt.stop) =>
            /\ ExecProj = ExpectedExec
            /\ Cardinality(executed) = Cardinality(ExecProj)

(* C16 core: with --stop-on-error nothing runs after the first bad test of a *)
(* process (checked on the ghost: at most one bad test executed per process) *)
BadRuns(p) == {x \in executed : x[4] = p /\ w.tests[x[1]][x[2]] = "bad"}
StopHolds == opt.stop =>
  \A p \in 1..proc : Cardinality(BadRuns(p)) <= 1
StopHoldsAsBuilt == StopHolds \/ usedDev # {}

(* C01 cross-process clause: after a non-optional NotImplementedError the    *)
(* remaining layers run in pairwise distinct fresh children                  *)
FreshChildren ==
  \A a, b \in executed : (a[4] = b[4] /\ a[4] # 1) => a[1] = b[1]

Termination == <>Done

(* vacuity probes: each must be VIOLATED (reachable) *)
ProbeResume == ~(Done /\ proc > 1)
ProbeNotImplParent == ~(Done /\ \E l \in SeqSet(w.layers) : w.td[l] = "notimpl" /\ proc > 1)
=============================================================================
