CONSTANTS
  W = 27
  VSet = {0, 1, 2, 3}
  PSet = {TRUE, FALSE}
  N = 12
  Layers = 1
  NameLens = {2, 9, 30}
  TimeLen = 7
  SkipLen = 4
  GcCounts = {0, 1}
  Deviations = {}
SPECIFICATION Spec
INVARIANT TypeOK
INVARIANT NoResidue
INVARIANT NoWrapV1
INVARIANT CleanEnd
INVARIANT Covers
PROPERTY Term1
