CONSTANTS NT = 0 R = 1 NI = 0 Deviations = {}
SPECIFICATION CharSpec
INVARIANT CharTableExhaustiveInv
CHECK_DEADLOCK FALSE
