CONSTANTS K = 3 N = 2 L = 2 Deviations = {} DepC = 0 DepD = 0 FailSpawn = {}
SPECIFICATION Spec
INVARIANT AliveBound
INVARIANT Ordered
INVARIANT Complete
PROPERTY Term
VIEW View
CHECK_DEADLOCK FALSE
