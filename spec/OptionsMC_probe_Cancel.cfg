CONSTANTS MaxArgs = 2 MaxDefs = 1 Dev = {}
SPECIFICATION Spec
INVARIANT ProbeCancel
CHECK_DEADLOCK FALSE
