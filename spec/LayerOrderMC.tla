---------------------------- MODULE LayerOrderMC ----------------------------
(* C10, exhaustive part: for every ordered-base DAG on <= MaxN layers, every *)
(* naming (rank assignment), every non-empty subset of requested layers      *)
(* (optionally plus the unit layer) and EVERY order in which the requested   *)
(* layers are presented, the transcription of order_by_bases                 *)
(*   - yields a valid order (once each, bases first, unit layer first), and  *)
(*   - yields the same order whatever the presentation order.                *)
EXTENDS Naturals, Sequences, FiniteSets, TLC, SequencesExt, FiniteSetsExt,
        LayerOrder, GraphFamily

CONSTANTS MaxN, WithUnit

U == "U"
VARIABLES n, g, rank, req
vars == <<n, g, rank, req>>

Perms(S) == {s \in [1..Cardinality(S) -> S] : \A a, b \in DOMAIN s : a # b => s[a] # s[b]}
Ranks(k) == {r \in [LSet(k) -> 1..k] : \A a, b \in LSet(k) : a # b => r[a] # r[b]}

Bases == [l \in LSet(n) \cup {U} |-> IF l = U THEN <<>> ELSE NamedBases(g)[l]]
Rank == [l \in LSet(n) \cup {U} |-> IF l = U THEN 0 ELSE rank[l]]

Init == /\ n \in 1..MaxN
        /\ g \in GraphsOn(n)
        /\ rank \in Ranks(n)
        /\ req \in {S \cup X : S \in SUBSET LSet(n) \ {{}}, X \in IF WithUnit THEN {{}, {U}} ELSE {{}}}
Next == UNCHANGED vars
Spec == Init /\ [][Next]_vars

Ord(s) == OrderByBases(Bases, Rank, U, s)

Valid == \A s \in Perms(req) : ValidOrder(Bases, U, req, Ord(s))
Deterministic == \A s, t \in Perms(req) : Ord(s) = Ord(t)
=============================================================================
