SPECIFICATION Spec
CONSTANTS
  N = 4
  MemoChoices = {FALSE, TRUE}
  Deviations = {}
INVARIANT TypeOK
INVARIANT OracleSane
INVARIANT AnswerOk
INVARIANT CacheCoherent
VIEW View
CHECK_DEADLOCK FALSE
