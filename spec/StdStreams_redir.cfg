CONSTANTS NT = 2 MaxW = 2 MaxE = 2 MaxR = 1 Buffer = TRUE Deviations = {} Starts = {"main"}
SPECIFICATION Spec
INVARIANT NoLeak
INVARIANT Complete
INVARIANT Attributed
INVARIANT Restored
INVARIANT NeverReplaced
INVARIANT NotAborted
CHECK_DEADLOCK FALSE
