CONSTANTS NL = 3 MaxS = 3 R = 6 Deviations = {}
SPECIFICATION Spec
INVARIANT LoopIsFunction
INVARIANT Permutation
INVARIANT PositionRule
INVARIANT AllConsumed
INVARIANT FilterIndependent
CHECK_DEADLOCK FALSE
