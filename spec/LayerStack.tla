---------------------------- MODULE LayerStack ----------------------------
(* P-spec for C01 and C05: the stack discipline of layers inside one process *)
(* and the per-test hook bracket.  Written as guard operators over a world   *)
(* record w and a process-state record s, each returning "" (allowed) or the *)
(* name of the violated clause (Appendix A of DESIGN.md).  The same          *)
(* operators are                                                             *)
(*   - the guards of the actions of Runner.tla's refinement check, and       *)
(*   - the step function of Trace_Run.tla (trace validation of the code).    *)
(*                                                                           *)
(* w.bases : layer -> Seq(layer);  w.life[l] : l has setUp/tearDown hooks    *)
(* (observable);  w.perUp[l] / w.perDown[l] : l has a testSetUp /            *)
(* testTearDown hook (a layer may have only one of the two).                 *)
(* Hook-less layers are unobservable, so every set below is restricted to    *)
(* the hooked layers; the ancestor relation is NOT restricted (a hook-less   *)
(* intermediate layer does not open a gap).                                  *)
EXTENDS Naturals, Sequences, FiniteSets, LayerGraph

Layers(w) == SeqSet(w.layers)
LifeL(w) == {l \in Layers(w) : w.life[l]}
PerUpL(w)   == {l \in Layers(w) : w.perUp[l]}
PerDownL(w) == {l \in Layers(w) : w.perDown[l]}
LifeClosure(w, l) == Closure(w.bases, l) \cap LifeL(w)
PerUpClosure(w, l)   == Closure(w.bases, l) \cap PerUpL(w)
PerDownClosure(w, l) == Closure(w.bases, l) \cap PerDownL(w)
LifeAnc(w, l) == Anc(w.bases, l) \cap LifeL(w)
PerUpAnc(w, l) == Anc(w.bases, l) \cap PerUpL(w)
LifeDesc(w, l) == Desc(w.bases, LifeL(w), l)

(* ----- process state ----------------------------------------------------- *)
(* su      layers (with life hooks) currently set up                         *)
(* busy    "", "su" or "td": inside a layer's setUp / tearDown; busyL: which *)
(* cant    a tearDown raised NotImplementedError in this process             *)
(* br      the current per-test bracket: layers whose testSetUp ran, in order*)
(* td      layers whose testTearDown ran in this bracket, in order           *)
(* tl      the layer of the bracket's test ("?" until a test phase is seen:  *)
(*         decorator-skipped tests never execute any test code)              *)
(* ph      "idle" | "opening" | "running" | "closing"                        *)
(* ghosts  brackets that ended without any test phase                        *)
NoLayer == "?"
Proc0 == [su |-> {}, busy |-> "", busyL |-> "", cant |-> FALSE,
          br |-> <<>>, td |-> <<>>, tl |-> NoLayer, ph |-> "idle", ghosts |-> 0]

(* ----- C01 --------------------------------------------------------------- *)
SetUpBeginErr(w, s, l) ==
  IF l \in s.su THEN "C01:setUp-while-set-up"
  ELSE IF ~(LifeAnc(w, l) \subseteq s.su) THEN "C01:setUp-bases-missing"
  ELSE IF s.cant THEN "C01:setUp-after-notimpl"
  ELSE ""

SetUpBegin(s, l) == [s EXCEPT !.busy = "su", !.busyL = l]

SetUpEndErr(w, s, l) ==
  IF s.busy # "su" \/ s.busyL # l THEN "C01:setUp-end-unmatched" ELSE ""

SetUpEnd(s, l, status) ==
  [s EXCEPT !.busy = "", !.busyL = "",
            !.su = IF status = "ok" THEN s.su \cup {l} ELSE s.su]

TearDownBeginErr(w, s, l) ==
  IF l \notin s.su THEN "C01:tearDown-not-set-up"
  ELSE IF LifeDesc(w, l) \cap s.su # {} THEN "C01:tearDown-before-derived"
  ELSE ""

TearDownBegin(s, l) == [s EXCEPT !.busy = "td", !.busyL = l]

TearDownEndErr(w, s, l) ==
  IF s.busy # "td" \/ s.busyL # l THEN "C01:tearDown-end-unmatched" ELSE ""

(* Whatever tearDown did, the attempt is over and the layer counts as gone.  *)
TearDownEnd(s, l, status) ==
  [s EXCEPT !.busy = "", !.busyL = "", !.su = s.su \ {l},
            !.cant = s.cant \/ status = "notimpl"]

(* A test (layer tl) starts executing.                                       *)
TestStartErr(w, s, tl) ==
  IF s.su # LifeClosure(w, tl) THEN "C01:test-wrong-stack"
  ELSE IF s.cant THEN "C01:test-after-notimpl"
  ELSE IF s.busy # "" THEN "C01:test-inside-layer-hook"
  ELSE ""

ProcEndErr(w, s) == IF s.su # {} THEN "C01:left-set-up" ELSE ""

(* ----- C05 --------------------------------------------------------------- *)
(* A bracket is: testSetUp calls (bases first), the test's own phases,       *)
(* testTearDown calls (exact mirror).  A layer may define only one of the    *)
(* two hooks; then only that half is observable.  A new bracket begins at a  *)
(* testSetUp or at the first phase of another test once the current bracket  *)
(* has seen a test phase or a testTearDown, and the old one must then be     *)
(* complete.                                                                 *)
BracketNew(s) ==
  [s EXCEPT !.br = <<>>, !.td = <<>>, !.tl = NoLayer, !.ph = "idle",
            !.ghosts = IF s.ph # "idle" /\ s.tl = NoLayer THEN @ + 1 ELSE @]

(* the layers that owe a testTearDown in the current bracket *)
ExpectDown(w, s) ==
  IF s.tl # NoLayer THEN PerDownClosure(w, s.tl)
  ELSE {l \in SeqSet(s.br) : w.perDown[l]}

(* between tests and at process end no bracket may be open *)
BracketClosedErr(w, s) ==
  IF s.ph = "idle" THEN ""
  ELSE IF ~(ExpectDown(w, s) \subseteq SeqSet(s.td)) THEN "C05:unbalanced"
  ELSE ""

Used(s) == s.ph \in {"running", "closing"}

TestSetUpErr(w, s, l) ==
  IF l \in SeqSet(s.br) THEN "C05:testSetUp-twice"
  ELSE IF ~(PerUpAnc(w, l) \subseteq SeqSet(s.br)) THEN "C05:testSetUp-order"
  ELSE ""

(* <<clause, next state>> *)
(* A testSetUp for a layer that already had one, in a bracket that owes no  *)
(* testTearDown, opens the bracket after a test that ran no code.           *)
(* If only a prefix of the calls seen so far (up to the earlier call for l)   *)
(* owes no testTearDown, that prefix was the whole bracket of such a test    *)
(* and the rest already belongs to the next one (layer switched to without   *)
(* an observable event).                                                     *)
GhostPrefix(w, s, l) ==
  IF s.ph = "opening" /\ l \in SeqSet(s.br)
  THEN LET k == CHOOSE j \in 1..Len(s.br) : s.br[j] = l
       IN IF \A j \in 1..k : ~w.perDown[s.br[j]] THEN k ELSE 0
  ELSE 0

BrTestSetUp(w, s, l) ==
  LET again == s.ph = "opening" /\ l \in SeqSet(s.br) /\ BracketClosedErr(w, s) = ""
      new == Used(s) \/ again
      ce == IF Used(s) THEN BracketClosedErr(w, s) ELSE ""
      k == IF new THEN 0 ELSE GhostPrefix(w, s, l)
      s1 == IF new THEN BracketNew(s)
            ELSE IF k > 0 THEN [s EXCEPT !.br = SubSeq(s.br, k + 1, Len(s.br)), !.ghosts = @ + 1]
            ELSE s
  IN <<IF ce # "" THEN ce ELSE TestSetUpErr(w, s1, l),
       [s1 EXCEPT !.br = Append(s1.br, l), !.ph = "opening"]>>

(* first phase event of a test of layer tl *)
BracketAtTestErr(w, s, tl) ==
  IF SeqSet(s.br) # PerUpClosure(w, tl) THEN
       (IF SeqSet(s.br) \subseteq PerUpClosure(w, tl)
        THEN "C05:test-without-bracket" ELSE "C05:testSetUp-outside-stack")
  ELSE ""

(* The testSetUp calls seen so far may belong to two brackets: first those of *)
(* a test that ran no code (decorator skip) in a layer that was switched to   *)
(* without an observable event and owes no testTearDown, then those of this   *)
(* test.  Split(w, s, tl) = number of leading calls that form such a ghost    *)
(* bracket (0: none).                                                         *)
Split(w, s, tl) ==
  LET need == PerUpClosure(w, tl)
      ks == {k \in 1..Len(s.br) :
               /\ {s.br[j] : j \in (k + 1)..Len(s.br)} = need
               /\ \A j \in 1..k : ~w.perDown[s.br[j]] /\ s.br[j] \notin need}
  IN IF s.ph = "opening" /\ SeqSet(s.br) # need /\ ks # {} THEN CHOOSE k \in ks : TRUE ELSE 0

BrTest(w, s, tl) ==
  LET ce == IF Used(s) THEN BracketClosedErr(w, s) ELSE ""
      s0 == IF Used(s) THEN BracketNew(s) ELSE s
      k == Split(w, s0, tl)
      s1 == IF k = 0 THEN s0
            ELSE [s0 EXCEPT !.br = SubSeq(s0.br, k + 1, Len(s0.br)), !.ghosts = @ + 1]
  IN <<IF ce # "" THEN ce ELSE BracketAtTestErr(w, s1, tl),
       [s1 EXCEPT !.tl = tl, !.ph = "running"]>>

(* a later phase of the bracket's own test *)
SamePhaseErr(s) ==
  IF s.ph = "closing" THEN "C05:testTearDown-before-test-end" ELSE ""

IndexIn(q, x) == CHOOSE k \in 1..Len(q) : q[k] = x

TestTearDownErr(w, s, l) ==
  LET exp == ExpectDown(w, s) IN
  IF l \in SeqSet(s.td) THEN "C05:testTearDown-twice"
  ELSE IF s.tl # NoLayer /\ l \notin exp THEN "C05:testTearDown-outside-stack"
  ELSE IF w.perUp[l] /\ l \notin SeqSet(s.br) THEN "C05:unbalanced"
  ELSE IF \E d \in exp \ (SeqSet(s.td) \cup {l}) : l \in Anc(w.bases, d)
       THEN "C05:testTearDown-order"
  ELSE IF l \in SeqSet(s.br) /\
          \E k \in (IndexIn(s.br, l) + 1)..Len(s.br) :
              w.perDown[s.br[k]] /\ s.br[k] \notin SeqSet(s.td)
       THEN "C05:testTearDown-order"
  ELSE ""

(* A testTearDown in a complete bracket, for a layer that already had one or *)
(* that the bracket's test does not owe one (its layer was switched to       *)
(* without an observable event: a layer whose only hook is testTearDown),    *)
(* opens the bracket of a test that ran no code (decorator skip).            *)
BrTestTearDown(w, s, l) ==
  LET again == /\ s.ph \in {"closing", "running"} /\ BracketClosedErr(w, s) = ""
               /\ \/ (s.ph = "closing" /\ l \in SeqSet(s.td))
                  \/ (s.tl # NoLayer /\ l \notin ExpectDown(w, s))
      s1 == IF again \/ s.ph = "idle" THEN BracketNew(s) ELSE s
  IN <<TestTearDownErr(w, s1, l),
       [s1 EXCEPT !.td = Append(s1.td, l), !.ph = "closing"]>>

(* a layer hook / the process end: whatever bracket there was is over *)
BrIdle(w, s) == <<BracketClosedErr(w, s), BracketNew(s)>>
=============================================================================
