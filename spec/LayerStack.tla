---------------------------- MODULE LayerStack ----------------------------
(* P-spec for C01 and C05: the stack discipline of layers inside one process *)
(* and the per-test hook bracket.  Written as guard operators over a world   *)
(* record w and a process-state record s, each returning "" (allowed) or the *)
(* name of the violated clause (Appendix A of DESIGN.md).  The same          *)
(* operators are                                                             *)
(*   - the guards of the actions of Runner.tla's refinement check, and       *)
(*   - the step function of Trace_Run.tla (trace validation of the code).    *)
(*                                                                           *)
(* w.bases : layer -> Seq(layer);  w.life[l] : l has setUp/tearDown hooks    *)
(* (observable);  w.per[l] : l has testSetUp/testTearDown hooks.             *)
(* Hook-less layers are unobservable, so every set below is restricted to    *)
(* the hooked layers; the ancestor relation is NOT restricted (a hook-less   *)
(* intermediate layer does not open a gap).                                  *)
EXTENDS Naturals, Sequences, FiniteSets, LayerGraph

Layers(w) == SeqSet(w.layers)
LifeL(w) == {l \in Layers(w) : w.life[l]}
PerL(w)  == {l \in Layers(w) : w.per[l]}
LifeClosure(w, l) == Closure(w.bases, l) \cap LifeL(w)
PerClosure(w, l)  == Closure(w.bases, l) \cap PerL(w)
LifeAnc(w, l) == Anc(w.bases, l) \cap LifeL(w)
PerAnc(w, l)  == Anc(w.bases, l) \cap PerL(w)
LifeDesc(w, l) == Desc(w.bases, LifeL(w), l)

(* ----- process state ----------------------------------------------------- *)
(* su      layers (with life hooks) currently set up                         *)
(* busy    "", "su" or "td": inside a layer's setUp / tearDown; busyL: which *)
(* cant    a tearDown raised NotImplementedError in this process             *)
(* br      the open per-test bracket: layers whose testSetUp ran, in order   *)
(* ph      "idle" | "opening" | "running" | "closing"                        *)
Proc0 == [su |-> {}, busy |-> "", busyL |-> "", cant |-> FALSE,
          br |-> <<>>, ph |-> "idle"]

(* ----- C01 --------------------------------------------------------------- *)
SetUpBeginErr(w, s, l) ==
  IF l \in s.su THEN "C01:setUp-while-set-up"
  ELSE IF ~(LifeAnc(w, l) \subseteq s.su) THEN "C01:setUp-bases-missing"
  ELSE IF s.cant THEN "C01:setUp-after-notimpl"
  ELSE ""

SetUpBegin(s, l) == [s EXCEPT !.busy = "su", !.busyL = l]

SetUpEndErr(w, s, l) ==
  IF s.busy # "su" \/ s.busyL # l THEN "C01:setUp-end-unmatched" ELSE ""

SetUpEnd(s, l, status) ==
  [s EXCEPT !.busy = "", !.busyL = "",
            !.su = IF status = "ok" THEN s.su \cup {l} ELSE s.su]

TearDownBeginErr(w, s, l) ==
  IF l \notin s.su THEN "C01:tearDown-not-set-up"
  ELSE IF LifeDesc(w, l) \cap s.su # {} THEN "C01:tearDown-before-derived"
  ELSE ""

TearDownBegin(s, l) == [s EXCEPT !.busy = "td", !.busyL = l]

TearDownEndErr(w, s, l) ==
  IF s.busy # "td" \/ s.busyL # l THEN "C01:tearDown-end-unmatched" ELSE ""

(* Whatever tearDown did, the attempt is over and the layer counts as gone.  *)
TearDownEnd(s, l, status) ==
  [s EXCEPT !.busy = "", !.busyL = "", !.su = s.su \ {l},
            !.cant = s.cant \/ status = "notimpl"]

(* A test (layer tl) starts executing.                                       *)
TestStartErr(w, s, tl) ==
  IF s.su # LifeClosure(w, tl) THEN "C01:test-wrong-stack"
  ELSE IF s.cant THEN "C01:test-after-notimpl"
  ELSE IF s.busy # "" THEN "C01:test-inside-layer-hook"
  ELSE ""

ProcEndErr(w, s) == IF s.su # {} THEN "C01:left-set-up" ELSE ""

(* ----- C05 --------------------------------------------------------------- *)
TestSetUpErr(w, s, l) ==
  IF s.ph \in {"running", "closing"} /\ s.br # <<>>
  THEN "C05:testSetUp-inside-bracket"
  ELSE IF l \in SeqSet(s.br) THEN "C05:testSetUp-twice"
  ELSE IF ~(PerAnc(w, l) \subseteq SeqSet(s.br)) THEN "C05:testSetUp-order"
  ELSE ""

TestSetUp(s, l) == [s EXCEPT !.br = Append(s.br, l), !.ph = "opening"]

(* first phase event of a test of layer tl *)
BracketAtTestErr(w, s, tl) ==
  IF s.ph = "closing" THEN "C05:test-inside-closing-bracket"
  ELSE IF SeqSet(s.br) # PerClosure(w, tl) THEN
       (IF SeqSet(s.br) \subseteq PerClosure(w, tl)
        THEN "C05:test-without-bracket" ELSE "C05:testSetUp-outside-stack")
  ELSE ""

TestRuns(s) == [s EXCEPT !.ph = "running"]

TestTearDownErr(w, s, l) ==
  IF s.br = <<>> THEN "C05:unbalanced"
  ELSE IF s.br[Len(s.br)] # l THEN "C05:testTearDown-order"
  ELSE ""

TestTearDown(s, l) ==
  LET nb == SubSeq(s.br, 1, Len(s.br) - 1) IN
  [s EXCEPT !.br = nb, !.ph = IF nb = <<>> THEN "idle" ELSE "closing"]

(* between tests and at process end no bracket may be open *)
BracketClosedErr(s) == IF s.br # <<>> THEN "C05:unbalanced" ELSE ""
=============================================================================
