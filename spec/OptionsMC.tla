------------------------------ MODULE OptionsMC ------------------------------
(* Exhaustive check of Options.tla: every command line of <= MaxArgs tokens  *)
(* over a 14-token alphabet x every defaults list of <= MaxDefs tokens x the *)
(* legacy positional filters; the normalisation runs as a pipeline, one      *)
(* action per step of get_options.  At the end the code's reading of the     *)
(* normalised options (Filter.global_setup, find.tests_from_suite) must      *)
(* agree with the documented meaning of the RAW switches, for every layer    *)
(* kind, every match relation and every level.                               *)
EXTENDS Options

CONSTANTS MaxArgs, MaxDefs, Dev

Tok(k, v, n) == [k |-> k, v |-> v, n |-> n]
Alphabet == {Tok("t", "a", 0), Tok("m", "a", 0),
             Tok("layer", "L1", 0), Tok("layer", "!L1", 0), Tok("layer", UnitName, 0),
             Tok("at", "", 0), Tok("at", "", 2), Tok("only", "", 1),
             Tok("u", "", 0), Tok("f", "", 0), Tok("all", "", 0),
             Tok("q", "", 0), Tok("usecompiled", "", 0), Tok("v", "", 0)}
DefAlphabet == Alphabet \cup {Tok("N", "", 2), Tok("k", "", 0)}
Positionals == {<<>>, <<Tok("pos", ".", 0)>>, <<Tok("pos", "mod", 0)>>,
                <<Tok("pos", "mod", 0), Tok("pos", "tst", 0)>>,
                <<Tok("pos", ".", 0), Tok("pos", "tst", 0)>>,
                <<Tok("pos", "", 0), Tok("pos", "tst", 0)>>}
SeqsUpTo(S, n) == UNION {[1..k -> S] : k \in 0..n}

VARIABLES defs, args, pc, ns
vars == <<defs, args, pc, ns>>

Init == /\ defs \in SeqsUpTo(DefAlphabet, MaxDefs)
        /\ \E a \in SeqsUpTo(Alphabet, MaxArgs), p \in Positionals : args = a \o p
        /\ pc = 0 /\ ns = Ns0

DoParse == pc = 0 /\ ns' = Parse(defs, args) /\ pc' = 1 /\ UNCHANGED <<defs, args>>
DoStep(name) == /\ pc \in 1..Len(Steps) /\ Steps[pc] = name
                /\ ns' = StepFn(name, ns, Dev) /\ pc' = pc + 1 /\ UNCHANGED <<defs, args>>
Legacy == DoStep("legacy")
Defaults == DoStep("defaults")
All == DoStep("all")
Cancel == DoStep("cancel")
Hack == DoStep("hack")
Dict == DoStep("dict")
Compiled == DoStep("compiled")
Quiet == DoStep("quiet")
Next == DoParse \/ Legacy \/ Defaults \/ All \/ Cancel \/ Hack \/ Dict \/ Compiled \/ Quiet
Spec == Init /\ [][Next]_vars /\ WF_vars(Next)

Done == pc = Len(Steps) + 1
Pats == {"L1", "!L1", UnitName}
NegPats == {"!L1"}
(* A1: the unit layer's own name, used as a pattern by the -u hack, is found *)
(* in the unit layer's name and in no other layer's name.                    *)
Rels(isUnit) == {m \in [Pats -> BOOLEAN] : m["!L1"] = m["L1"] /\ m[UnitName] = isUnit}

PipelineIsNormalize == Done => ns = Normalize(defs, args, Dev)
Clauses == Done => PClauses(defs, args, ns)
UnitSwitches == Done => \A isUnit \in BOOLEAN : \A m \in Rels(isUnit) :
                   CodeKeeps(ns, isUnit, NegPats, m) = DocKeeps(defs, args, isUnit, NegPats, m)
LevelSwitches == Done => \A level \in -1..3 : CodeEligible(ns, level) = DocEligible(defs, args, level)
Terminates == <>Done
(* reachability probes (vacuity guards): each must be VIOLATED               *)
ProbeCancel == ~(Done /\ Given(defs, args, "u") /\ Given(defs, args, "f") /\ ns.layer # <<>>)
ProbeLegacy == ~(Done /\ Len(ns.module) = 2 /\ Len(ns.test) = 2)
=============================================================================
