CONSTANTS NTests = 2 Deviations = {} PreChoices = {"none", "both", "sys"}
CONSTANTS OptUniverse = {"gc", "G", "A", "coverage", "profile", "buffer", "warnings", "D", "x"}
CONSTANTS PreDebugChoices = {{}} GChoices = {{"DEBUG_UNCOLLECTABLE"}} V4Choices = {TRUE}
CONSTANTS NestChoices = {FALSE} InnerOptUniverse = {} InnerEndings = {} MaxNest = 0
SPECIFICATION Spec
INVARIANT Restored
INVARIANT HooksRestored
INVARIANT MidAsPredicted
INVARIANT DebugAsPredicted
PROPERTY Terminates
CHECK_DEADLOCK FALSE
