CONSTANTS NTests = 2 Deviations = {} PreChoices = {TRUE, FALSE}
SPECIFICATION Spec
INVARIANT Restored
INVARIANT HooksRestored
INVARIANT MidAsPredicted
PROPERTY Terminates
CHECK_DEADLOCK FALSE
