CONSTANTS NTests = 2 Deviations = {} PreChoices = {"none", "both", "sys"}
SPECIFICATION Spec
INVARIANT Restored
INVARIANT HooksRestored
INVARIANT MidAsPredicted
PROPERTY Terminates
CHECK_DEADLOCK FALSE
