------------------------------- MODULE Tarjan -------------------------------
(* I-spec of zope.testrunner.digraph.DiGraph.sccs: the iterative Tarjan      *)
(* algorithm, one action per iteration of its loops.  What the code leaves   *)
(* to set iteration order is nondeterministic here (constant Orders):        *)
(*   - `next(iter(unvisited))`            : any unvisited node               *)
(*   - `visits.extend(self._neighbors[n])`: the neighbours in any order      *)
(* Deviation "NoEntryKeyError": in default mode the triviality test indexes  *)
(* `self._neighbors[n]`, which raises KeyError for a node that never got a   *)
(* neighbour entry (add_neighbors was never called for it).                  *)
EXTENDS Naturals, Sequences, FiniteSets, TLC, SequencesExt, SccOracle

CONSTANTS N,            \* nodes 1..N
          Orders,       \* "all" | "canonical"
          Trivials,     \* subset of BOOLEAN: the `trivial` argument
          WithNoEntry,  \* BOOLEAN: also explore nodes without neighbour entry
          Deviations

Nodes == 1..N
RTN == 0                 \* the rtn_marker

VARIABLES succ, entry, trivial,                \* the input (fixed)
          unvisited, st, ancestors, stack, visits, cnt, yielded, pc
vars == <<succ, entry, trivial, unvisited, st, ancestors, stack, visits, cnt, yielded, pc>>

NoState == [dfs |-> 0, low |-> 0, stacked |-> FALSE, seen |-> FALSE]

Init ==
  /\ succ \in [Nodes -> SUBSET Nodes]
  /\ entry \in IF WithNoEntry THEN [Nodes -> BOOLEAN] ELSE {[n \in Nodes |-> TRUE]}
  /\ \A n \in Nodes : ~entry[n] => succ[n] = {}
  /\ trivial \in Trivials
  /\ unvisited = Nodes
  /\ st = [n \in Nodes |-> NoState]
  /\ ancestors = <<>> /\ stack = <<>> /\ visits = <<>>
  /\ cnt = 0 /\ yielded = <<>> /\ pc = "run"

Top(s) == s[Len(s)]
Pop(s) == SubSeq(s, 1, Len(s) - 1)

Perms(S) == {s \in [1..Cardinality(S) -> S] : \A a, b \in DOMAIN s : a # b => s[a] # s[b]}
Asc(S) == CHOOSE s \in Perms(S) : \A a, b \in DOMAIN s : a < b => s[a] < s[b]
PushOrders(S) == IF Orders = "all" THEN Perms(S) ELSE {Asc(S)}
RootChoices == IF Orders = "all" THEN unvisited
               ELSE {CHOOSE n \in unvisited : \A m \in unvisited : n <= m}

(* `while unvisited: node = next(iter(unvisited)); visits.append(node)` *)
PickRoot ==
  /\ pc = "run" /\ visits = <<>> /\ unvisited # {}
  /\ \E n \in RootChoices : visits' = <<n>>
  /\ UNCHANGED <<succ, entry, trivial, unvisited, st, ancestors, stack, cnt, yielded, pc>>

(* scheduled first visit of a node *)
FirstVisit ==
  /\ pc = "run" /\ visits # <<>> /\ Top(visits) # RTN
  /\ LET n == Top(visits) IN
     IF st[n].seen
     THEN \* already visited: if still stacked, update the parent's low
          /\ st' = IF st[n].stacked /\ st[n].dfs < st[Top(ancestors)].low
                   THEN [st EXCEPT ![Top(ancestors)].low = st[n].dfs] ELSE st
          /\ visits' = Pop(visits)
          /\ UNCHANGED <<unvisited, ancestors, stack, cnt>>
     ELSE /\ unvisited' = unvisited \ {n}
          /\ st' = [st EXCEPT ![n] = [dfs |-> cnt, low |-> cnt, stacked |-> TRUE, seen |-> TRUE]]
          /\ cnt' = cnt + 1
          /\ ancestors' = Append(ancestors, n)
          /\ stack' = Append(stack, n)
          /\ \E ord \in PushOrders(succ[n]) : visits' = Append(Pop(visits), RTN) \o ord
  /\ UNCHANGED <<succ, entry, trivial, yielded, pc>>

(* the nodes popped for the component rooted in n, top of stack first *)
RECURSIVE PopUntil(_, _)
PopUntil(s, n) == IF Top(s) = n THEN <<n>> ELSE <<Top(s)>> \o PopUntil(Pop(s), n)

(* second visit: back at the top of `ancestors` *)
ReturnVisit ==
  /\ pc = "run" /\ visits # <<>> /\ Top(visits) = RTN
  /\ LET n == Top(ancestors)
         anc == Pop(ancestors)
         root == st[n].low = st[n].dfs
         scc == IF root THEN PopUntil(stack, n) ELSE <<>>
         st1 == IF root THEN [m \in Nodes |-> IF m \in ToSet(scc)
                                                THEN [st[m] EXCEPT !.stacked = FALSE] ELSE st[m]]
                ELSE st
         single == root /\ Len(scc) = 1 /\ ~trivial
         raises == single /\ ~entry[n] /\ "NoEntryKeyError" \in Deviations
         skip == single /\ n \notin succ[n]
         \* propagate low to the parent (the code skips this after `continue`;
         \* for a single-node root it is a no-op anyway)
         st2 == IF anc # <<>> /\ ~skip /\ st1[n].low < st1[Top(anc)].low
                THEN [st1 EXCEPT ![Top(anc)].low = st1[n].low] ELSE st1
     IN /\ visits' = Pop(visits)
        /\ ancestors' = anc
        /\ stack' = IF root THEN SubSeq(stack, 1, Len(stack) - Len(scc)) ELSE stack
        /\ IF raises
           THEN pc' = "raised" /\ st' = st1 /\ UNCHANGED yielded
           ELSE /\ pc' = pc
                /\ st' = st2
                /\ yielded' = IF root /\ ~skip THEN Append(yielded, ToSet(scc)) ELSE yielded
  /\ UNCHANGED <<succ, entry, trivial, unvisited, cnt>>

Next == PickRoot \/ FirstVisit \/ ReturnVisit
Spec == Init /\ [][Next]_vars /\ WF_vars(Next)

Finished == pc = "run" /\ visits = <<>> /\ unvisited = {}

(* ----- properties (C20) ------------------------------------------------------*)
YieldedSet == {yielded[i] : i \in 1..Len(yielded)}
Correct == Finished => /\ YieldedSet = Expected(Nodes, succ, trivial)
                       /\ Len(yielded) = Cardinality(YieldedSet)     \* each once
NeverRaises == pc # "raised"
(* everything yielded so far is a component, yielded at most once *)
Partial == /\ \A i \in 1..Len(yielded) : yielded[i] \in Components(Nodes, succ)
           /\ \A i, j \in 1..Len(yielded) : yielded[i] = yielded[j] => i = j
StackDiscipline == \A n \in Nodes : st[n].stacked <=> n \in ToSet(stack)
Termination == <>(Finished \/ pc = "raised")
=============================================================================
