----------------------------- MODULE Selection -----------------------------
(* C09 / C03: which layer and level a test has, and whether it is selected.  *)
(*                                                                           *)
(* decl[t] is the path of declarations from the outermost suite down to the  *)
(* test itself:  <<[layer |-> "" or name, hasLevel |-> BOOLEAN, level |-> n]>>*)
(* The nearest (innermost) declaration wins; defaults: unit layer, level 1.  *)
EXTENDS Naturals, Integers, Sequences, FiniteSets, LayerGraph, Filter

MaxOf(S) == CHOOSE x \in S : \A y \in S : y <= x

EffLayer(decl) ==
  LET idx == {i \in 1..Len(decl) : decl[i].layer # ""} IN
  IF idx = {} THEN Unit ELSE decl[MaxOf(idx)].layer

EffLevel(decl) ==
  LET idx == {i \in 1..Len(decl) : decl[i].hasLevel} IN
  IF idx = {} THEN 1 ELSE decl[MaxOf(idx)].level

(* o.onlyLevel = -1000 encodes "not given"; o.all <=> --all.                 *)
NoLevel == -1000
Eligible(o, level) ==
  IF o.onlyLevel # NoLevel THEN level = o.onlyLevel
  ELSE o.all \/ o.atLevel <= 0 \/ level <= o.atLevel

(* --unit keeps only the unit layer, --non-unit drops it, both cancel.       *)
(* o.lpats / lmv: --layer patterns and their match vector for the layer name.*)
KeepLayer(o, layer, lmv) ==
  LET u  == o.unit /\ ~o.nonUnit
      nu == o.nonUnit /\ ~o.unit
  IN IF layer = Unit
     THEN ~nu /\ (u \/ Len(o.lpats) = 0 \/ Accept(o.lpats, lmv))
     ELSE ~u /\ (Len(o.lpats) = 0 \/ Accept(o.lpats, lmv))
=============================================================================
