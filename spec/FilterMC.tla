------------------------------ MODULE FilterMC ------------------------------
(* C08, exhaustive part: every pattern list of length <= MaxLen over the    *)
(* abstract patterns Pats (each positive or negated), every match relation   *)
(* of the patterns with one candidate name.  Checks the corollaries of       *)
(* Filter!Accept with their exact preconditions, order / duplicate           *)
(* independence, and that the list form agrees with the set form used by     *)
(* the TLAPS lemmas (proofs/FilterLemmas.tla).                               *)
EXTENDS Naturals, Sequences, FiniteSets, TLC, Filter

CONSTANTS Pats, MaxLen

Item == [neg : BOOLEAN, id : Pats]
Lists == UNION {[1..k -> Item] : k \in 0..MaxLen}

VARIABLES ps, m          \* the list, the set of patterns that match the name
vars == <<ps, m>>

Init == ps \in Lists /\ m \in SUBSET Pats
Next == UNCHANGED vars
Spec == Init /\ [][Next]_vars

MV(q) == [i \in 1..Len(q) |-> q[i].id \in m]
Acc(q) == Accept(q, MV(q))

PosSet(q) == {q[i].id : i \in Pos(q)}
NegSet(q) == {q[i].id : i \in Neg(q)}
AccSets(P, N) ==
  /\ IF P = {} /\ N # {} THEN TRUE ELSE \E p \in P : p \in m
  /\ ~ \E q \in N : q \in m

ListFormIsSetForm == Acc(ps) = AccSets(PosSet(ps), NegSet(ps))

(* the statement's first sentence, literally *)
Definition ==
  Acc(ps) = ( /\ \/ \E i \in 1..Len(ps) : ~ps[i].neg /\ ps[i].id \in m
                 \/ (ps # <<>> /\ \A i \in 1..Len(ps) : ps[i].neg)
              /\ ~ \E i \in 1..Len(ps) : ps[i].neg /\ ps[i].id \in m )

AddNegNeverSelects ==
  ps # <<>> => \A p \in Pats : Acc(Append(ps, [neg |-> TRUE, id |-> p])) => Acc(ps)

AddPosNeverDeselects ==
  (Pos(ps) # {} \/ Neg(ps) = {}) =>
     \A p \in Pats : Acc(ps) => Acc(Append(ps, [neg |-> FALSE, id |-> p]))

(* any two lists with the same positive and negated pattern sets agree:     *)
(* order and duplicates are irrelevant                                       *)
OrderAndDuplicatesIrrelevant ==
  \A q \in Lists : (PosSet(q) = PosSet(ps) /\ NegSet(q) = NegSet(ps)) => Acc(q) = Acc(ps)

(* vacuity probe: must be violated (the only-negatives corner exists)        *)
ProbeCorner == ~(Pos(ps) = {} /\ Neg(ps) # {} /\ Acc(ps)
                 /\ \E p \in Pats : ~Acc(Append(ps, [neg |-> FALSE, id |-> p])))
=============================================================================
