------------------------------ MODULE Trace_Scc ------------------------------
(* C20 conformance: one record per call of the real DiGraph.sccs().          *)
(*   nodes : sequence of node labels;  succ : label -> sequence of labels    *)
(*   (edges to unknown nodes are not part of the graph);  trivial : BOOLEAN; *)
(*   obs : the yielded components in order;  raised : "" or exception type.  *)
(* TLC evaluates the oracle (SccOracle.tla) and names the failing clause.    *)
EXTENDS Naturals, Sequences, FiniteSets, TLC, Json, IOUtils, SequencesExt, SccOracle

Recs == JsonDeserialize(IOEnv.TRACE_FILE)
VARIABLE k
Init == k \in 1..Len(Recs)
Next == UNCHANGED k
Spec == Init /\ [][Next]_k

Verdict(r) ==
  LET Nodes == ToSet(r.nodes)
      Succ == [x \in Nodes |-> ToSet(r.succ[x])]
      comps == [i \in 1..Len(r.obs) |-> ToSet(r.obs[i])]
      Y == {comps[i] : i \in 1..Len(r.obs)}
  IN IF r.raised # "" THEN "C20:raised"
     ELSE IF \E i \in 1..Len(r.obs) : Len(r.obs[i]) # Cardinality(comps[i]) THEN "C20:node-twice-in-component"
     ELSE IF \E i \in 1..Len(r.obs) : comps[i] \notin Components(Nodes, Succ) THEN "C20:wrong-class"
     ELSE IF Len(r.obs) # Cardinality(Y) THEN "C20:twice"
     ELSE IF Y # Expected(Nodes, Succ, r.trivial) THEN
          (IF r.trivial THEN "C20:not-partition"
           ELSE IF \E C \in Y : ~Cyclic(Succ, C) THEN "C20:acyclic-component-reported"
           ELSE "C20:cycle-missed")
     ELSE ""

Report == LET v == Verdict(Recs[k]) IN (v # "") => PrintT(<<"SCC", Recs[k].id, v>>)
=============================================================================
