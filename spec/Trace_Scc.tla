------------------------------ MODULE Trace_Scc ------------------------------
(* C20 conformance.  Two shapes of record:                                   *)
(*                                                                           *)
(* (a) one call of the real DiGraph.sccs() on a completely built graph       *)
(*   nodes : sequence of node labels;  succ : label -> sequence of labels    *)
(*   (edges to unknown nodes are not part of the graph);  trivial : BOOLEAN; *)
(*   obs : the yielded components in order;  raised : "" or exception type.  *)
(*                                                                           *)
(* (b) an API HISTORY of one DiGraph object (field `steps`):                 *)
(*   steps : the calls in order, each with raised ("" or exception type) and *)
(*     op = "ctor" | "add_nodes"   nodes : labels                            *)
(*     op = "add_neighbors"        node : label, nbs : labels                *)
(*     op = "sccs"                 trivial, obs : the components taken from  *)
(*                                 the generator in order, exhausted : the   *)
(*                                 generator was seen to end                 *)
(*   TLC folds the mutators into the abstract graph (DiGraphOps, the same    *)
(*   operators DiGraphApi.tla model-checks) and judges EVERY query against   *)
(*   the oracle for the graph as it is at that step; the first failing step  *)
(*   gives the verdict, with its index and where the query stands:           *)
(*     first-query | after-mutation (an earlier query, then a mutator) |     *)
(*     repeated-query | after-partial-query (directly after another query)   *)
(*                                                                           *)
(* TLC evaluates the oracle (SccOracle.tla) and names the failing clause.    *)
EXTENDS Naturals, Sequences, FiniteSets, TLC, Json, IOUtils, SequencesExt, DiGraphOps

Recs == JsonDeserialize(IOEnv.TRACE_FILE)
VARIABLE k
Init == k \in 1..Len(Recs)
Next == UNCHANGED k
Spec == Init /\ [][Next]_k

(* obs: sequence of sequences of labels *)
JudgeObs(Nodes, Succ, trivial, obs, exhausted) ==
  LET comps == [i \in 1..Len(obs) |-> ToSet(obs[i])]
  IN IF \E i \in 1..Len(obs) : Len(obs[i]) # Cardinality(comps[i])
     THEN "C20:node-twice-in-component"
     ELSE JudgeAnswer(Nodes, Succ, trivial, comps, exhausted)

(* ----- (a) single call ------------------------------------------------------*)
Verdict(r) ==
  LET Nodes == ToSet(r.nodes)
      Succ == [x \in Nodes |-> ToSet(r.succ[x])]
  IN IF r.raised # "" THEN "C20:raised"
     ELSE JudgeObs(Nodes, Succ, r.trivial, r.obs, TRUE)

(* ----- (b) history ------------------------------------------------------------*)
IsQuery(s) == s.op = "sccs"

StepGraph(g, s) ==
  IF s.op \in {"ctor", "add_nodes"} THEN AddNodes(g, ToSet(s.nodes))
  ELSE IF s.op = "add_neighbors" THEN AddNeighbors(g, s.node, ToSet(s.nbs))
  ELSE g

JudgeStep(g, s) ==
  IF s.raised # "" THEN "C20:raised"
  ELSE IF IsQuery(s) THEN JudgeObs(g.nodes, g.succ, s.trivial, s.obs, s.exhausted)
  ELSE ""

(* where step i stands; queried = some query among steps 1..i-1 *)
Context(steps, i, queried) ==
  IF ~IsQuery(steps[i]) THEN "mutation"
  ELSE IF ~queried THEN "first-query"
  ELSE IF ~IsQuery(steps[i - 1]) THEN "after-mutation"
  ELSE IF steps[i - 1].exhausted THEN "repeated-query"
  ELSE "after-partial-query"

RECURSIVE Hist(_, _, _, _)
Hist(steps, i, g, queried) ==
  IF i > Len(steps) THEN <<"", 0, "">>
  ELSE LET v == JudgeStep(g, steps[i])
       IN IF v # "" THEN <<v, i, Context(steps, i, queried)>>
          ELSE Hist(steps, i + 1, StepGraph(g, steps[i]), queried \/ IsQuery(steps[i]))

(* every label that ever becomes a node *)
HistUniverse(steps) ==
  UNION {ToSet(steps[i].nodes) :
           i \in {j \in 1..Len(steps) : steps[j].op \in {"ctor", "add_nodes"}}}

HistVerdict(r) == Hist(r.steps, 1, EmptyGraph(HistUniverse(r.steps)), FALSE)

IsHistory(r) == "steps" \in DOMAIN r

Report ==
  LET r == Recs[k]
  IN IF IsHistory(r)
     THEN LET h == HistVerdict(r)
          IN (h[1] # "") => PrintT(<<"SCCH", r.id, h[1], h[2], h[3]>>)
     ELSE LET v == Verdict(r) IN (v # "") => PrintT(<<"SCC", r.id, v>>)
=============================================================================
