------------------------------- MODULE Threads -------------------------------
(* C19: threads left behind by a test are reported precisely.                *)
(*                                                                           *)
(* I-spec of the mechanism (runner.py TestResult.startTest / stopTest,       *)
(* threadsupport.enumerate):                                                 *)
(*   TestStart(k)  snapshot := proxies of the running threads, equal by      *)
(*                 *ident*; a proxy of a threading.Thread knows when its     *)
(*                 thread has ended, one of a low-level (_thread) thread     *)
(*                 does not                                                  *)
(*   Start(th)     a test starts a thread (threading or _thread API); the    *)
(*                 system hands out an ident that no running thread has -    *)
(*                 possibly one a finished thread had before (ReuseIdents)   *)
(*   End(th)       a running thread finishes (released by any later test)    *)
(*   TestStop(k)   report[k] := running threads whose ident is not that of a *)
(*                 snapshot entry still taken for alive (fix 12a8a7f; before *)
(*                 it: of any snapshot entry - deviation                     *)
(*                 "SnapshotKeepsEnded") and whose name matches no ignore    *)
(*                 pattern                                                   *)
(* P-spec: report[k] = threads started during test k, still running at its   *)
(* end, not ignored.                                                         *)
(* The history variable hist is the schedule replayed on the real runner.    *)
(* Deviations: "NoAliveCheck" (finished threads still known to threading are *)
(* reported), "SnapshotAfterBody" (snapshot taken too late), "KeepSnapshot"  *)
(* (the snapshot of the first test is reused).                               *)
EXTENDS Naturals, Sequences, FiniteSets, TLC

CONSTANTS NT, NTh, NI, ReuseIdents, Deviations, MaxOps, Apis

Th == 1..NTh
Idents == 1..NI

VARIABLES k, phase, st, ident, ign, api, startedIn, snap, report, used, hist, ops
vars == <<k, phase, st, ident, ign, api, startedIn, snap, report, used, hist, ops>>

Running == {th \in Th : st[th] = "alive"}
RunningIdents == {ident[th] : th \in Running}

Init == /\ k = 0 /\ phase = "between"
        /\ st = [th \in Th |-> "new"] /\ ident = [th \in Th |-> 0]
        /\ api = [th \in Th |-> "none"]
        /\ ign = [th \in Th |-> FALSE] /\ startedIn = [th \in Th |-> 0]
        /\ snap = {} /\ report = [t \in 1..NT |-> {}] /\ used = {}
        /\ hist = <<>> /\ ops = 0

TestStart == /\ phase = "between" /\ k < NT
             /\ k' = k + 1 /\ phase' = "in" /\ ops' = 0
             /\ snap' = IF "SnapshotAfterBody" \in Deviations THEN snap
                        ELSE IF "KeepSnapshot" \in Deviations /\ k >= 1 THEN snap
                        ELSE Running            \* the proxies (threads), compared by ident
             /\ hist' = Append(hist, <<"test", k + 1>>)
             /\ UNCHANGED <<st, ident, ign, api, startedIn, report, used>>

Start(th, i, g, a) ==
  /\ phase = "in" /\ st[th] = "new" /\ ops < MaxOps
  /\ \A o \in Th : o < th => st[o] # "new"          \* symmetry: threads in index order
  /\ i \notin RunningIdents
  /\ (~ReuseIdents => i \notin used)
  /\ \A j \in Idents : (j < i /\ j \notin RunningIdents /\ (ReuseIdents \/ j \notin used)) =>
        (ReuseIdents /\ j \notin used /\ i \in used)    \* canonical choice: lowest fresh, or a reused one
  /\ st' = [st EXCEPT ![th] = "alive"] /\ ident' = [ident EXCEPT ![th] = i]
  /\ api' = [api EXCEPT ![th] = a]
  /\ ign' = [ign EXCEPT ![th] = g] /\ startedIn' = [startedIn EXCEPT ![th] = k]
  /\ used' = used \cup {i} /\ ops' = ops + 1
  /\ hist' = Append(hist, <<"start", th, g>>)
  /\ UNCHANGED <<k, phase, snap, report>>

End(th) == /\ phase = "in" /\ st[th] = "alive" /\ ops < MaxOps
           /\ st' = [st EXCEPT ![th] = "dead"] /\ ops' = ops + 1
           /\ hist' = Append(hist, <<"end", th>>)
           /\ UNCHANGED <<k, phase, ident, ign, api, startedIn, snap, report, used>>

Candidates == IF "NoAliveCheck" \in Deviations
              THEN {th \in Th : st[th] \in {"alive", "dead"}} ELSE Running

TestStop == /\ phase = "in"
            /\ LET old == IF "SnapshotAfterBody" \in Deviations THEN Running ELSE snap
                   \* entries still taken for alive: a low-level thread's proxy always is
                   kept == {th \in old : \/ st[th] = "alive" \/ api[th] = "lowlevel"
                                          \/ "SnapshotKeepsEnded" \in Deviations}
                   sn == {ident[th] : th \in kept}
               IN report' = [report EXCEPT ![k] =
                     {th \in Candidates : ident[th] \notin sn /\ ~ign[th]}]
            /\ phase' = "between"
            /\ UNCHANGED <<k, st, ident, ign, api, startedIn, snap, used, hist, ops>>

Next == \/ TestStart \/ TestStop
        \/ \E th \in Th : End(th) \/ \E i \in Idents, g \in BOOLEAN, a \in Apis : Start(th, i, g, a)

Spec == Init /\ [][Next]_vars

Finished(t) == t < k \/ (t = k /\ phase = "between")

(* alive at the end of test t: evaluated when the test stops *)
Precise ==
  phase = "between" /\ k >= 1 =>
    report[k] = {th \in Th : startedIn[th] = k /\ st[th] = "alive" /\ ~ign[th]}

Done == phase = "between" /\ k = NT
Schedule == Done => PrintT(<<"SCHED", hist>>)
ProbeReuse == ~(\E a, b \in Th : a # b /\ st[a] = "dead" /\ st[b] = "alive" /\ ident[a] = ident[b])
=============================================================================
