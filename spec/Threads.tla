------------------------------- MODULE Threads -------------------------------
(* C19: threads left behind by a test are reported precisely.                *)
(*                                                                           *)
(* I-spec of the mechanism (runner.py TestResult.startTest / stopTest,       *)
(* threadsupport.enumerate):                                                 *)
(*   TestStart(k)  snapshot := proxies of the running threads, equal by      *)
(*                 *ident*; a proxy of a threading.Thread knows when its     *)
(*                 thread has ended, one of a low-level (_thread) thread     *)
(*                 does not (neither threadsupport.DummyThread nor           *)
(*                 threading._DummyThread, CPython 3.12).  A proxy wraps     *)
(*                 the threading object if threading knows the thread at     *)
(*                 that moment (it then reads the name live from it), else a *)
(*                 placeholder with a name made from the ident               *)
(*   Start(th)     a thread is started (threading or _thread API) - by a     *)
(*                 test or, k = 0, before the first test (at import time of  *)
(*                 the test modules); the system hands out an ident that no  *)
(*                 running thread has - possibly one a finished thread had   *)
(*                 before (ReuseIdents)                                      *)
(*   HookStart(th) a thread is started between two tests (or before the      *)
(*                 first) by the per-test layer hook (testSetUp) of the test *)
(*                 that is about to start: startTest calls the hook *before* *)
(*                 it takes the snapshot, so the thread exists before the    *)
(*                 test (the same holds for a TestCase.run override that     *)
(*                 starts a helper before super().run())                     *)
(*   End(th)       a running thread finishes (released by any later test)    *)
(*   Adopt(th)     a running low-level thread becomes known to threading     *)
(*                 (it calls threading.current_thread() for the first time:  *)
(*                 logging does that): from now on everybody sees it under   *)
(*                 the name threading made up for it ("Dummy-N") instead of  *)
(*                 the runner's placeholder name ("Dummy-<ident>")           *)
(*   Rename(th,n)  a running thread known to threading is given another name *)
(*   TestStop(k)   report := running threads whose ident is not that of a    *)
(*                 snapshot entry still taken for alive (fix 12a8a7f; before *)
(*                 it: of any snapshot entry - deviation                     *)
(*                 "SnapshotKeepsEnded") and whose name *at this moment*     *)
(*                 matches no ignore pattern                                 *)
(*                                                                           *)
(* Names are opaque numbers: Names (< 100) are the names a test gives to     *)
(* threading threads, several threads may carry the same one; 100 + ident is *)
(* the placeholder name of a low-level thread unknown to threading, 200 + th *)
(* the name threading makes up when it adopts one.  Which names match an     *)
(* ignore pattern is an environment fact: IgnNames, and dummyIgn for both    *)
(* kinds of made-up names (a pattern like "Dummy-" matches both or none).    *)
(* Not modelled: on CPython 3.12 threading keeps the object it made up for   *)
(* an adopted thread after the thread has ended, so a later low-level thread *)
(* that is handed the same ident is seen under that old made-up name at once *)
(* - another name of the same ignore class, so no report changes.            *)
(*                                                                           *)
(* P-spec: report (of test k, when it has stopped) = threads started during  *)
(* test k, still running at its end, not ignored.  Threads that exist before *)
(* the first test (startedIn = 0) and threads started by the per-test layer  *)
(* hook of test k+1 before that test began (startedIn = Hk(k+1), no test     *)
(* number) are never reported.  The statement does                           *)
(* not say *when* a thread's name is looked at.  The only name a runner can  *)
(* see is the one the thread carries when the test ends (the name at report  *)
(* time is what the ignore patterns see), and that name decides - except in  *)
(* this                                                                      *)
(* explicit DON'T-CARE ZONE: a thread that test k started under a name of    *)
(* one ignore class and that carries a name of the other class when k ends   *)
(* may or may not be reported for k (reading "the name it was started with"  *)
(* vs. "the name it has now").  Renaming or adopting a thread in any test    *)
(* *after* the one that started it never makes it reportable: a leak belongs *)
(* to the test that started it.                                              *)
(*                                                                           *)
(* The history variable hist (KeepHist) is the schedule replayed on the real  *)
(* runner: <<"cfg", dummyIgn>>, then <<"test", k>>, <<"start", th, ignored,  *)
(* api, name>> (before the first "test": a thread that exists before the     *)
(* first test), <<"end", th>>, <<"adopt", th>>, <<"rename", th, ignored,     *)
(* name>>.  Threads_sched_base / Threads_sched / Threads_sched_sim print it  *)
(* at terminal states (there Names are name classes, RenameSame); the        *)
(* deviation configs keep it so that their counterexamples can be replayed.  *)
(* Deviations: "NoAliveCheck" (finished threads still known to threading are *)
(* reported), "SnapshotAfterBody" (snapshot taken too late), "KeepSnapshot"  *)
(* (the snapshot of the first test is reused), "ProxyEqName" (two proxies    *)
(* are equal only if ident AND name agree: an adopted thread no longer       *)
(* equals its own snapshot entry), "OnePerName" (of several new threads with *)
(* the same name only one is reported), "SnapshotFromPrevStop" (the threads  *)
(* found running at the end of the previous test are taken for the snapshot  *)
(* of the next one; only the first test enumerates at its start: whatever is *)
(* started between the two tests counts as started by the second).           *)
(* hist: <<"hookstart", th, ignored, api, name>> after test k's stop: started *)
(* by the testSetUp hook of the next test.                                   *)
EXTENDS Naturals, Sequences, FiniteSets, TLC

CONSTANTS NT, NTh, NI, ReuseIdents, Deviations, MaxOps, Apis,
          NPre,         \* at most this many threads are started before the first test
          Names,        \* names tests give to threading threads (numbers < 100)
          IgnNames,     \* those of them that match an ignore pattern
          DummyIgn,     \* possible values of "made-up names match an ignore pattern"
          MaxX,         \* at most this many Adopt / Rename steps in a behaviour
          RenameSame,   \* schedule export: Names are name *classes*, a rename may stay in its class
          KeepHist,     \* schedule export: hist is recorded (it makes the state graph a tree)
          NHook         \* at most this many threads are started by per-test layer hooks

Th == 1..NTh
Idents == 1..NI
Ph(i) == 100 + i       \* placeholder name of a thread unknown to threading
Ad(th) == 200 + th     \* name threading makes up for an adopted thread
Hk(t) == 100 + t       \* startedIn of a thread the testSetUp hook of test t started

VARIABLES k, phase, st, ident, name, ignAtStart, api, known, startedIn, snap, report, used,
          hist, ops, xops, dummyIgn
vars == <<k, phase, st, ident, name, ignAtStart, api, known, startedIn, snap, report, used,
          hist, ops, xops, dummyIgn>>

Running == {th \in Th : st[th] = "alive"}
RunningIdents == {ident[th] : th \in Running}
Ign(n) == IF n < 100 THEN n \in IgnNames ELSE dummyIgn
Log(x) == IF KeepHist THEN Append(hist, x) ELSE hist

Init == /\ k = 0 /\ phase = "between"
        /\ st = [th \in Th |-> "new"] /\ ident = [th \in Th |-> 0]
        /\ api = [th \in Th |-> "none"] /\ known = [th \in Th |-> FALSE]
        /\ name = [th \in Th |-> 0] /\ ignAtStart = [th \in Th |-> FALSE]
        /\ startedIn = [th \in Th |-> 0]
        /\ snap = {} /\ report = {} /\ used = {}
        /\ dummyIgn \in DummyIgn
        /\ hist = <<<<"cfg", dummyIgn>>>> /\ ops = 0 /\ xops = 0

TestStart == /\ phase = "between" /\ k < NT
             /\ k' = k + 1 /\ phase' = "in" /\ ops' = 0
             /\ snap' = IF "SnapshotAfterBody" \in Deviations THEN snap
                        ELSE IF "KeepSnapshot" \in Deviations /\ k >= 1 THEN snap
                        \* (what the previous TestStop found running; never empty
                        \* in the runner: the main thread is there)
                        ELSE IF "SnapshotFromPrevStop" \in Deviations /\ k >= 1 THEN snap
                        \* the proxies, and what each of them wraps
                        ELSE {<<th, known[th]>> : th \in Running}
             /\ hist' = Log(<<"test", k + 1>>)
             /\ report' = {}
             /\ UNCHANGED <<st, ident, name, ignAtStart, api, known, startedIn, used, xops, dummyIgn>>

(* during a test, or before the first one *)
CanAct == \/ phase = "in" /\ ops < MaxOps
          \/ phase = "between" /\ k = 0 /\ ops < NPre

HookStarted == {th \in Th : startedIn[th] >= 100}
CanHook == phase = "between" /\ k < NT /\ Cardinality(HookStarted) < NHook

StartBy(th, i, n, a, hook) ==
  /\ (IF hook THEN CanHook ELSE CanAct) /\ st[th] = "new"
  /\ \A o \in Th : o < th => st[o] # "new"          \* symmetry: threads in index order
  /\ i \notin RunningIdents
  /\ (~ReuseIdents => i \notin used)
  /\ \A j \in Idents : (j < i /\ j \notin RunningIdents /\ (ReuseIdents \/ j \notin used)) =>
        (ReuseIdents /\ j \notin used /\ i \in used)    \* canonical choice: lowest fresh, or a reused one
  /\ (a = "lowlevel") = (n = Ph(i))                 \* a low-level thread has no name of its own
  /\ st' = [st EXCEPT ![th] = "alive"] /\ ident' = [ident EXCEPT ![th] = i]
  /\ api' = [api EXCEPT ![th] = a] /\ known' = [known EXCEPT ![th] = (a = "threading")]
  /\ name' = [name EXCEPT ![th] = n] /\ ignAtStart' = [ignAtStart EXCEPT ![th] = Ign(n)]
  /\ startedIn' = [startedIn EXCEPT ![th] = IF hook THEN Hk(k + 1) ELSE k]
  /\ used' = used \cup {i} /\ ops' = IF hook THEN ops ELSE ops + 1
  /\ hist' = Log(<<(IF hook THEN "hookstart" ELSE "start"), th, Ign(n), a, n>>)
  /\ UNCHANGED <<k, phase, snap, report, xops, dummyIgn>>

Start(th, i, n, a) == StartBy(th, i, n, a, FALSE)
HookStart(th, i, n, a) == StartBy(th, i, n, a, TRUE)

End(th) == /\ phase = "in" /\ st[th] = "alive" /\ ops < MaxOps
           /\ st' = [st EXCEPT ![th] = "dead"] /\ ops' = ops + 1
           /\ hist' = Log(<<"end", th>>)
           /\ UNCHANGED <<k, phase, ident, name, ignAtStart, api, known, startedIn, snap, report,
                          used, xops, dummyIgn>>

Adopt(th) == /\ phase = "in" /\ st[th] = "alive" /\ ops < MaxOps /\ xops < MaxX
             /\ api[th] = "lowlevel" /\ ~known[th]
             /\ known' = [known EXCEPT ![th] = TRUE] /\ name' = [name EXCEPT ![th] = Ad(th)]
             /\ ops' = ops + 1 /\ xops' = xops + 1
             /\ hist' = Log(<<"adopt", th>>)
             /\ UNCHANGED <<k, phase, st, ident, ignAtStart, api, startedIn, snap, report, used,
                            dummyIgn>>

Rename(th, n) == /\ phase = "in" /\ st[th] = "alive" /\ ops < MaxOps /\ xops < MaxX
                 /\ known[th] /\ (RenameSame \/ n # name[th])
                 /\ name' = [name EXCEPT ![th] = n]
                 /\ ops' = ops + 1 /\ xops' = xops + 1
                 /\ hist' = Log(<<"rename", th, Ign(n), n>>)
                 /\ UNCHANGED <<k, phase, st, ident, ignAtStart, api, known, startedIn, snap,
                                report, used, dummyIgn>>

Candidates == IF "NoAliveCheck" \in Deviations
              THEN {th \in Th : st[th] \in {"alive", "dead"}} ELSE Running

(* the name a snapshot entry shows now: read live from the threading object, *)
(* or the placeholder's own                                                  *)
SnapName(e) == IF e[2] THEN name[e[1]] ELSE Ph(ident[e[1]])
SameThread(e, th) == /\ ident[e[1]] = ident[th]
                     /\ ("ProxyEqName" \in Deviations => SnapName(e) = name[th])

TestStop == /\ phase = "in"
            /\ LET old == IF "SnapshotAfterBody" \in Deviations
                          THEN {<<th, known[th]>> : th \in Running} ELSE snap
                   \* entries still taken for alive: a low-level thread's proxy always is
                   kept == {e \in old : \/ st[e[1]] = "alive" \/ api[e[1]] = "lowlevel"
                                        \/ "SnapshotKeepsEnded" \in Deviations}
                   new == {th \in Candidates : (\A e \in kept : ~SameThread(e, th))
                                               /\ ~Ign(name[th])}
               IN report' = IF "OnePerName" \in Deviations
                            THEN {th \in new : \A o \in new : name[o] = name[th] => o <= th}
                            ELSE new
            /\ phase' = "between"
            /\ snap' = IF "SnapshotFromPrevStop" \in Deviations
                       THEN {<<th, known[th]>> : th \in Running} ELSE snap
            /\ UNCHANGED <<k, st, ident, name, ignAtStart, api, known, startedIn, used, hist,
                           ops, xops, dummyIgn>>

Next == \/ TestStart \/ TestStop
        \/ \E th \in Th : \/ End(th) \/ Adopt(th)
                          \/ \E n \in Names : Rename(th, n)
                          \/ \E i \in Idents, a \in Apis :
                               \E n \in (IF a = "lowlevel" THEN {Ph(i)} ELSE Names) :
                                  Start(th, i, n, a) \/ HookStart(th, i, n, a)

Spec == Init /\ [][Next]_vars

Finished(t) == t < k \/ (t = k /\ phase = "between")

(* evaluated when test k has just stopped: "alive" and "name" are those at   *)
(* its end                                                                   *)
Leaked == {th \in Th : startedIn[th] = k /\ st[th] = "alive"}
Must == {th \in Leaked : ~Ign(name[th]) /\ ~ignAtStart[th]}
DontCare == {th \in Leaked : Ign(name[th]) # ignAtStart[th]}
Precise ==
  phase = "between" /\ k >= 1 => Must \subseteq report /\ report \subseteq Must \cup DontCare

Done == phase = "between" /\ k = NT
Schedule == Done => PrintT(<<"SCHED", hist>>)
ProbeReuse == ~(\E a, b \in Th : a # b /\ st[a] = "dead" /\ st[b] = "alive" /\ ident[a] = ident[b])
=============================================================================
