SPECIFICATION Spec
CONSTANTS
  MaxN = 4
  WithUnit = FALSE
INVARIANT Valid
INVARIANT Deterministic
CHECK_DEADLOCK FALSE
