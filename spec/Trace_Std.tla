----------------------------- MODULE Trace_Std -----------------------------
(* C13 conformance.  One record per real in-process run:                     *)
(*   buffer, merged (stdout and stderr were one stream object, so the        *)
(*   relative order of everything printed is observable),                    *)
(*   tests = in execution order [t, seq] where seq is the test's history of  *)
(*     writes {k:"w", tok, s, dc}, result events {k:"e", v} and the test's   *)
(*     own redirections {k:"r"|"u", s} - an environment fact measured on the *)
(*     same interpreter under stock unittest (dc = written to a stream after *)
(*     the test put a saved object back: don't-care for completeness),       *)
(*   written = tokens the run really wrote to a stream object that was not   *)
(*     the test's own (event log),                                           *)
(*   items = the runner's output as <<"H", t>> (Error/Failure in test t)     *)
(*     and <<"T", tok>> occurrences, errItems = the same for a separate      *)
(*     stderr,                                                               *)
(*   hooks = stream identities seen by layer hooks (between tests),          *)
(*   phases = stream identities seen inside tests, restored (after the run). *)
(* Records of command-line runs whose layers ran in subprocesses (-j N, or   *)
(* resumed after a tearDown that is not implemented) have child = TRUE and   *)
(*   procs = one [child, base, hooks, phases] per process that ran tests:    *)
(*     base = the <<stdout, stderr>> identities the first layer hook of the  *)
(*     process saw before any of its tests ran (in a child the harness took  *)
(*     its reference objects before process.py rebound sys.stderr, so the    *)
(*     pair need not be <<"orig", "orig">> there), hooks / phases = the      *)
(*     pairs seen by every later hook / test phase of that process,          *)
(*   hookToks = tokens the testSetUp / testTearDown hooks wrote to           *)
(*     sys.stdout / sys.stderr between tests: they reach the runner's output *)
(*     once per write iff the name still denotes the process's original one. *)
(* P-spec: the clauses of the statement (StdStreams.tla: NoLeak, Complete,   *)
(* Attributed, Restored, NeverReplaced); I-spec: the output predicted by     *)
(* folding DoStart / DoWrite / DoEvent / DoStop over the history (DRIFT).    *)
EXTENDS Naturals, Sequences, FiniteSets, TLC, Json, IOUtils, SequencesExt

S == INSTANCE StdStreams WITH NT <- 0, MaxW <- 0, MaxE <- 0, MaxR <- 0,
                              Buffer <- FALSE, Deviations <- {}, Starts <- {}, st <- 0, n <- 0,
                              pc <- 0, nw <- 0, nr <- 0, evs <- 0, wr <- 0,
                              term <- 0, tamp <- 0

Recs == JsonDeserialize(IOEnv.TRACE_FILE)
VARIABLE k
Init == k \in 1..Len(Recs)
Next == UNCHANGED k
Spec == Init /\ [][Next]_k

Events(sq) == SelectSeq(sq, LAMBDA x : x.k = "e")
Kinds(sq) == LET e == Events(sq) IN [j \in 1..Len(e) |-> e[j].v]
Writes(sq) == SelectSeq(sq, LAMBDA x : x.k = "w")
IsBad(sq) == \E j \in 1..Len(sq) : sq[j].k = "e" /\ sq[j].v \in S!BadKinds
HasSkip(sq) == \E j \in 1..Len(sq) : sq[j].k = "e" /\ sq[j].v = "S"

Occ(o, tok) == {p \in 1..Len(o) : o[p].k = "T" /\ o[p].tok = tok}
LastHeader(o, p) ==
  LET hs == {j \in 1..(p - 1) : o[j].k = "H"}
  IN IF hs = {} THEN "" ELSE o[CHOOSE j \in hs : \A i \in hs : i <= j].t

(* ---- I-spec: predicted output -------------------------------------------*)
RECURSIVE RunSeq(_, _, _, _, _)
RunSeq(s, on, t, sq, j) ==
  IF j > Len(sq) THEN s
  ELSE IF sq[j].k = "w" THEN RunSeq(S!DoWrite(s, sq[j].tok, sq[j].s), on, t, sq, j + 1)
  ELSE IF sq[j].k = "r" THEN RunSeq(S!DoRedirect(s, sq[j].s), on, t, sq, j + 1)
  ELSE IF sq[j].k = "u" THEN RunSeq(S!DoUnredirect(s, sq[j].s), on, t, sq, j + 1)
  ELSE RunSeq(S!DoEvent(s, on, {}, t, sq[j].v), on, t, sq, j + 1)

RECURSIVE RunTests(_, _, _, _)
RunTests(s, on, ts, j) ==
  IF j > Len(ts) THEN s
  ELSE LET t == ts[j]
           s1 == IF t.started THEN S!DoStart(s, on, {}) ELSE S!DoSkipUnstarted(s, on, {})
           sq == IF t.started THEN t.seq ELSE SelectSeq(t.seq, LAMBDA x : FALSE)
           s2 == RunSeq(s1, on, t.t, sq, 1)
       IN RunTests(S!DoStop(s2, on, {}), on, ts, j + 1)

Predicted(r) == RunTests(IF r.child THEN S!S0c ELSE S!S0, r.buffer, r.tests, 1).out
ObservedAll(r) ==
  LET its == SelectSeq(r.items, LAMBDA x : ~(x.k = "T" /\ x.tok \in ToSet(r.hookToks)))
  IN [j \in 1..Len(its) |->
        IF its[j].k = "H" THEN <<"H", its[j].t>> ELSE <<"T", its[j].tok>>]

(* the identities a process must show between tests: its own before the      *)
(* first test (a child), the original objects (the invoking process)         *)
Home(p) == IF p.child THEN p.base ELSE <<"orig", "orig">>

(* ---- P-spec -------------------------------------------------------------*)
Verdict(r) ==
  LET all == r.items \o r.errItems
      T == 1..Len(r.tests)
      W(j) == {x \in ToSet(Writes(r.tests[j].seq)) : x.tok \in ToSet(r.written) /\ ~x.dc}
      leak == {j \in T : ~IsBad(r.tests[j].seq)
                 /\ \E x \in ToSet(Writes(r.tests[j].seq)) : Occ(all, x.tok) # {}}
      lost == {j \in T : IsBad(r.tests[j].seq) /\ ~HasSkip(r.tests[j].seq)
                 /\ \E x \in W(j) : Occ(all, x.tok) = {}}
      twice == {j \in T : \E x \in ToSet(Writes(r.tests[j].seq)) :
                   Cardinality(Occ(r.items, x.tok)) + Cardinality(Occ(r.errItems, x.tok)) > 1}
      \* attribution by position: stdout tokens always; stderr tokens when
      \* both streams were one object
      mis == {j \in T : \E x \in ToSet(Writes(r.tests[j].seq)) :
                 \E p \in Occ(r.items, x.tok) : LastHeader(r.items, p) # r.tests[j].t}
  IN IF \E j \in 1..Len(r.hooks) : r.hooks[j] # "orig" THEN <<"C13:not-restored", "between-tests">>
     ELSE IF \E i \in 1..Len(r.procs) : \E j \in 1..Len(r.procs[i].hooks) :
                r.procs[i].hooks[j] # Home(r.procs[i])
          THEN <<"C13:not-restored", "between-tests">>
     ELSE IF \E j \in 1..Len(r.hookToks) : Cardinality(Occ(all, r.hookToks[j])) #
                Cardinality({i \in 1..Len(r.hookToks) : r.hookToks[i] = r.hookToks[j]})
          THEN <<"C13:not-restored", "between-tests-write">>
     ELSE IF ~r.child /\ ~r.restored THEN <<"C13:not-restored", "after-run">>
     ELSE IF ~r.buffer /\ \E j \in 1..Len(r.phases) : r.phases[j] # "orig"
          THEN <<"C13:replaced-without-buffer", "">>
     ELSE IF ~r.buffer /\ \E i \in 1..Len(r.procs) : \E j \in 1..Len(r.procs[i].phases) :
                r.procs[i].phases[j] # Home(r.procs[i])
          THEN <<"C13:replaced-without-buffer", "">>
     ELSE IF r.crashed # "" THEN <<"C13:run-aborted", r.crashed>>
     ELSE IF r.buffer /\ leak # {} THEN <<"C13:leak", r.tests[CHOOSE j \in leak : TRUE].t>>
     ELSE IF r.buffer /\ lost # {} THEN <<"C13:lost", r.tests[CHOOSE j \in lost : TRUE].t>>
     ELSE IF r.buffer /\ twice # {} THEN <<"C13:twice", r.tests[CHOOSE j \in twice : TRUE].t>>
     ELSE IF r.buffer /\ mis # {} THEN <<"C13:misattributed", r.tests[CHOOSE j \in mis : TRUE].t>>
     ELSE IF r.buffer /\ r.merged /\ ObservedAll(r) # Predicted(r) THEN <<"DRIFT", "">>
     ELSE <<"", "">>

Report == LET v == Verdict(Recs[k]) IN PrintT(<<"STD", Recs[k].id, v[1], v[2]>>)
=============================================================================
