SPECIFICATION Spec
CONSTANTS
  MaxN = 4
  MaxFaults = 1
  MaxTests = 1
  TestKinds = {"good"}
  Repeats = {1}
  Stops = {TRUE,FALSE}
  Modes = {"seq"}
  HookModes = {"all"}
  Logging = FALSE
  Deviations = {}
CHECK_DEADLOCK FALSE
INVARIANT Refines
INVARIANT AllRun
INVARIANT StopHolds
INVARIANT FreshChildren
