CONSTANTS K = 2 M = 2 Deviations = {"SkippedNotTransferred"}
SPECIFICATION Spec
INVARIANT VerdictExact
INVARIANT ModesAgree
INVARIANT OnceEach
PROPERTY Terminates
CHECK_DEADLOCK FALSE
