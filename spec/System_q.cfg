CONSTANTS K = 2 M = 1 Deviations = {}
SPECIFICATION Spec
INVARIANT VerdictExact
INVARIANT ModesAgree
INVARIANT SkippedAgree
INVARIANT OnceEach
PROPERTY Terminates
CHECK_DEADLOCK FALSE
