SPECIFICATION Spec
CONSTANTS
  MaxN = 3
  MaxFaults = 1
  MaxTests = 1
  TestKinds = {"good","bad","skipdeco"}
  Repeats = {1,2}
  Stops = {TRUE,FALSE}
  Modes = {"seq","par"}
  HookModes = {"all"}
  Logging = FALSE
  Deviations = {"SkipFallbackUnbalanced","RepeatResetsStop"}
CHECK_DEADLOCK FALSE
INVARIANT RefinesAsBuilt
INVARIANT AllRun
INVARIANT StopHoldsAsBuilt
INVARIANT FreshChildren
