---------------------------- MODULE Trace_Options ----------------------------
(* Conformance of the real zope.testrunner.options.get_options with          *)
(* Options.tla: one record per call,                                         *)
(*   defs, args = the token sequences the argv / defaults lists were spelled *)
(*                from (harness lookup), obs = projection of the result.     *)
(* P-level clauses (alarms): over the RAW switches, evaluated on the         *)
(* observed options - what reaches the filters, the level / unit switches as *)
(* documented (for every layer kind, match relation and level), keepbytecode.*)
(* I-level (DRIFT): obs = Normalize(defs, args, {}) field by field.          *)
EXTENDS Options, Json, IOUtils

Recs == JsonDeserialize(IOEnv.TRACE_FILE)

VARIABLE k
Init == k \in 1..Len(Recs)
Next == UNCHANGED k
Spec == Init /\ [][Next]_k

ToSetS(s) == {s[i] : i \in 1..Len(s)}
PatsOf(r) == ToSetS(Vals(RawList(r.defs, r.args, "layer"))) \cup ToSetS(r.obs.layer) \cup {UnitName}
NegOf(r) == {p \in PatsOf(r) : p \in ToSetS(r.negs)}
(* environment fact r.same: pairs of patterns that are one regex once the    *)
(* '!' is stripped must get one truth value                                  *)
Stripped(r, p) == IF p \in DOMAIN r.strip THEN r.strip[p] ELSE p
Rels(r, isUnit) == {m \in [PatsOf(r) -> BOOLEAN] :
                      /\ m[UnitName] = isUnit
                      /\ \A p, q \in PatsOf(r) : Stripped(r, p) = Stripped(r, q) => m[p] = m[q]}

Pos(ns) == Parse(<<>>, ns)  \* unused helper kept for symmetry
RawTests(r) == LET ns == Parse(r.defs, r.args)
                   given == ToSetS(ns.test) \cup (IF ns.pos1 # "" /\ ns.pos2 # "" THEN {ns.pos2} ELSE {})
               IN IF given = {} THEN {"."} ELSE given
RawModules(r) == LET ns == Parse(r.defs, r.args)
                     given == ToSetS(ns.module) \cup (IF ns.pos1 \notin {"", "."} THEN {ns.pos1} ELSE {})
                 IN IF given = {} THEN {"."} ELSE given

Failed(r) ==
  LET o == r.obs
      ns == [Ns0 EXCEPT !.test = o.test, !.module = o.module, !.layer = o.layer,
                        !.atLevel = o.atLevel, !.onlyLevel = o.onlyLevel,
                        !.unit = o.unit, !.nonUnit = o.nonUnit, !.keep = o.keep,
                        !.verbose = o.verbose, !.repeat = o.repeat, !.procs = o.procs]
  IN  IF ToSetS(o.test) # RawTests(r) THEN "C08:test-patterns-changed"
      ELSE IF ToSetS(o.module) # RawModules(r) THEN "C08:module-patterns-changed"
      ELSE IF ~(\A isUnit \in BOOLEAN : \A m \in Rels(r, isUnit) :
                  CodeKeeps(ns, isUnit, NegOf(r), m) = DocKeeps(r.defs, r.args, isUnit, NegOf(r), m))
           THEN "C09:unit-layer-switches"
      ELSE IF ~(\A level \in -2..6 : CodeEligible(ns, level) = DocEligible(r.defs, r.args, level))
           THEN "C09:level-switches"
      ELSE IF o.keep # (Given(r.defs, r.args, "usecompiled") \/ Given(r.defs, r.args, "k"))
           THEN "C15:keepbytecode"
      ELSE IF ~PClauses(r.defs, r.args, ns) THEN "X:option-clauses"
      ELSE ""

Drift(r) ==
  LET e == Normalize(r.defs, r.args, {}) o == r.obs IN
  IF e.test # o.test THEN "test" ELSE IF e.module # o.module THEN "module"
  ELSE IF e.layer # o.layer THEN "layer" ELSE IF e.atLevel # o.atLevel THEN "atLevel"
  ELSE IF e.onlyLevel # o.onlyLevel THEN "onlyLevel" ELSE IF e.unit # o.unit THEN "unit"
  ELSE IF e.nonUnit # o.nonUnit THEN "nonUnit" ELSE IF e.keep # o.keep THEN "keep"
  ELSE IF e.verbose # o.verbose THEN "verbose" ELSE IF e.repeat # o.repeat THEN "repeat"
  ELSE IF e.procs # o.procs THEN "procs" ELSE ""

Report == LET r == Recs[k] IN
          (Failed(r) # "" \/ Drift(r) # "") => PrintT(<<"OPTVERDICT", r.id, Failed(r), Drift(r)>>)
=============================================================================
