SPECIFICATION Spec
CONSTANTS
  MaxN = 2
  MaxFaults = 0
  MaxTests = 1
  TestKinds = {"good","skipdeco"}
  Repeats = {1}
  Stops = {FALSE}
  Modes = {"seq"}
  HookModes = {"all"}
  Logging = FALSE
  Deviations = {"SkipFallbackUnbalanced","RepeatResetsStop"}
CHECK_DEADLOCK FALSE
INVARIANT Refines
