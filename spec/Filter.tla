------------------------------ MODULE Filter ------------------------------
(* C08.  A pattern list is a sequence of records [neg |-> BOOLEAN]; the      *)
(* matching relation (regex search mode) is an environment fact supplied as a   *)
(* sequence of booleans aligned with the pattern list: mv[i] <=> pattern i   *)
(* (without its leading '!') is found in the candidate name.                 *)
EXTENDS Naturals, Sequences

Pos(ps) == {i \in 1..Len(ps) : ~ps[i].neg}
Neg(ps) == {i \in 1..Len(ps) : ps[i].neg}

Accept(ps, mv) ==
  /\ \/ \E i \in Pos(ps) : mv[i]
     \/ (Pos(ps) = {} /\ Neg(ps) # {})
  /\ ~ \E i \in Neg(ps) : mv[i]
=============================================================================
