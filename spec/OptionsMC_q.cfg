CONSTANTS MaxArgs = 2 MaxDefs = 1 Dev = {}
SPECIFICATION Spec
INVARIANT PipelineIsNormalize
INVARIANT Clauses
INVARIANT UnitSwitches
INVARIANT LevelSwitches
PROPERTY Terminates
CHECK_DEADLOCK FALSE
