CONSTANTS NNames = 0 NOut = 2 NNoise = 1 Cap = 1 Lookalike = FALSE Deviations = {}
SPECIFICATION Spec
INVARIANT CompleteIsExact
INVARIANT FaultIsError
INVARIANT Reaped
PROPERTY NoHang
CHECK_DEADLOCK FALSE
