CONSTANTS K = 3 N = 2 L = 1 Deviations = {"ReapFrontOnly"} DepC = 1 DepD = 3 FailSpawn = {}
SPECIFICATION Spec
INVARIANT AliveBound
INVARIANT Ordered
INVARIANT Complete
PROPERTY Term
VIEW View
CHECK_DEADLOCK FALSE
