------------------------------ MODULE Parallel ------------------------------
(* C06: -j N.  I-spec of runner.resume_tests (the poll loop) and of the      *)
(* worker threads (spawn_layer_in_subprocess), one action per step:          *)
(*   main:   MainStart   while len(running) < N and ready: start next thread *)
(*           MainReap    drop the threads that are not alive any more        *)
(*           MainPrint   while current result is done: print its lines, next *)
(*           MainCheck   loop while ready or running                         *)
(*   thread: ThreadSpawn (Popen; may fail), ThreadRead (relay a stdout line  *)
(*           into the result), ThreadEOF, ThreadDone (finally: done = TRUE), *)
(*           ThreadReap (kill + communicate; the thread ends)                *)
(*   child:  ChildEmit (a line), ChildExit; a child may have to wait for     *)
(*           another one to have started (rendezvous: two layers really run  *)
(*           at the same time)                                               *)
(* P-spec: AliveBound (never more than N children), Ordered + Complete (the  *)
(* parent prints each layer's lines as one block, blocks in list order,      *)
(* nothing lost, whatever the finish order), Term (everything finishes,      *)
(* also under a feasible rendezvous).                                        *)
(* Deviations: "StartLE" (<= in the start loop), "PrintAsFinished",          *)
(* "ReapFrontOnly" (finished threads are only retired from the front),       *)
(* "DoneOnlyWithChild" (done is set next to the child clean-up, so not when  *)
(* Popen failed), "DoneEarly" (done set before the output is complete).      *)
EXTENDS Naturals, Sequences, FiniteSets, TLC

CONSTANTS K, N, L, Deviations,
          DepC, DepD, \* child DepC cannot finish before child DepD has started (0: none)
          FailSpawn   \* set of children whose Popen fails

C == 1..K
VARIABLES ready, ts, cs, cleft, pipe, buf, done, running, cur, printed, mpc, finishOrder
vars == <<ready, ts, cs, cleft, pipe, buf, done, running, cur, printed, mpc, finishOrder>>

Init == /\ ready = [i \in 1..K |-> i] /\ ts = [c \in C |-> "new"] /\ cs = [c \in C |-> "none"]
        /\ cleft = [c \in C |-> L] /\ pipe = [c \in C |-> <<>>] /\ buf = [c \in C |-> <<>>]
        /\ done = [c \in C |-> FALSE] /\ running = <<>> /\ cur = 1 /\ printed = <<>>
        /\ mpc = "start" /\ finishOrder = <<>>

Limit == IF "StartLE" \in Deviations THEN N + 1 ELSE N

MainStart == /\ mpc = "start"
             /\ IF Len(running) < Limit /\ ready # <<>>
                THEN /\ running' = Append(running, Head(ready)) /\ ready' = Tail(ready)
                     /\ ts' = [ts EXCEPT ![Head(ready)] = "spawning"] /\ UNCHANGED mpc
                ELSE /\ mpc' = "reap" /\ UNCHANGED <<running, ready, ts>>
             /\ UNCHANGED <<cs, cleft, pipe, buf, done, cur, printed, finishOrder>>

Dead(c) == ts[c] = "dead"
RECURSIVE DropFront(_)
DropFront(s) == IF s # <<>> /\ Dead(Head(s)) THEN DropFront(Tail(s)) ELSE s
MainReap == /\ mpc = "reap"
            /\ running' = IF "ReapFrontOnly" \in Deviations THEN DropFront(running)
                          ELSE SelectSeq(running, LAMBDA c : ~Dead(c))
            /\ mpc' = "print"
            /\ UNCHANGED <<ready, ts, cs, cleft, pipe, buf, done, cur, printed, finishOrder>>

Block(c) == [j \in 1..Len(buf[c]) |-> <<c, buf[c][j]>>]
MainPrint == /\ mpc = "print"
             /\ IF "PrintAsFinished" \in Deviations
                THEN LET fin == {c \in C : done[c] /\ \A j \in 1..Len(printed) : printed[j][1] # c /\ buf[c] # <<>>}
                     IN IF fin # {} THEN /\ \E c \in fin : printed' = printed \o Block(c)
                                         /\ UNCHANGED <<cur, mpc>>
                        ELSE /\ mpc' = "check" /\ UNCHANGED <<printed, cur>>
                ELSE IF cur <= K /\ done[cur]
                THEN /\ printed' = printed \o Block(cur) /\ cur' = cur + 1 /\ UNCHANGED mpc
                ELSE /\ mpc' = "check" /\ UNCHANGED <<printed, cur>>
             /\ UNCHANGED <<ready, ts, cs, cleft, pipe, buf, done, running, finishOrder>>

MainCheck == /\ mpc = "check"
             /\ mpc' = IF ready # <<>> \/ running # <<>> THEN "start" ELSE "exit"
             /\ UNCHANGED <<ready, ts, cs, cleft, pipe, buf, done, running, cur, printed, finishOrder>>

ThreadSpawn(c) ==
  /\ ts[c] = "spawning"
  /\ IF c \in FailSpawn
     THEN /\ ts' = [ts EXCEPT ![c] = "finishing"] /\ UNCHANGED cs
          /\ done' = IF "DoneOnlyWithChild" \in Deviations THEN done ELSE [done EXCEPT ![c] = TRUE]
     ELSE /\ ts' = [ts EXCEPT ![c] = "reading"] /\ cs' = [cs EXCEPT ![c] = "alive"]
          /\ done' = IF "DoneEarly" \in Deviations THEN [done EXCEPT ![c] = TRUE] ELSE done
  /\ UNCHANGED <<ready, cleft, pipe, buf, running, cur, printed, mpc, finishOrder>>

ChildEmit(c) == /\ cs[c] = "alive" /\ cleft[c] > 0
                /\ pipe' = [pipe EXCEPT ![c] = Append(@, L - cleft[c] + 1)]
                /\ cleft' = [cleft EXCEPT ![c] = @ - 1]
                /\ UNCHANGED <<ready, ts, cs, buf, done, running, cur, printed, mpc, finishOrder>>

Started(d) == cs[d] # "none"
ChildExit(c) == /\ cs[c] = "alive" /\ cleft[c] = 0
                /\ (DepC = c => Started(DepD))
                /\ cs' = [cs EXCEPT ![c] = "exited"]
                /\ finishOrder' = Append(finishOrder, c)
                /\ UNCHANGED <<ready, ts, cleft, pipe, buf, done, running, cur, printed, mpc>>

ThreadRead(c) == /\ ts[c] = "reading" /\ pipe[c] # <<>>
                 /\ buf' = [buf EXCEPT ![c] = Append(@, Head(pipe[c]))]
                 /\ pipe' = [pipe EXCEPT ![c] = Tail(@)]
                 /\ UNCHANGED <<ready, ts, cs, cleft, done, running, cur, printed, mpc, finishOrder>>

ThreadEOF(c) == /\ ts[c] = "reading" /\ pipe[c] = <<>> /\ cs[c] = "exited"
                /\ ts' = [ts EXCEPT ![c] = "parsed"]
                /\ UNCHANGED <<ready, cs, cleft, pipe, buf, done, running, cur, printed, mpc, finishOrder>>

ThreadDone(c) == /\ ts[c] = "parsed"
                 /\ done' = [done EXCEPT ![c] = TRUE] /\ ts' = [ts EXCEPT ![c] = "finishing"]
                 /\ UNCHANGED <<ready, cs, cleft, pipe, buf, running, cur, printed, mpc, finishOrder>>

ThreadReap(c) == /\ ts[c] = "finishing"
                 /\ cs' = [cs EXCEPT ![c] = IF @ = "none" THEN "none" ELSE "reaped"]
                 /\ ts' = [ts EXCEPT ![c] = "dead"]
                 /\ UNCHANGED <<ready, cleft, pipe, buf, done, running, cur, printed, mpc, finishOrder>>

Main == MainStart \/ MainReap \/ MainPrint \/ MainCheck
Proc(c) == ThreadSpawn(c) \/ ChildEmit(c) \/ ChildExit(c) \/ ThreadRead(c) \/ ThreadEOF(c)
           \/ ThreadDone(c) \/ ThreadReap(c)
Next == Main \/ \E c \in C : Proc(c)
(* per-process fairness: fairness on Next as a whole lets the poll loop starve the children *)
Spec == Init /\ [][Next]_vars /\ WF_vars(Main) /\ \A c \in C : WF_vars(Proc(c))

AliveBound == Cardinality({c \in C : cs[c] \in {"alive", "exited"}}) <= N
Ordered == \A a, b \in 1..Len(printed) : a < b =>
              \/ printed[a][1] < printed[b][1]
              \/ (printed[a][1] = printed[b][1] /\ printed[a][2] < printed[b][2])
Complete == mpc = "exit" => Len(printed) = (K - Cardinality(FailSpawn \cap C)) * L
Term == <>(mpc = "exit")
Finish == mpc = "exit" => PrintT(<<"FINISH", finishOrder>>)
View == <<ready, ts, cs, cleft, pipe, buf, done, running, cur, printed, mpc>>
=============================================================================
