---------------------------- MODULE GraphFamily ----------------------------
(* The family of layer graphs shared by the model-checking configurations   *)
(* and the exported world families: node i may only have bases among        *)
(* smaller numbers (every DAG has such a numbering); the ORDER of the bases *)
(* matters (it drives set-up order and sort keys); no repeated base.        *)
EXTENDS Naturals, Sequences, FiniteSets

SeqsNoDup(S) ==
  UNION {{s \in [1..k -> S] : \A a, b \in 1..k : a # b => s[a] # s[b]}
         : k \in 0..Cardinality(S)}

BaseChoices(i) == SeqsNoDup(1..(i - 1))

GraphsOn(n) ==
  {g \in [1..n -> UNION {BaseChoices(i) : i \in 1..n}] :
     \A i \in 1..n : g[i] \in BaseChoices(i)}

LNames == <<"L1", "L2", "L3", "L4", "L5">>
LName(i) == LNames[i]
LSet(n) == {LName(i) : i \in 1..n}

(* the same graph over layer names *)
NamedBases(g) ==
  [l \in LSet(Len(g)) |->
     LET i == CHOOSE k \in 1..Len(g) : LName(k) = l
     IN [k \in 1..Len(g[i]) |-> LName(g[i][k])]]
=============================================================================
