CONSTANTS NT = 3 NTh = 2 NI = 3 ReuseIdents = FALSE Deviations = {} MaxOps = 2 Apis = {"threading", "lowlevel"} NPre = 1 Names = {1, 3} IgnNames = {3} DummyIgn = {FALSE} MaxX = 2 RenameSame = TRUE KeepHist = TRUE workers = 1
SPECIFICATION Spec
INVARIANT Schedule
CHECK_DEADLOCK FALSE
