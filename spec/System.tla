------------------------------- MODULE System -------------------------------
(* Composition: one end-to-end run of the runner over K layers in one of its *)
(* three execution modes, at the level of what each layer contributes to the *)
(* statistics and the verdict.  It composes, in abstract form, the modules   *)
(* that are bound to the code separately:                                    *)
(*   Runner   (per-layer accounting: ran / failures / errors / skipped,      *)
(*             layer setUp / tearDown faults, NotImplementedError -> resume) *)
(*   Parallel (which layers go to children: all of them with -j N, the       *)
(*             remaining ones after a tearDown that is not supported)        *)
(*   Channel  (what of a child's numbers reaches the parent: everything, or  *)
(*             one "subprocess for <layer>" error when it could not be       *)
(*             started / died / its report was cut)                          *)
(*   Statistics / verdict (totals, failed = failures or errors)              *)
(* Checked: the verdict is "failed" exactly when something went wrong, in    *)
(* every mode (C02); when every child completes, every mode reports the same *)
(* ran / failures / errors as the sequential run (C06, C12); a test runs in  *)
(* exactly one process (C03).  Deviation "SkippedNotTransferred" (as built,  *)
(* known finding of C12): the skip count of child layers never reaches the   *)
(* parent's total.                                                           *)
EXTENDS Naturals, Sequences, FiniteSets, TLC

CONSTANTS K, M, Deviations

Kinds == {"ok", "F", "E", "S"}
Fates == {"completed", "died", "cut", "spawnfail"}
Modes == {"seq", "j", "resume"}

VARIABLES world, mode, fate, i, where, tot, bad, pc, pending
vars == <<world, mode, fate, i, where, tot, bad, pc, pending>>

(* world[l] = [tests: sequence of kinds, su: setUp raises, td: "ok"|"raise"|"notimpl"] *)
LayerSpecs == [tests : UNION {[1..n -> Kinds] : n \in 0..M}, su : BOOLEAN, td : {"ok", "raise", "notimpl"}]

Zero == [ran |-> 0, f |-> 0, e |-> 0, s |-> 0]
Add(a, b) == [ran |-> a.ran + b.ran, f |-> a.f + b.f, e |-> a.e + b.e, s |-> a.s + b.s]
Count(ts, k) == Cardinality({j \in 1..Len(ts) : ts[j] = k})

(* what running layer l in *some* process contributes there (Runner) *)
LayerResult(w) ==
  IF w.su THEN [ran |-> 0, f |-> 0, e |-> 1, s |-> 0]            \* "Layer: l.setUp" error, tests not run
  ELSE [ran |-> Len(w.tests), f |-> Count(w.tests, "F"),
        e |-> Count(w.tests, "E") + (IF w.td = "raise" THEN 1 ELSE 0),
        s |-> Count(w.tests, "S")]
LayerBad(w) == w.su \/ w.td = "raise" \/ Count(w.tests, "F") + Count(w.tests, "E") > 0

(* what of a child's result reaches the parent (Channel) *)
Arrives(r, ft) ==
  IF ft = "completed"
  THEN [r EXCEPT !.s = IF "SkippedNotTransferred" \in Deviations THEN 0 ELSE @]
  ELSE [ran |-> 0, f |-> 0, e |-> 1, s |-> 0]                    \* "subprocess for l"

Init == /\ world \in [1..K -> LayerSpecs] /\ mode \in Modes
        /\ fate \in [1..K -> Fates]
        /\ i = 1 /\ where = [l \in 1..K |-> "none"] /\ tot = Zero /\ bad = FALSE
        /\ pc = "layers" /\ pending = <<>>

(* a layer run in the parent process *)
RunHere == /\ pc = "layers" /\ i <= K /\ mode # "j"
           /\ LET w == world[i] IN
                /\ tot' = Add(tot, LayerResult(w))
                /\ bad' = (bad \/ LayerBad(w))
                /\ where' = [where EXCEPT ![i] = "parent"]
                \* a tearDown that is not supported: the remaining layers are resumed in children
                /\ IF w.td = "notimpl" /\ ~w.su /\ mode = "resume" /\ i < K
                   THEN /\ pending' = [n \in 1..(K - i) |-> i + n] /\ pc' = "children"
                   ELSE /\ pending' = pending /\ pc' = pc
                /\ i' = i + 1
           /\ UNCHANGED <<world, mode, fate>>

(* -j N: the parent runs an empty first layer, every real layer goes to a child *)
AllToChildren == /\ pc = "layers" /\ mode = "j" /\ i = 1
                 /\ pending' = [n \in 1..K |-> n] /\ pc' = "children" /\ i' = K + 1
                 /\ UNCHANGED <<world, mode, fate, where, tot, bad>>

(* one child: runs its layer, the channel decides what the parent records *)
Child == /\ pc = "children" /\ pending # <<>>
         /\ LET l == Head(pending)
                r == LayerResult(world[l])
            IN /\ tot' = Add(tot, Arrives(r, fate[l]))
               /\ bad' = (bad \/ fate[l] # "completed" \/ LayerBad(world[l]))
               /\ where' = [where EXCEPT ![l] = IF fate[l] = "spawnfail" THEN "nowhere" ELSE "child"]
         /\ pending' = Tail(pending)
         /\ UNCHANGED <<world, mode, fate, i, pc>>

Finish == /\ \/ (pc = "layers" /\ i > K) \/ (pc = "children" /\ pending = <<>>)
          /\ pc' = "done"
          /\ UNCHANGED <<world, mode, fate, i, where, tot, bad, pending>>

Next == RunHere \/ AllToChildren \/ Child \/ Finish
Spec == Init /\ [][Next]_vars /\ WF_vars(Next)

Failed == tot.f > 0 \/ tot.e > 0
RECURSIVE SeqTotals(_, _)
SeqTotals(w, l) == IF l = 0 THEN Zero ELSE Add(SeqTotals(w, l - 1), LayerResult(w[l]))

Done == pc = "done"
(* C02: the verdict is "failed" exactly when something went wrong *)
VerdictExact == Done => (Failed <=> bad)
(* C06 / C12: when every child completes, every mode reports what the sequential run reports *)
AllCompleted == \A l \in 1..K : where[l] = "child" => fate[l] = "completed"
ModesAgree == Done /\ AllCompleted /\ (\A l \in 1..K : where[l] # "nowhere") =>
                /\ tot.ran = SeqTotals(world, K).ran
                /\ tot.f = SeqTotals(world, K).f /\ tot.e = SeqTotals(world, K).e
SkippedAgree == Done /\ AllCompleted /\ (\A l \in 1..K : where[l] # "nowhere") =>
                  tot.s = SeqTotals(world, K).s
(* C03: every layer's tests run in exactly one process (or nowhere if it could not be started) *)
OnceEach == Done => \A l \in 1..K : where[l] \in {"parent", "child", "nowhere"}
Terminates == <>Done
=============================================================================
