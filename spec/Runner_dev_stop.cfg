SPECIFICATION Spec
CONSTANTS
  MaxN = 2
  MaxFaults = 0
  MaxTests = 2
  TestKinds = {"good","bad"}
  Repeats = {2}
  Stops = {TRUE}
  Modes = {"seq"}
  HookModes = {"all"}
  Logging = FALSE
  Deviations = {"SkipFallbackUnbalanced","RepeatResetsStop"}
CHECK_DEADLOCK FALSE
INVARIANT StopHolds
