CONSTANTS NTests = 2 Deviations = {"PostMortemResetsTrace"} PreChoices = {TRUE, FALSE}
SPECIFICATION Spec
INVARIANT Restored
INVARIANT HooksRestored
INVARIANT MidAsPredicted
CHECK_DEADLOCK FALSE
