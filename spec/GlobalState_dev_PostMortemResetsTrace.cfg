CONSTANTS NTests = 2 Deviations = {"PostMortemResetsTrace"} PreChoices = {"none", "both", "sys"}
SPECIFICATION Spec
INVARIANT Restored
INVARIANT HooksRestored
INVARIANT MidAsPredicted
CHECK_DEADLOCK FALSE
