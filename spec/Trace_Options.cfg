SPECIFICATION Spec
INVARIANT Report
CHECK_DEADLOCK FALSE
