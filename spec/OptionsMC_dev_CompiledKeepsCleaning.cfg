CONSTANTS MaxArgs = 2 MaxDefs = 1 Dev = {"CompiledKeepsCleaning"}
SPECIFICATION Spec
INVARIANT Clauses
INVARIANT UnitSwitches
INVARIANT LevelSwitches
CHECK_DEADLOCK FALSE
