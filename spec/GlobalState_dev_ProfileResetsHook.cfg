CONSTANTS NTests = 2 Deviations = {"ProfileResetsHook"} PreChoices = {"none", "both", "sys"}
SPECIFICATION Spec
INVARIANT Restored
INVARIANT HooksRestored
INVARIANT MidAsPredicted
CHECK_DEADLOCK FALSE
