----------------------------- MODULE DiscoveryMC -----------------------------
(* Sanity of the definitions in Discovery.tla over a family of trees: every  *)
(* subset of a 13-entry universe (kept closed under parents) x root lists    *)
(* {top}, {top, top}, {top, sub} x keep:                                     *)
(*   Found has no duplicates, even with repeated / nested roots;             *)
(*   Imported is a subsequence of Found; a file below a non-identifier or    *)
(*   ignored directory is never found; OrphansCore <= Removed <= OrphansAll; *)
(*   nothing with a source sibling is ever removed; keep => nothing removed. *)
EXTENDS Discovery, TLC

F(id, ig, igd, td, p, st, sf, ini, cmp, sb, pc, rk, br) ==
  [ident |-> id, ignF |-> ig, ignD |-> igd, tdir |-> td, py |-> p, stemT |-> st,
   stemF |-> sf, init |-> ini, comp |-> cmp, sib |-> sb, pyc |-> pc, rank |-> rk, bare |-> br]

Names ==
  [ n_tests_py  |-> F(FALSE, FALSE, FALSE, FALSE, TRUE,  TRUE,  TRUE,  FALSE, FALSE, "", FALSE, 9, FALSE),
    n_test_a_py |-> F(FALSE, FALSE, FALSE, FALSE, TRUE,  FALSE, TRUE,  FALSE, FALSE, "", FALSE, 8, FALSE),
    n_other_py  |-> F(FALSE, FALSE, FALSE, FALSE, TRUE,  FALSE, FALSE, FALSE, FALSE, "", FALSE, 6, FALSE),
    n_init      |-> F(FALSE, FALSE, FALSE, FALSE, TRUE,  FALSE, FALSE, TRUE,  FALSE, "", FALSE, 2, FALSE),
    n_tests     |-> F(TRUE,  FALSE, FALSE, TRUE,  FALSE, FALSE, FALSE, FALSE, FALSE, "", FALSE, 10, FALSE),
    n_sub       |-> F(TRUE,  FALSE, FALSE, FALSE, FALSE, FALSE, FALSE, FALSE, FALSE, "", FALSE, 7, FALSE),
    n_1bad      |-> F(FALSE, FALSE, FALSE, FALSE, FALSE, FALSE, FALSE, FALSE, FALSE, "", FALSE, 1, FALSE),
    n_git       |-> F(FALSE, TRUE,  TRUE,  FALSE, FALSE, FALSE, FALSE, FALSE, FALSE, "", FALSE, 0, FALSE),
    n_pycache   |-> F(TRUE,  TRUE,  FALSE, FALSE, FALSE, FALSE, FALSE, FALSE, FALSE, "", TRUE,  3, FALSE),
    n_x_pyc     |-> F(FALSE, FALSE, FALSE, FALSE, FALSE, FALSE, FALSE, FALSE, TRUE,  "n_x_py", FALSE, 12, FALSE),
    n_x_py      |-> F(FALSE, FALSE, FALSE, FALSE, TRUE,  FALSE, FALSE, FALSE, FALSE, "", FALSE, 11, FALSE),
    n_dot_pyc   |-> F(FALSE, FALSE, FALSE, FALSE, FALSE, FALSE, FALSE, FALSE, TRUE,  "n_dot_py", FALSE, 4, TRUE) ]

Ent(p, n, kd) == [parent |-> p, name |-> n, kind |-> kd]
Universe ==
  [ tests_py      |-> Ent("", "n_tests_py", "file"),
    other_py      |-> Ent("", "n_other_py", "file"),
    x_pyc         |-> Ent("", "n_x_pyc", "file"),
    x_py          |-> Ent("", "n_x_py", "file"),
    sub           |-> Ent("", "n_sub", "dir"),
    sub_tests     |-> Ent("sub", "n_tests", "dir"),
    sub_tests_init|-> Ent("sub_tests", "n_init", "file"),
    sub_tests_a   |-> Ent("sub_tests", "n_test_a_py", "file"),
    sub_x_pyc     |-> Ent("sub", "n_x_pyc", "file"),
    bad           |-> Ent("", "n_1bad", "dir"),
    bad_tests_py  |-> Ent("bad", "n_tests_py", "file"),
    bad_dotpyc    |-> Ent("bad", "n_dot_pyc", "file"),
    git           |-> Ent("", "n_git", "dir"),
    git_x_pyc     |-> Ent("git", "n_x_pyc", "file"),
    cache         |-> Ent("sub", "n_pycache", "dir"),
    cache_x_pyc   |-> Ent("cache", "n_x_pyc", "file") ]

Closed(S) == \A x \in S : Universe[x].parent = "" \/ Universe[x].parent \in S
AllRootLists == {<<"">>, <<"", "">>, <<"", "sub">>, <<"sub", "">>}

VARIABLES S, roots, keep, acc
Init == /\ S = {} /\ roots \in AllRootLists /\ keep \in BOOLEAN /\ acc \in BOOLEAN
(* trees grow entry by entry (parents first), so every closed subset is reached *)
Next == /\ \E x \in DOMAIN Universe \ S :
             /\ Universe[x].parent = "" \/ Universe[x].parent \in S
             /\ S' = S \cup {x}
        /\ UNCHANGED <<roots, keep, acc>>
Spec == Init /\ [][Next]_<<S, roots, keep, acc>>

T == [entries |-> [x \in S |-> Universe[x]], names |-> Names, roots |-> roots,
      walk |-> roots, walkT |-> [i \in 1..Len(roots) |-> FALSE], keep |-> keep,
      rootPkg |-> [i \in 1..Len(roots) |-> ""], walkPkg |-> [i \in 1..Len(roots) |-> ""],
      mpats |-> <<[neg |-> FALSE]>>,
      mmatch |-> [f \in S |-> [r \in {"", "sub"} |-> <<IF r = "sub" THEN acc ELSE TRUE>>]]]

Sane == (\A i \in 1..Len(roots) : roots[i] = "" \/ roots[i] \in S) =>
  /\ NoDup(Found(T))
  /\ ToSet(Imported(T)) \subseteq ToSet(Found(T))
  /\ "bad_tests_py" \notin ToSet(Found(T))
  /\ ("tests_py" \in S /\ "" \in ToSet(roots)) => "tests_py" \in ToSet(Found(T))
  /\ ("sub_tests_a" \in S /\ "sub_tests_init" \in S) => "sub_tests_a" \in ToSet(Found(T))
  /\ ("sub_tests_a" \in S /\ "sub_tests_init" \notin S) => "sub_tests_a" \notin ToSet(Found(T))
  /\ OrphansCore(T) \subseteq OrphansAll(T)
  /\ Removed(T) \subseteq OrphansAll(T)
  /\ (~keep => OrphansCore(T) \subseteq Removed(T))
  /\ (keep => Removed(T) = {})
  /\ ("x_py" \in S => "x_pyc" \notin Removed(T))
  /\ "cache_x_pyc" \notin Removed(T) /\ "git_x_pyc" \notin Removed(T)
  /\ (~keep /\ "x_pyc" \in S /\ "x_py" \notin S /\ "" \in ToSet(roots)) => "x_pyc" \in Removed(T)
=============================================================================
