----------------------------- MODULE DiscoveryMC -----------------------------
(* Sanity of the definitions in Discovery.tla over a family of trees: every  *)
(* subset of a 17-entry universe (kept closed under parents) x root lists    *)
(* {top}, {top, top}, {top, sub}, {sub, top} x {none, --usecompiled (= -k)}:     *)
(*   Found has no duplicates, even with repeated / nested roots;             *)
(*   Imported is a subsequence of Found; a file below a non-identifier or    *)
(*   ignored directory is never found; a compiled file is found only with    *)
(*   --usecompiled and only where its source is absent (one module, one      *)
(*   file); __init__.pyc makes a package only with --usecompiled;            *)
(*   OrphansCore <= Removed <= OrphansAll;                                   *)
(*   nothing with a source sibling is ever removed; keep => nothing removed. *)
EXTENDS Discovery, TLC

F(id, ig, igd, td, p, st, sf, ini, cmp, sb, pc, rk, br, cx, ic) ==
  [ident |-> id, ignF |-> ig, ignD |-> igd, tdir |-> td, py |-> p, stemT |-> st,
   stemF |-> sf, init |-> ini, comp |-> cmp, sib |-> sb, pyc |-> pc, rank |-> rk, bare |-> br,
   cext |-> cx, initc |-> ic]

(* "x" stands for a module name the tests pattern matches (ftests under       *)
(* ^f?tests$): x.py / x.pyc are candidates for discovery and for the cleanup *)
Names ==
  [ n_tests_py  |-> F(FALSE, FALSE, FALSE, FALSE, TRUE,  TRUE,  TRUE,  FALSE, FALSE, "", FALSE, 9, FALSE, FALSE, FALSE),
    n_test_a_py |-> F(FALSE, FALSE, FALSE, FALSE, TRUE,  FALSE, TRUE,  FALSE, FALSE, "", FALSE, 8, FALSE, FALSE, FALSE),
    n_other_py  |-> F(FALSE, FALSE, FALSE, FALSE, TRUE,  FALSE, FALSE, FALSE, FALSE, "", FALSE, 6, FALSE, FALSE, FALSE),
    n_init      |-> F(FALSE, FALSE, FALSE, FALSE, TRUE,  FALSE, FALSE, TRUE,  FALSE, "", FALSE, 2, FALSE, FALSE, FALSE),
    n_initc     |-> F(FALSE, FALSE, FALSE, FALSE, FALSE, FALSE, FALSE, FALSE, TRUE,  "n_init", FALSE, 5, FALSE, TRUE, TRUE),
    n_tests     |-> F(TRUE,  FALSE, FALSE, TRUE,  FALSE, FALSE, FALSE, FALSE, FALSE, "", FALSE, 10, FALSE, FALSE, FALSE),
    n_sub       |-> F(TRUE,  FALSE, FALSE, FALSE, FALSE, FALSE, FALSE, FALSE, FALSE, "", FALSE, 7, FALSE, FALSE, FALSE),
    n_1bad      |-> F(FALSE, FALSE, FALSE, FALSE, FALSE, FALSE, FALSE, FALSE, FALSE, "", FALSE, 1, FALSE, FALSE, FALSE),
    n_git       |-> F(FALSE, TRUE,  TRUE,  FALSE, FALSE, FALSE, FALSE, FALSE, FALSE, "", FALSE, 0, FALSE, FALSE, FALSE),
    n_pycache   |-> F(TRUE,  TRUE,  FALSE, FALSE, FALSE, FALSE, FALSE, FALSE, FALSE, "", TRUE,  3, FALSE, FALSE, FALSE),
    n_x_pyc     |-> F(FALSE, FALSE, FALSE, FALSE, FALSE, TRUE,  FALSE, FALSE, TRUE,  "n_x_py", FALSE, 12, FALSE, TRUE, FALSE),
    n_x_py      |-> F(FALSE, FALSE, FALSE, FALSE, TRUE,  TRUE,  FALSE, FALSE, FALSE, "", FALSE, 11, FALSE, FALSE, FALSE),
    n_dot_pyc   |-> F(FALSE, FALSE, FALSE, FALSE, FALSE, FALSE, FALSE, FALSE, TRUE,  "n_dot_py", FALSE, 4, TRUE, TRUE, FALSE) ]

Ent(p, n, kd) == [parent |-> p, name |-> n, kind |-> kd, link |-> FALSE]
Universe ==
  [ tests_py      |-> Ent("", "n_tests_py", "file"),
    other_py      |-> Ent("", "n_other_py", "file"),
    x_pyc         |-> Ent("", "n_x_pyc", "file"),
    x_py          |-> Ent("", "n_x_py", "file"),
    sub           |-> Ent("", "n_sub", "dir"),
    sub_tests     |-> Ent("sub", "n_tests", "dir"),
    sub_tests_init|-> Ent("sub_tests", "n_init", "file"),
    sub_tests_initc|-> Ent("sub_tests", "n_initc", "file"),
    sub_tests_a   |-> Ent("sub_tests", "n_test_a_py", "file"),
    sub_x_pyc     |-> Ent("sub", "n_x_pyc", "file"),
    bad           |-> Ent("", "n_1bad", "dir"),
    bad_tests_py  |-> Ent("bad", "n_tests_py", "file"),
    bad_dotpyc    |-> Ent("bad", "n_dot_pyc", "file"),
    git           |-> Ent("", "n_git", "dir"),
    git_x_pyc     |-> Ent("git", "n_x_pyc", "file"),
    cache         |-> Ent("sub", "n_pycache", "dir"),
    cache_x_pyc   |-> Ent("cache", "n_x_pyc", "file") ]

Closed(S) == \A x \in S : Universe[x].parent = "" \/ Universe[x].parent \in S
AllRootLists == {<<"">>, <<"", "">>, <<"", "sub">>, <<"sub", "">>}

VARIABLES S, roots, keep, usec, acc
vars == <<S, roots, keep, usec, acc>>
(* Found reads only usecompiled and Removed only keep, so the two flags are   *)
(* varied together (--usecompiled implies --keepbytecode); acc (does --module *)
(* accept the names relative to root "sub") matters only where "sub" is a root *)
Init == /\ S = {} /\ roots \in AllRootLists /\ keep \in BOOLEAN /\ usec = keep
        /\ acc \in (IF "sub" \in ToSet(roots) THEN BOOLEAN ELSE {TRUE})
(* trees grow entry by entry (parents first), so every closed subset is reached *)
Next == /\ \E x \in DOMAIN Universe \ S :
             /\ Universe[x].parent = "" \/ Universe[x].parent \in S
             /\ S' = S \cup {x}
        /\ UNCHANGED <<roots, keep, usec, acc>>
Spec == Init /\ [][Next]_vars

T == [entries |-> [x \in S |-> Universe[x]], names |-> Names, roots |-> roots,
      walk |-> roots, walkT |-> [i \in 1..Len(roots) |-> FALSE], keep |-> keep, usecompiled |-> usec,
      rootPkg |-> [i \in 1..Len(roots) |-> ""], walkPkg |-> [i \in 1..Len(roots) |-> ""],
      mpats |-> <<[neg |-> FALSE]>>,
      mmatch |-> [f \in S |-> [r \in {"", "sub"} |-> <<IF r = "sub" THEN acc ELSE TRUE>>]]]

Sane == (\A i \in 1..Len(roots) : roots[i] = "" \/ roots[i] \in S) =>
  LET found == Found(T)
      fs == ToSet(found)
      removed == Removed(T)
      oall == OrphansAll(T)
      ocore == OrphansCore(T)
      top == "" \in ToSet(roots)
  IN
  /\ NoDup(found)
  /\ OneFilePerModule(T, found)
  /\ ToSet(Imported(T)) \subseteq fs
  /\ "bad_tests_py" \notin fs
  /\ ("tests_py" \in S /\ top) => "tests_py" \in fs
  /\ ("sub_tests_a" \in fs) <=> /\ "sub_tests_a" \in S
                             /\ ("sub_tests_init" \in S \/ (usec /\ "sub_tests_initc" \in S))
  (* compiled files: only with --usecompiled, only where the source is absent *)
  /\ (~usec => \A f \in fs : Names[Universe[f].name].py)
  /\ ("x_py" \in S /\ top) => "x_py" \in fs
  /\ ("x_pyc" \in fs) <=> (usec /\ top /\ "x_pyc" \in S /\ "x_py" \notin S)
  /\ ("sub_x_pyc" \in fs) <=> (usec /\ "sub_x_pyc" \in S)
  /\ "git_x_pyc" \notin fs /\ "cache_x_pyc" \notin fs /\ "sub_tests_initc" \notin fs
  /\ ocore \subseteq oall
  /\ removed \subseteq oall
  /\ (~keep => ocore \subseteq removed)
  /\ (keep => removed = {})
  /\ ("x_py" \in S => "x_pyc" \notin removed)
  /\ "cache_x_pyc" \notin removed /\ "git_x_pyc" \notin removed
  /\ (~keep /\ "x_pyc" \in S /\ "x_py" \notin S /\ top) => "x_pyc" \in removed
=============================================================================
