---------------------------- MODULE Trace_Filter ----------------------------
(* C08 conformance: one record per call of the real                         *)
(* zope.testrunner.filter.build_filtering_func(patterns)(name);              *)
(*   ps  = <<[neg |-> pattern starts with '!']>>,                            *)
(*   mv  = environment fact: re.search(pattern without its '!', name),       *)
(*   obs = what the real function returned.                                  *)
(* TLC evaluates Filter!Accept for every record and reports each mismatch.   *)
EXTENDS Naturals, Sequences, TLC, Json, IOUtils, Filter

Recs == JsonDeserialize(IOEnv.TRACE_FILE)

VARIABLE k
Init == k \in 1..Len(Recs)
Next == UNCHANGED k
Spec == Init /\ [][Next]_k

Expected(r) == Accept(r.ps, r.mv)
Report == LET r == Recs[k] IN
          (r.obs # Expected(r)) => PrintT(<<"MISMATCH", r.id, Expected(r)>>)
=============================================================================
