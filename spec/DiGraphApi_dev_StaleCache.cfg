SPECIFICATION Spec
CONSTANTS
  N = 3
  MemoChoices = {TRUE}
  Deviations = {"StaleCache"}
INVARIANT TypeOK
INVARIANT OracleSane
INVARIANT AnswerOk
VIEW View
CHECK_DEADLOCK FALSE
