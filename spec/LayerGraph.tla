---------------------------- MODULE LayerGraph ----------------------------
(* Layer graphs: a finite DAG given as  bases : layer -> Seq(layer)  (the     *)
(* order of bases matters to the runner's ordering code, not to the stack     *)
(* discipline).  The unit-test layer is the empty string: it has no bases,    *)
(* no hooks, and Closure(Unit) = {}.                                          *)
EXTENDS Naturals, Sequences, FiniteSets

Unit == ""

SeqSet(s) == {s[i] : i \in 1..Len(s)}

RECURSIVE Anc(_, _)
Anc(bases, l) ==
  IF l = Unit THEN {}
  ELSE LET bs == SeqSet(bases[l]) IN bs \cup UNION {Anc(bases, b) : b \in bs}

Closure(bases, l) == IF l = Unit THEN {} ELSE {l} \cup Anc(bases, l)

Desc(bases, L, l) == {d \in L : l \in Anc(bases, d)}

IsDAG(bases, L) == \A l \in L : l \notin Anc(bases, l)

(* s is a linearisation of the set S that respects the ancestor relation.    *)
TopoSeq(bases, s) ==
  \A a, b \in 1..Len(s) : s[a] \in Anc(bases, s[b]) => a < b

NoDup(s) == \A a, b \in 1..Len(s) : s[a] = s[b] => a = b
=============================================================================
