SPECIFICATION Spec
CONSTANTS
  MaxN = 3
  WithUnit = TRUE
INVARIANT Valid
INVARIANT Deterministic
CHECK_DEADLOCK FALSE
