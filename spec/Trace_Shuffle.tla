---------------------------- MODULE Trace_Shuffle ----------------------------
(* C11 conformance.  One record per (world, seed) bundle:                    *)
(*   layers = the world's layer keys in Python's sorted order of their       *)
(*            dotted names (environment fact), tests[l] = discovered order   *)
(*            (observed with --list-tests without --shuffle),                *)
(*   choice = c[p][n] = floor(r_p * n) for the stream of                     *)
(*            random.Random(seed) (environment fact; empty if no seed known),*)
(*   given  = the seed passed ("" when none), obs = observations:            *)
(*     [mode, seed (reported), orders: [l |-> observed order]] for           *)
(*     --list-tests, a sequential run, -j N children, resumed children,      *)
(*     --layer subsets, other interpreters, and re-runs with the reported    *)
(*     seed.                                                                 *)
(* P-spec: every observed order is a permutation of that layer's tests; all  *)
(* observations of one bundle agree; the reported seed is the given one.     *)
(* I-spec (DRIFT): the order is Shuffle!ShuffleAll for the choice table.     *)
EXTENDS Naturals, Sequences, FiniteSets, TLC, Json, IOUtils, Shuffle

Recs == JsonDeserialize(IOEnv.TRACE_FILE)
VARIABLE k
Init == k \in 1..Len(Recs)
Next == UNCHANGED k
Spec == Init /\ [][Next]_k

LayersOf(r, o) == {l \in ToSet(r.layers) : l \in DOMAIN o.orders}

Verdict(r) ==
  LET O == 1..Len(r.obs)
      notperm == {a \in O : \E l \in LayersOf(r, r.obs[a]) :
                              ~IsPerm(r.obs[a].orders[l], r.tests[l])}
      seedbad == {a \in O : r.given # "" /\ r.obs[a].seed # r.given}
      noseed == {a \in O : r.obs[a].seed = ""}
      differs == {a \in O : \E b \in O : b < a /\
                    \E l \in LayersOf(r, r.obs[a]) \cap LayersOf(r, r.obs[b]) :
                        r.obs[a].orders[l] # r.obs[b].orders[l]}
  IN IF notperm # {} THEN <<"C11:not-permutation", r.obs[CHOOSE a \in notperm : TRUE].mode>>
     ELSE IF noseed # {} THEN <<"C11:seed-not-reported", r.obs[CHOOSE a \in noseed : TRUE].mode>>
     ELSE IF seedbad # {} THEN <<"C11:seed-misreported", r.obs[CHOOSE a \in seedbad : TRUE].mode>>
     ELSE IF differs # {}
          THEN LET a == CHOOSE x \in differs : \A y \in differs : x <= y
               IN <<IF r.given = "" THEN "C11:seed-not-reproducing" ELSE "C11:mode-differs",
                    r.obs[a].mode>>
     ELSE IF Len(r.choice) > 0 /\ \E a \in O : \E l \in LayersOf(r, r.obs[a]) :
                r.obs[a].orders[l] # ShuffleAll(r.layers, r.tests, r.choice)[l]
          THEN <<"DRIFT", "">>
     ELSE <<"", "">>

Report == LET v == Verdict(Recs[k]) IN PrintT(<<"SHUF", Recs[k].id, v[1], v[2]>>)
=============================================================================
