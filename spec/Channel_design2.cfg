CONSTANTS NNames = 2 NOut = 3 NNoise = 2 Cap = 2 Lookalike = FALSE Deviations = {}
SPECIFICATION Spec
INVARIANT CompleteIsExact
INVARIANT FaultIsError
INVARIANT Reaped
PROPERTY NoHang
CHECK_DEADLOCK FALSE
