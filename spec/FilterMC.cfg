SPECIFICATION Spec
CONSTANTS
  Pats = {"a", "b", "c"}
  MaxLen = 3
INVARIANT ListFormIsSetForm
INVARIANT Definition
INVARIANT AddNegNeverSelects
INVARIANT AddPosNeverDeselects
INVARIANT OrderAndDuplicatesIrrelevant
CHECK_DEADLOCK FALSE
