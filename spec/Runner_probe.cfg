SPECIFICATION Spec
CONSTANTS
  MaxN = 2
  MaxFaults = 1
  MaxTests = 1
  TestKinds = {"good"}
  Repeats = {1}
  Stops = {FALSE}
  Modes = {"seq"}
  HookModes = {"all"}
  Logging = FALSE
  Deviations = {}
CHECK_DEADLOCK FALSE
INVARIANT ProbeNotImplParent
