CONSTANTS NT = 2 R = 2 Deviations = {"SubTestIdentity"}
SPECIFICATION Spec
INVARIANT CountsAgree
INVARIANT PassOncePerIteration
INVARIANT BadCarriesIdentity
INVARIANT WellFormedStrings
CHECK_DEADLOCK FALSE
