CONSTANTS NT = 2 R = 2 NI = 1 Deviations = {"SubTestIdentity"}
SPECIFICATION Spec
INVARIANT CountsAgree
INVARIANT PassOncePerIteration
INVARIANT BadCarriesIdentity
INVARIANT ImportFailuresReported
INVARIANT NothingUnselected
INVARIANT WellFormedStrings
CHECK_DEADLOCK FALSE
