--------------------------- MODULE Trace_Discovery ---------------------------
(* C14 / C15 conformance.  One record per real run on a materialised tree:   *)
(*   T         the tree with its name facts (see Discovery.tla)              *)
(*   what      "find" | "clean"                                              *)
(*   imported  ids of the tree's .py / .pyc files in the order their top-    *)
(*             level code ran (each file logs its own import; a compiled    *)
(*             file loaded without source logs its own path), __init__      *)
(*             files excluded                                               *)
(*   listed    one id per test --list-tests printed, in that order: the file *)
(*             of the module the test belongs to (a module is imported at    *)
(*             most once per name, so a module that is discovered twice      *)
(*             shows here: its tests are collected, and would run, twice)    *)
(*   deleted / changed   file-system diff (ids gone / ids whose size or hash *)
(*             changed or paths that appeared)                               *)
EXTENDS Naturals, Sequences, FiniteSets, TLC, Json, IOUtils, Discovery

Recs == JsonDeserialize(IOEnv.TRACE_FILE)
(* g = 0: start; then one of G groups is picked, then one record of that     *)
(* group (two levels, so that TLC's workers share the records: the verdict  *)
(* of a record is evaluated by the worker that generates its state)         *)
VARIABLES g, k
G == 64
Init == g = 0 /\ k = 0
Next == \/ g = 0 /\ g' \in 1..G /\ k' = 0
        \/ g > 0 /\ k = 0 /\ g' = g /\ k' \in {i \in 1..Len(Recs) : i % G = g - 1}
Spec == Init /\ [][Next]_<<g, k>>

Twice(s) == CHOOSE x \in ToSet(s) : \E a, b \in 1..Len(s) : a # b /\ s[a] = x /\ s[b] = x

FindVerdict(r) ==
  LET T == r.T
      W == Walks(T)
      found == FoundIn(W)
      imp == SelectSeq(found, LAMBDA f : AcceptedAny(T, W, f))
      may == ToSet(imp)
      must == ToSet(SelectSeq(found, LAMBDA f : Accepted(T, W, f)))
      obs == r.imported
      lst == r.listed
      fs == ToSet(found)
  IN IF r.crashed # "" THEN <<"C14:run-failed", r.crashed>>
     ELSE IF ~NoDup(obs) THEN <<"C14:twice", Twice(obs)>>
     ELSE IF ~NoDup(lst) THEN <<"C14:twice", Twice(lst)>>
     ELSE IF \E x \in ToSet(obs) : x \notin may /\ x \in fs THEN <<"C14:filtered-imported", "">>
     ELSE IF \E x \in ToSet(obs) \cup ToSet(lst) : x \notin may
          THEN <<"C14:extra", CHOOSE x \in ToSet(obs) \cup ToSet(lst) : x \notin may>>
     ELSE IF \E x \in must : x \notin ToSet(obs) \/ x \notin ToSet(lst)
          THEN <<"C14:missing", CHOOSE x \in must : x \notin ToSet(obs) \/ x \notin ToSet(lst)>>
     ELSE IF obs # SelectSeq(found, LAMBDA f : f \in ToSet(obs)) THEN <<"C14:order", "">>
     ELSE IF lst # SelectSeq(found, LAMBDA f : f \in ToSet(lst)) THEN <<"C14:order", "listed">>
     ELSE IF obs # imp \/ lst # imp THEN <<"DRIFT", "">>
     ELSE <<"", "">>

CleanVerdict(r) ==
  LET T == r.T
      del == ToSet(r.deleted)
      oa == OrphansAll(T)
      oc == OrphansCore(T)
  IN IF r.crashed # "" THEN <<"C15:run-failed", r.crashed>>
     ELSE IF T.keep /\ del # {} THEN <<"C15:keep-ignored", CHOOSE x \in del : TRUE>>
     ELSE IF ~(del \subseteq oa) THEN <<"C15:unsafe-delete", CHOOSE x \in del : x \notin oa>>
     ELSE IF Len(r.changed) > 0 THEN <<"C15:modified", r.changed[1]>>
     ELSE IF ~T.keep /\ ~(oc \subseteq del) THEN <<"C15:orphan-kept", CHOOSE x \in oc : x \notin del>>
     ELSE IF del # (IF T.keep THEN {} ELSE oa) THEN <<"DRIFT", "">>
     ELSE <<"", "">>

Verdict(r) == IF r.what = "find" THEN FindVerdict(r) ELSE CleanVerdict(r)
Report == k > 0 => LET v == Verdict(Recs[k]) IN PrintT(<<"DISC", Recs[k].id, v[1], v[2]>>)
=============================================================================
