SPECIFICATION Spec
CONSTANTS
  N = 4
  Orders = "canonical"
  Trivials = {TRUE, FALSE}
  WithNoEntry = FALSE
  Deviations = {}
INVARIANT Correct
INVARIANT NeverRaises
INVARIANT Partial
INVARIANT StackDiscipline
CHECK_DEADLOCK FALSE
