CONSTANTS NTests = 1 Deviations = {} PreChoices = {"both"}
CONSTANTS OptUniverse = {"coverage", "profile", "buffer"}
CONSTANTS PreDebugChoices = {{"DEBUG_STATS"}} GChoices = {{"DEBUG_UNCOLLECTABLE"}} V4Choices = {FALSE}
CONSTANTS NestChoices = {TRUE} InnerOptUniverse = {"G", "coverage", "profile", "buffer", "warnings"}
CONSTANTS InnerEndings = {"normal", "kbint"} MaxNest = 1
SPECIFICATION Spec
INVARIANT Restored
INVARIANT HooksRestored
INVARIANT MidAsPredicted
INVARIANT DebugAsPredicted
PROPERTY Terminates
CHECK_DEADLOCK FALSE
