CONSTANTS MaxArgs = 2 MaxDefs = 1 Dev = {}
SPECIFICATION Spec
INVARIANT ProbeLegacy
CHECK_DEADLOCK FALSE
