----------------------------- MODULE XmlReport -----------------------------
(* C17: --xml reports are well-formed and agree with the run.                *)
(*                                                                           *)
(* I-spec of formatter.XMLOutputFormattingWrapper:                           *)
(*   Record(t, e)  test_success / test_failure / test_error -> _record:      *)
(*                 a testcase entry is appended to the suite named by the    *)
(*                 parser chain (parse_unittest: "<module>.<class>" of the   *)
(*                 object the event is about, name = its id minus that       *)
(*                 prefix) and the suite's error / failure counters are      *)
(*                 bumped                                                    *)
(*   Serialize     writeXMLReports: one file per suite with tests / errors / *)
(*                 failures attributes and one testcase element per entry;   *)
(*                 every string goes through the serialiser's per-character  *)
(*                 treatment (table below)                                   *)
(* Deviations: "SubTestIdentity" (as-built before the fix: a failing subtest *)
(* is recorded under the _SubTest object's own class, with a name cut out of *)
(* the wrong id), "CountDistinctTests" (tests attribute counts distinct test *)
(* objects), "RawSerializer" (ElementTree's own treatment of characters XML  *)
(* 1.0 does not allow: C0 controls verbatim, surrogates and U+FFFE/F as       *)
(* numeric references).                                                      *)
EXTENDS Naturals, Sequences, FiniteSets, TLC

CONSTANTS NT, R, Deviations

Outcomes == {<<"ok">>, <<"X">>, <<"S">>, <<"F">>, <<"E">>, <<"U">>, <<"SF">>,
             <<"SF", "SE">>, <<"E", "E">>, <<"F", "E">>, <<"SF", "F">>}
Bad == {"F", "E", "U", "SF", "SE"}
FailKinds == {"F", "SF"}
ErrKinds == {"E", "U", "SE"}
IsSub(e) == e \in {"SF", "SE"}
Classes == {"A", "B"}

VARIABLES cls, outc, it, t, ev, suites, attrs, pc
vars == <<cls, outc, it, t, ev, suites, attrs, pc>>

Init == /\ cls \in [1..NT -> Classes] /\ outc \in [1..NT -> Outcomes]
        /\ it = 1 /\ t = 1 /\ ev = 1 /\ pc = "run"
        /\ suites = [s \in Classes \cup {"SubTest"} |-> <<>>]
        /\ attrs = [s \in Classes \cup {"SubTest"} |-> [tests |-> 0, errors |-> 0, failures |-> 0]]

(* the entry _record appends for event e of test x *)
Entry(x, e) ==
  IF IsSub(e) /\ "SubTestIdentity" \in Deviations
  THEN [suite |-> "SubTest", own |-> 0, child |-> IF e \in FailKinds THEN "failure" ELSE "error", it |-> it]
  ELSE [suite |-> cls[x], own |-> x,
        child |-> IF e \in FailKinds THEN "failure" ELSE IF e \in ErrKinds THEN "error" ELSE "none",
        it |-> it]

Advance == IF ev < Len(outc[t]) THEN /\ ev' = ev + 1 /\ UNCHANGED <<t, it, pc>>
           ELSE IF t < NT THEN /\ t' = t + 1 /\ ev' = 1 /\ UNCHANGED <<it, pc>>
           ELSE IF it < R THEN /\ it' = it + 1 /\ t' = 1 /\ ev' = 1 /\ UNCHANGED pc
           ELSE /\ pc' = "serialize" /\ UNCHANGED <<t, it, ev>>

Record ==
  /\ pc = "run"
  /\ LET e == outc[t][ev] IN
       IF e = "S" THEN UNCHANGED <<suites, attrs>>      \* skips are not recorded
       ELSE LET en == Entry(t, e) IN
            /\ suites' = [suites EXCEPT ![en.suite] = Append(@, en)]
            /\ attrs' = [attrs EXCEPT ![en.suite].errors = @ + (IF en.child = "error" THEN 1 ELSE 0),
                                      ![en.suite].failures = @ + (IF en.child = "failure" THEN 1 ELSE 0)]
  /\ Advance
  /\ UNCHANGED <<cls, outc>>

Serialize ==
  /\ pc = "serialize"
  /\ attrs' = [s \in DOMAIN attrs |->
                 [attrs[s] EXCEPT !.tests =
                    IF "CountDistinctTests" \in Deviations
                    THEN Cardinality({suites[s][k].own : k \in 1..Len(suites[s])})
                    ELSE Len(suites[s])]]
  /\ pc' = "done"
  /\ UNCHANGED <<cls, outc, it, t, ev, suites>>

Next == Record \/ Serialize
Spec == Init /\ [][Next]_vars /\ WF_vars(Next)

(* ---- P-spec ---------------------------------------------------------------*)
AllCases == UNION {{<<s, k>> : k \in 1..Len(suites[s])} : s \in DOMAIN suites}
Case(c) == suites[c[1]][c[2]]
Count(s, ch) == Cardinality({k \in 1..Len(suites[s]) : suites[s][k].child = ch})

CountsAgree == pc = "done" => \A s \in DOMAIN suites :
   /\ attrs[s].tests = Len(suites[s])
   /\ attrs[s].errors = Count(s, "error")
   /\ attrs[s].failures = Count(s, "failure")

Passed(x) == \A k \in 1..Len(outc[x]) : outc[x][k] \in {"ok", "X"}
PassOncePerIteration == pc = "done" => \A x \in 1..NT : Passed(x) => \A i \in 1..R :
   Cardinality({c \in AllCases : Case(c).own = x /\ Case(c).child = "none" /\ Case(c).it = i}) = 1

NEv(x, K) == Cardinality({k \in 1..Len(outc[x]) : outc[x][k] \in K})
BadCarriesIdentity == pc = "done" => \A x \in 1..NT :
   /\ Cardinality({c \in AllCases : Case(c).own = x /\ Case(c).child = "failure"
                                     /\ Case(c).suite = cls[x]}) = R * NEv(x, FailKinds)
   /\ Cardinality({c \in AllCases : Case(c).own = x /\ Case(c).child = "error"
                                     /\ Case(c).suite = cls[x]}) = R * NEv(x, ErrKinds)
Terminates == <>(pc = "done")

(* ---- the serialiser's per-character treatment ---------------------------- *)
CharClasses == {"plain", "markup", "cdataend", "newline", "c0", "nul", "del_c1",
                "surrogate", "nonchar", "astral", "nonascii"}
(* what XML 1.0 allows: as the character itself / as a numeric reference *)
LegalChar(c) == c \notin {"c0", "nul", "surrogate", "nonchar"}
Render(c) ==
  IF "RawSerializer" \in Deviations
  THEN CASE c \in {"plain", "c0", "nul", "newline", "cdataend"} -> "verbatim"
         [] c = "markup" -> "entity"
         [] OTHER -> "charref"               \* us-ascii + xmlcharrefreplace
  ELSE IF LegalChar(c) THEN (IF c \in {"plain", "newline", "cdataend"} THEN "verbatim"
                             ELSE IF c = "markup" THEN "entity" ELSE "charref")
       ELSE "replaced"
WellFormedChar(c) == Render(c) \in {"entity", "replaced"} \/ LegalChar(c)
WellFormedStrings == \A s \in UNION {[1..n -> CharClasses] : n \in 0..3} :
                        \A k \in DOMAIN s : WellFormedChar(s[k])
=============================================================================
