----------------------------- MODULE XmlReport -----------------------------
(* C17: --xml reports are well-formed and agree with the run.                *)
(*                                                                           *)
(* I-spec of formatter.XMLOutputFormattingWrapper and of the place where     *)
(* Runner.run writes the reports:                                            *)
(*   RecordImportErrors  Find.global_setup -> output.import_errors: every    *)
(*                 test module that could not be imported is recorded at     *)
(*                 *find* time as an error case ("Startup") of a suite named *)
(*                 after the module - before, and whether or not, any test   *)
(*                 runs (the filters may select nothing else)                *)
(*   Record(t, e)  test_success / test_failure / test_error -> _record:      *)
(*                 a testcase entry is appended to the suite named by the    *)
(*                 parser chain (parse_unittest: "<module>.<class>" of the   *)
(*                 object the event is about, name = its id minus that       *)
(*                 prefix) and the suite's error / failure counters are      *)
(*                 bumped; only the tests the filters selected run           *)
(*   Serialize     Runner.run -> writeXMLReports: one file per suite with    *)
(*                 tests / errors / failures attributes and one testcase     *)
(*                 element per entry; every string goes through the          *)
(*                 serialiser's per-character treatment (table below)        *)
(* Deviations: "SubTestIdentity" (as-built before the fix: a failing subtest *)
(* is recorded under the _SubTest object's own class, with a name cut out of *)
(* the wrong id), "CountDistinctTests" (tests attribute counts distinct test *)
(* objects), "RawSerializer" (ElementTree's own treatment of characters XML  *)
(* 1.0 does not allow: C0 controls verbatim, surrogates and U+FFFE/F as       *)
(* numeric references).  Two more are not as-built; they are departures a    *)
(* plausible edit introduces and are kept as vacuity guards of the clauses   *)
(* they break: "ReportOnlyIfRan" (the reports are written only when at least *)
(* one test ran: an import failure reported by a run that ran nothing is     *)
(* lost) and "KeepPythonWhitespace" (what Python calls white space, VT and FF *)
(* included, is passed through although XML 1.0 allows TAB, LF and CR only). *)
EXTENDS Naturals, Sequences, FiniteSets, TLC

CONSTANTS NT, R, NI, Deviations
ASSUME NI \in 0..2

Outcomes == {<<"ok">>, <<"X">>, <<"S">>, <<"F">>, <<"E">>, <<"U">>, <<"SF">>,
             <<"SF", "SE">>, <<"E", "E">>, <<"F", "E">>, <<"SF", "F">>}
Bad == {"F", "E", "U", "SF", "SE"}
FailKinds == {"F", "SF"}
ErrKinds == {"E", "U", "SE"}
IsSub(e) == e \in {"SF", "SE"}
Classes == {"A", "B"}
ModName(k) == IF k = 1 THEN "Mod1" ELSE "Mod2"      \* the suite of the k-th module that fails to import
ModSuites == {ModName(k) : k \in 1..NI}
SuiteNames == Classes \cup {"SubTest"} \cup ModSuites

VARIABLES cls, outc, sel, imp, it, t, ev, ran, suites, attrs, files, pc
vars == <<cls, outc, sel, imp, it, t, ev, ran, suites, attrs, files, pc>>

(* sel: the tests the filters select (possibly none); imp: how many test      *)
(* modules fail to import; files: the suites that got a report file           *)
Init == /\ cls \in [1..NT -> Classes] /\ outc \in [1..NT -> Outcomes]
        /\ sel \in SUBSET (1..NT) /\ imp \in 0..NI
        /\ it = 1 /\ t = 1 /\ ev = 1 /\ ran = 0 /\ pc = "find" /\ files = {}
        /\ suites = [s \in SuiteNames |-> <<>>]
        /\ attrs = [s \in SuiteNames |-> [tests |-> 0, errors |-> 0, failures |-> 0]]

(* import failures are recorded when the tests are found: own = NT + k stands *)
(* for "the k-th broken module", it = 0 for "before the first iteration"      *)
RecordImportErrors ==
  /\ pc = "find"
  /\ suites' = [s \in SuiteNames |->
                  IF \E k \in 1..imp : s = ModName(k)
                  THEN <<[suite |-> s, own |-> NT + (CHOOSE k \in 1..imp : s = ModName(k)),
                          child |-> "error", it |-> 0]>>
                  ELSE suites[s]]
  /\ attrs' = [s \in SuiteNames |->
                  IF \E k \in 1..imp : s = ModName(k) THEN [attrs[s] EXCEPT !.errors = 1] ELSE attrs[s]]
  /\ pc' = "run"
  /\ UNCHANGED <<cls, outc, sel, imp, it, t, ev, ran, files>>

(* the entry _record appends for event e of test x *)
Entry(x, e) ==
  IF IsSub(e) /\ "SubTestIdentity" \in Deviations
  THEN [suite |-> "SubTest", own |-> 0, child |-> IF e \in FailKinds THEN "failure" ELSE "error", it |-> it]
  ELSE [suite |-> cls[x], own |-> x,
        child |-> IF e \in FailKinds THEN "failure" ELSE IF e \in ErrKinds THEN "error" ELSE "none",
        it |-> it]

Advance == IF ev < Len(outc[t]) THEN /\ ev' = ev + 1 /\ UNCHANGED <<t, it, pc>>
           ELSE IF t < NT THEN /\ t' = t + 1 /\ ev' = 1 /\ UNCHANGED <<it, pc>>
           ELSE IF it < R THEN /\ it' = it + 1 /\ t' = 1 /\ ev' = 1 /\ UNCHANGED pc
           ELSE /\ pc' = "serialize" /\ UNCHANGED <<t, it, ev>>

Record ==
  /\ pc = "run"
  /\ LET e == outc[t][ev] IN
       IF t \notin sel THEN UNCHANGED <<suites, attrs, ran>>     \* filtered out: does not run
       ELSE /\ ran' = IF ev = 1 THEN ran + 1 ELSE ran
            /\ IF e = "S" THEN UNCHANGED <<suites, attrs>>       \* skips are not recorded
               ELSE LET en == Entry(t, e) IN
                    /\ suites' = [suites EXCEPT ![en.suite] = Append(@, en)]
                    /\ attrs' = [attrs EXCEPT ![en.suite].errors = @ + (IF en.child = "error" THEN 1 ELSE 0),
                                              ![en.suite].failures = @ + (IF en.child = "failure" THEN 1 ELSE 0)]
  /\ Advance
  /\ UNCHANGED <<cls, outc, sel, imp, files>>

Serialize ==
  /\ pc = "serialize"
  /\ attrs' = [s \in DOMAIN attrs |->
                 [attrs[s] EXCEPT !.tests =
                    IF "CountDistinctTests" \in Deviations
                    THEN Cardinality({suites[s][k].own : k \in 1..Len(suites[s])})
                    ELSE Len(suites[s])]]
  /\ files' = IF "ReportOnlyIfRan" \in Deviations /\ ran = 0 THEN {}
              ELSE {s \in SuiteNames : suites[s] # <<>>}         \* one file per suite that has an entry
  /\ pc' = "done"
  /\ UNCHANGED <<cls, outc, sel, imp, it, t, ev, ran, suites>>

Next == RecordImportErrors \/ Record \/ Serialize
Spec == Init /\ [][Next]_vars /\ WF_vars(Next)

(* ---- P-spec: what the report *files* say ----------------------------------*)
(* (a run that selected nothing and in which nothing failed is a don't-care:   *)
(* no file and an empty report satisfy every clause)                           *)
AllCases == UNION {{<<s, k>> : k \in 1..Len(suites[s])} : s \in files}
Case(c) == suites[c[1]][c[2]]
Count(s, ch) == Cardinality({k \in 1..Len(suites[s]) : suites[s][k].child = ch})

CountsAgree == pc = "done" => \A s \in files :
   /\ attrs[s].tests = Len(suites[s])
   /\ attrs[s].errors = Count(s, "error")
   /\ attrs[s].failures = Count(s, "failure")

Passed(x) == \A k \in 1..Len(outc[x]) : outc[x][k] \in {"ok", "X"}
PassOncePerIteration == pc = "done" => \A x \in sel : Passed(x) => \A i \in 1..R :
   Cardinality({c \in AllCases : Case(c).own = x /\ Case(c).child = "none" /\ Case(c).it = i}) = 1

NEv(x, K) == Cardinality({k \in 1..Len(outc[x]) : outc[x][k] \in K})
BadCarriesIdentity == pc = "done" => \A x \in sel :
   /\ Cardinality({c \in AllCases : Case(c).own = x /\ Case(c).child = "failure"
                                     /\ Case(c).suite = cls[x]}) = R * NEv(x, FailKinds)
   /\ Cardinality({c \in AllCases : Case(c).own = x /\ Case(c).child = "error"
                                     /\ Case(c).suite = cls[x]}) = R * NEv(x, ErrKinds)
(* a reported import failure is a reported error: it appears as a testcase of *)
(* its module with an error child, whatever the filters selected              *)
ImportFailuresReported == pc = "done" => \A k \in 1..imp :
   Cardinality({c \in AllCases : Case(c).own = NT + k /\ Case(c).child = "error"
                                  /\ Case(c).suite = ModName(k)}) >= 1
NothingUnselected == pc = "done" => \A c \in AllCases : Case(c).own \in sel \cup {NT + k : k \in 1..imp}
Terminates == <>(pc = "done")

(* ---- XML 1.0 (fifth edition), production [2] -------------------------------*)
(*   Char ::= #x9 | #xA | #xD | [#x20-#xD7FF] | [#xE000-#xFFFD] | [#x10000-#x10FFFF] *)
(* over code points as plain integers (all far below 2^31); nothing here       *)
(* depends on the interpreter or on any library's idea of a character class    *)
MaxCp == 1114111                                     \* #x10FFFF
XmlChar(cp) == \/ cp \in {9, 10, 13}
               \/ (32 <= cp /\ cp <= 55295)          \* #x20 - #xD7FF
               \/ (57344 <= cp /\ cp <= 65533)       \* #xE000 - #xFFFD
               \/ (65536 <= cp /\ cp <= MaxCp)       \* #x10000 - #x10FFFF
(* both sides of every boundary of the production *)
XmlBoundaries == {8, 9, 10, 11, 12, 13, 14, 31, 32, 55295, 55296, 57343, 57344, 65533, 65534, 65535, 65536, MaxCp}

(* ---- the serialiser's per-character treatment ---------------------------- *)
CharClasses == {"plain", "markup", "cdataend", "newline", "c0", "vt_ff", "nul", "del_c1",
                "surrogate", "nonchar", "astral", "nonascii"}
(* the code points of every class, as closed ranges.  "cdataend" is a class of *)
(* *sequences* ("]]>"): its members are made of plain / markup characters, so  *)
(* it stays outside the partition of the code points.  "vt_ff" (VT, FF) is     *)
(* apart from the other C0 controls because Python counts it as white space    *)
(* next to TAB / LF / CR, which XML 1.0 does not.                              *)
ClassRanges(c) ==
  CASE c = "nul"       -> {<<0, 0>>}
    [] c = "c0"        -> {<<1, 8>>, <<14, 31>>}
    [] c = "vt_ff"     -> {<<11, 12>>}
    [] c = "newline"   -> {<<9, 10>>, <<13, 13>>}
    [] c = "markup"    -> {<<34, 34>>, <<38, 39>>, <<60, 60>>, <<62, 62>>}         \* " & ' < >
    [] c = "plain"     -> {<<32, 33>>, <<35, 37>>, <<40, 59>>, <<61, 61>>, <<63, 126>>}
    [] c = "del_c1"    -> {<<127, 159>>}
    [] c = "nonascii"  -> {<<160, 55295>>, <<57344, 65533>>}
    [] c = "surrogate" -> {<<55296, 57343>>}
    [] c = "nonchar"   -> {<<65534, 65535>>}
    [] c = "astral"    -> {<<65536, MaxCp>>}
    [] c = "cdataend"  -> {<<93, 93>>, <<62, 62>>}
CodePointClasses == CharClasses \ {"cdataend"}
InClass(cp, c) == \E r \in ClassRanges(c) : r[1] <= cp /\ cp <= r[2]
ClassOf(cp) == CHOOSE c \in CodePointClasses : InClass(cp, c)

(* Every predicate above is a finite union of ranges, so it is constant        *)
(* between two neighbouring cut points; evaluating at every cut point and at   *)
(* its predecessor is therefore as good as evaluating at all 1 114 112 code    *)
(* points (CharTableExhaustiveInv does the latter, thorough tier).             *)
AllRanges == UNION {ClassRanges(c) : c \in CodePointClasses}
CutPoints == LET raw == XmlBoundaries \cup {r[1] : r \in AllRanges} \cup {r[2] + 1 : r \in AllRanges}
             IN {cp \in raw \cup {c - 1 : c \in raw \ {0}} : cp <= MaxCp}
CharTableAt(S) ==
  /\ \A r \in AllRanges : r[1] <= r[2] /\ r[2] <= MaxCp
  /\ \A cp \in S : Cardinality({c \in CodePointClasses : InClass(cp, c)}) = 1      \* a partition
  /\ \A cp \in S : \A c \in CodePointClasses : \A r \in ClassRanges(c) :           \* no class straddles
        (r[1] <= cp /\ cp <= r[2]) => (XmlChar(cp) <=> XmlChar(r[1]))               \* a boundary of Char
CharTableOK == CharTableAt(CutPoints)

(* what XML 1.0 allows: as the character itself / as a numeric reference.      *)
(* A class is legal iff its code points are (by CharTableOK all or none are).  *)
LegalClasses == {c \in CharClasses : \A r \in ClassRanges(c) : XmlChar(r[1]) /\ XmlChar(r[2])}
LegalChar(c) == c \in LegalClasses
IllegalClasses == CharClasses \ LegalClasses
(* XmlReport_chars.cfg: one state, the whole code space.  (Written over a      *)
(* variable on purpose: TLC evaluates every constant-level definition before   *)
(* the first state, in every configuration.)                                   *)
CharSpec == Init /\ [][UNCHANGED vars]_vars
CharTableExhaustiveInv == pc = "find" =>
   /\ CharTableAt(0..MaxCp)
   /\ \A cp \in 0..MaxCp : XmlChar(cp) <=> LegalChar(ClassOf(cp))
Render(c) ==
  IF "RawSerializer" \in Deviations
  THEN CASE c \in {"plain", "c0", "vt_ff", "nul", "newline", "cdataend"} -> "verbatim"
         [] c = "markup" -> "entity"
         [] OTHER -> "charref"               \* us-ascii + xmlcharrefreplace
  ELSE IF LegalChar(c) \/ ("KeepPythonWhitespace" \in Deviations /\ c = "vt_ff")
       THEN (IF c \in {"plain", "newline", "cdataend", "vt_ff"} THEN "verbatim"
             ELSE IF c = "markup" THEN "entity" ELSE "charref")
       ELSE "replaced"
WellFormedChar(c) == Render(c) \in {"entity", "replaced"} \/ LegalChar(c)
(* constant-level: TLC evaluates it once, before the first state *)
WellFormedStrings == /\ CharTableOK
                     /\ IllegalClasses = {"c0", "vt_ff", "nul", "surrogate", "nonchar"}
                     /\ \A s \in UNION {[1..n -> CharClasses] : n \in 0..3} :
                           \A k \in DOMAIN s : WellFormedChar(s[k])

(* ---- where the reports go.  Directories as sequences of components; cwd0 = *)
(* the working directory when the options are read, cwd1 = the one the tests  *)
(* left the process in (a test may chdir and never go back; every             *)
(* --resume-layer child reads the same option in the same cwd0).  The         *)
(* directory is fixed when the options are read: a relative --xml option      *)
(* names <cwd0>/<option>/testreports whatever happens afterwards.             *)
ResolveAtConfigure(cwd0, cwd1, absolute, option) ==
  (IF absolute THEN <<>> ELSE cwd0) \o option \o <<"testreports">>
ReportDirIndependentOfLastCwd ==
  LET D == {<<"start">>, <<"tmp">>, <<"start", "sub">>}
  IN \A c0 \in D, c1 \in D, c2 \in D, ab \in BOOLEAN :
        ResolveAtConfigure(c0, c1, ab, <<"d">>) = ResolveAtConfigure(c0, c2, ab, <<"d">>)
ASSUME ReportDirIndependentOfLastCwd
=============================================================================
