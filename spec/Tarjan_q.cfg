SPECIFICATION Spec
CONSTANTS
  N = 3
  Orders = "all"
  Trivials = {TRUE, FALSE}
  WithNoEntry = TRUE
  Deviations = {}
INVARIANT Correct
INVARIANT NeverRaises
INVARIANT Partial
INVARIANT StackDiscipline
CHECK_DEADLOCK FALSE
