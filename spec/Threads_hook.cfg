CONSTANTS NT = 3 NTh = 3 NI = 3 ReuseIdents = FALSE Deviations = {} MaxOps = 2 Apis = {"threading", "lowlevel"}
          NPre = 0 Names = {1, 3} IgnNames = {3} DummyIgn = {TRUE, FALSE} MaxX = 1
          KeepHist = FALSE RenameSame = FALSE NHook = 2
SPECIFICATION Spec
INVARIANT Precise
CHECK_DEADLOCK FALSE
