----------------------------- MODULE Trace_Order -----------------------------
(* C10 conformance.  One record per (layer graph, naming, requested set):    *)
(*   bases, rank (environment fact: position of the layer's dotted name in   *)
(*   Python's sort order), unit ("" or the unit layer's key), req (the set,  *)
(*   as a sequence), obs = every order the real order_by_bases returned for  *)
(*   it (all presentation orders x class / instance layers x hash seeds).    *)
(* P-spec: every observation is a valid order, and all observations agree.   *)
(* I-spec (DRIFT only): every observation equals the transcription.          *)
EXTENDS Naturals, Sequences, FiniteSets, TLC, Json, IOUtils, SequencesExt, LayerOrder

Recs == JsonDeserialize(IOEnv.TRACE_FILE)
VARIABLE k
Init == k \in 1..Len(Recs)
Next == UNCHANGED k
Spec == Init /\ [][Next]_k

Verdict(r) ==
  LET S == SeqSet(r.req)
      bad == {j \in 1..Len(r.obs) : ~ValidOrder(r.bases, r.unit, S, r.obs[j])}
  IN IF bad # {} THEN <<"C10:not-valid", CHOOSE j \in bad : TRUE>>
     ELSE IF \E a, b \in 1..Len(r.obs) : r.obs[a] # r.obs[b] THEN <<"C10:not-deterministic", 0>>
     ELSE IF r.obs[1] # OrderByBases(r.bases, r.rank, r.unit, r.req) THEN <<"DRIFT", 0>>
     ELSE <<"", 0>>

Report == LET v == Verdict(Recs[k]) IN (v[1] # "") => PrintT(<<"ORDER", Recs[k].id, v[1], v[2]>>)
=============================================================================
